PROP = {
 "id": "C13",
 "specs": [
  "specs.subdivision"
 ],
 "functions": [
  "mouette.mesh.subdivision.split_edge",
  "mouette.mesh.subdivision.SurfaceSubdivision.triangulate_face"
 ],
 "level": "other",
 "explanation": "Under machine-checked contract: subdivision.split_edge (polyline edge split) - documented counts (+1 vertex, +1 edge), every original vertex in place, the new vertex exactly at the centre of the split edge, the two halves join the old extremities to the new vertex, every other edge untouched, cached connectivity dropped, the object passed in IS the result. Also SurfaceSubdivision.triangulate_face for faces of at most four vertices: a triangle is left alone, a quad (A,B,C,D) becomes (A,B,D) in place and (B,C,D) at the end (one more face, sides keep their direction, the diagonal used once each way), every other face untouched. The other operations of the surface and volume editing blocks rewrite shared containers through RawMeshData / prepare() and look edges up in dict tables built from numpy rows: outside the modelled subset, decided only within the stated bound by the native run-time contract against an independent reference refinement. That part is NOT a proof.",
 "trusted_base": [
  "A1 CPython executes the parsed AST as pyvc models it",
  "A3 z3 is sound",
  "utils.keyify returns the sorted tuple of its arguments",
  "PolyLine._Connectivity.clear() drops every cached table (trusted contract)",
  "split_edge precondition: containers carry no attribute (attribute alignment on append is property C05)",
  "independent plain-python reference refinement and face-list inspection (replay/C13.py, replay/meshcheck.py)"
 ],
 "bounded": [
  {
   "name": "all",
   "function": "subdivision.split_edge, SurfaceSubdivision.*, split_double_boundary_edges_triangles, VolumeSubdivision.*",
   "engine": "Br (native run-time contract)",
   "bound": "19 surfaces (tri/quad/mixed/polygon, closed and bordered, several components, coincident sheets, non-planar and non-convex faces) x 11 operations + 13 in-block sequences x face rotation x connectivity queried before or not; 5 tet meshes x cell/face splits + 10 sequences; 5 polylines: 425 cases x clauses a-g"
  }
 ],
 "not_decided": [
  "SurfaceSubdivision.*, split_double_boundary_edges_triangles, VolumeSubdivision.* beyond the bound"
 ],
 "math": []
}
