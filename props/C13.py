PROP = {
 "id": "C13",
 "specs": [],
 "functions": [],
 "level": "other",
 "explanation": "No deductive obligation yet: the editing blocks rewrite shared containers through RawMeshData / prepare() and look edges up in dict tables; the planned refine_op contracts were not built. Decided only within the stated bound by the native run-time contract against an independent reference refinement. This is NOT a proof.",
 "trusted_base": [
  "independent plain-python reference refinement and face-list inspection (replay/C13.py, replay/meshcheck.py)"
 ],
 "bounded": [
  {
   "name": "all",
   "function": "subdivision.split_edge, SurfaceSubdivision.*, split_double_boundary_edges_triangles, VolumeSubdivision.*",
   "engine": "Br (native run-time contract)",
   "bound": "19 surfaces (tri/quad/mixed/polygon, closed and bordered, several components, coincident sheets, non-planar and non-convex faces) x 11 operations + 13 in-block sequences x face rotation x connectivity queried before or not; 5 tet meshes x cell/face splits + 10 sequences; 5 polylines: 425 cases x clauses a-g"
  }
 ],
 "not_decided": [
  "everything beyond the bound"
 ],
 "math": []
}
