PROP = {
 "id": "C02",
 "specs": [
  "specs.meshdata",
  "specs.edges_from_faces"
 ],
 "functions": [
  "mouette.mesh.mesh_data.RawMeshData._compute_dimensionality",
  "mouette.mesh.mesh_data.RawMeshData.dimensionality",
  "mouette.mesh.mesh_data.RawMeshData._generate_face_corners",
  "mouette.mesh.mesh_data.RawMeshData._generate_cell_corners",
  "mouette.mesh.mesh_data.RawMeshData._complete_edges_from_faces#sides"
 ],
 "level": "other",
 "explanation": "Deductive part: the dimensionality rule (class = highest-dimensional element present) the generation of face corners (one record per face-vertex incidence, in element order, with vertex and owner face; a stale table is regenerated) and of cell corners (all three cases: both tables generated, owners only, tables given) are proved for all inputs. The completion of edges from faces (region contract on the real nested loop): declared edges stay in place, every non-degenerate side of every face is in the edge list afterwards, every appended edge is a sorted pair, a side of some face and different from every earlier edge (a shared or already declared side is stored once). Edge filtering with attribute re-indexing, face completion from cells, hard-edge flags, idempotence of rebuilding and independence of the row container type are decided only by the bounded native contract (not a proof).",
 "trusted_base": [
  "A1 CPython executes the parsed AST as pyvc models it",
  "A2 floats are mathematical reals",
  "A3 z3 is sound",
  "A6 builtin sum == last prefix sum (total_len axiom), monotonicity of prefix sums (induction, not re-proved)",
  "DataContainer methods inlined from the real source; attribute tables empty",
  "edge completion region: DataContainer.append through a trusted contract (one row appended; attribute alignment is C05); the lookup set equals the stored edges on entry (established by the set comprehension before the region: edges must already be sorted pairs for that, which _prepare_edges only guarantees afterwards - precondition, not verified)"
 ],
 "bounded": [
  {
   "name": "all",
   "function": "RawMeshData.prepare, Mesh.__init__, _instanciate_raw_mesh_data, from_arrays, load (obj/mesh/off/tet/xyz)",
   "engine": "Br (native run-time contract)",
   "bound": "44 fixed + 40 seeded random raw inputs (2-D vertices, invalid/self-loop/out-of-range/duplicated edges with sparse and dense attributes, mixed-arity faces, tets/hexes sharing faces) x 5 construction routes x list/tuple/numpy rows x the 4 switch combinations x 12 clauses incl. 3 rebuild routes and ~45 later operations compared across row types: ~28,000 cases"
  }
 ],
 "not_decided": [
  "clauses b, c, f, g, h beyond the bound"
 ],
 "math": []
}
