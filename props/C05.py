MA = 'mouette.mesh.mesh_attributes.'
PROP = {
    'id': 'C05',
    'specs': ['specs.attributes'],
    'functions': [MA + '_BaseAttribute._can_be_casted', MA + 'ArrayAttribute._check_out_of_bounds', MA + 'ArrayAttribute.__len__'],
    'level': 'other',
    'explanation': 'Only the type lattice (bool->int->float widening, nothing else), the dense bounds check (every index outside [0,size) incl. size) and the size '
                   'bookkeeping are under machine-checked contract. The storage itself (numpy arrays, dynamically typed Python values, dict of attribute objects '
                   'inside containers) is outside the modelled Python subset; the history clauses (sparse == dense after any script, read aliasing, alignment on growth) '
                   'are decided only within a stated bound by the native run-time contract, which is NOT a proof.',
    'trusted_base': ['A1 CPython executes the parsed AST as pyvc models it', 'A3 z3 is sound',
                     'enum members of Attribute.Type identified by declaration order read from the source'],
    'bounded': [
        {'name': 'scripts', 'function': 'Attribute / ArrayAttribute / DataContainer (create, set, get, in-place update of a read value, append, +=list, +=container, clear, as_array)',
         'engine': 'Br (native run-time contract)',
         'bound': '5 value types x arity {1,3} x implicit/custom default x (14 fixed scripts + 40 seeded random scripts of length 2..6; 150 in the thorough tier): both storages run the same '
                  'script and are compared with a dict model entry by entry, accept/reject compared, alignment checked after every step'},
    ],
    'not_decided': ['history clauses (a)(b)(e)(f) beyond the bounded scripts', 'sparse writes at indices outside the container are not rejected by the library: the statement only demands the dense bound check'],
    'math': [],
}
