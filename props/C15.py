PROP = {
 "id": "C15",
 "specs": [],
 "functions": [],
 "level": "other",
 "explanation": "No deductive obligation yet: the border walk depends on the rotational order contract of C01 (not proved) and the detector on attribute objects; decided only within the stated bound by the native run-time contract. This is NOT a proof.",
 "trusted_base": [
  "independent border / dihedral-angle computation from the raw face list (replay/C15.py)"
 ],
 "bounded": [
  {
   "name": "all",
   "function": "border.extract_border_cycle(_all), extract_boundary_of_surface, features.FeatureEdgeDetector",
   "engine": "Br (native run-time contract)",
   "bound": "grids 2x2..8x8 (tri/quad/mixed, holes up to 7 border loops), strips with chords, ears, fans, annuli, closed solids, unions of components, relabelled variants, both values of sort_neighborhoods, every start vertex; folded grids with dihedral angles on both sides of 60 and 36.87 degrees (to 0.001), 3 ways of declaring hard edges, 8 option combinations: 1843 cases"
  }
 ],
 "not_decided": [
  "everything beyond the bound"
 ],
 "math": []
}
