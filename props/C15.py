PROP = {
 "id": "C15",
 "specs": [
  "specs.features"
 ],
 "functions": [
  "mouette.processing.features.FeatureEdgeDetector._add_sharp_angles_to_features",
  "mouette.processing.features.FeatureEdgeDetector._add_hard_edges_to_features",
  "mouette.processing.features.FeatureEdgeDetector._add_border_to_features"
 ],
 "level": "other",
 "explanation": "Under machine-checked contract: the three detection passes of FeatureEdgeDetector decide, for every mesh and every edge, exactly the stated set - _add_sharp_angles_to_features flags exactly the interior edges whose adjacent face normals have dot product < 0.5 (more than 60 degrees apart), _add_hard_edges_to_features exactly the declared (True) hard edges that are interior with dot product < 0.8, _add_border_to_features exactly the border edges, each adds nothing else, keeps earlier flags, and the first two add nothing when only_border is set. The adjacency answers (faces on either side of an edge, border classification) are those of property C01, named by uninterpreted functions; a sparse Attribute is modelled as the dict of its written entries (assumption A-attr, behaviour checked by the C05 stand-in). Border-cycle extraction, the border polyline index map and the derived containers of run() (sets, feature degrees, local indices, corner orders: Attribute objects, numpy angles) are decided only within the stated bound by the native run-time contract. That part is NOT a proof.",
 "trusted_base": [
  "A1 CPython executes the parsed AST as pyvc models it",
  "A3 z3 is sound",
  "A-attr: a sparse Attribute behaves as the dict of its explicitly written entries (store, iteration over written keys, lookup); has_attribute / get_attribute look the name up in the attribute table",
  "contract of geometry.dot (result == dot product; discharged under C07/C12): face normals are an abstract sort here and ndot names that value",
  "C01 contracts: connectivity.edge_to_faces (valid face indices or None), is_edge_on_border; mesh.boundary_edges is the list of border edge indices",
  "face normals are present for every face (precondition); declared hard-edge indices are valid edge indices (precondition)",
  "separate parameters are separate objects (the flag attribute is not the hard-edge attribute)",
  "independent border / dihedral-angle computation from the raw face list (replay/C15.py)"
 ],
 "bounded": [
  {
   "name": "all",
   "function": "border.extract_border_cycle(_all), extract_boundary_of_surface, features.FeatureEdgeDetector",
   "engine": "Br (native run-time contract)",
   "bound": "grids 2x2..8x8 (tri/quad/mixed, holes up to 7 border loops), strips with chords, ears, fans, annuli, closed solids, unions of components, relabelled variants, both values of sort_neighborhoods, every start vertex; folded grids with dihedral angles on both sides of 60 and 36.87 degrees (to 0.001), 3 ways of declaring hard edges, 8 option combinations: 1843 cases"
  }
 ],
 "not_decided": [
  "border cycles / border polyline / derived containers beyond the bound"
 ],
 "math": []
}
