PROP = {
 "id": "C07",
 "specs": [
  "specs.geometry",
  "specs.geometry_quad"
 ],
 "functions": [
  "mouette.geometry.geometry.dot",
  "mouette.geometry.geometry.cross",
  "mouette.geometry.geometry.norm",
  "mouette.geometry.geometry.distance",
  "mouette.geometry.geometry.triangle_area",
  "mouette.geometry.geometry.triangle_area_2D",
  "mouette.geometry.geometry.det_2x2",
  "mouette.geometry.geometry.project_to_plane",
  "mouette.geometry.geometry.angle_3pts",
  "mouette.geometry.vector.Vec.normalized",
  "mouette.geometry.geometry.quad_area"
 ],
 "level": "other",
 "explanation": "Deductive part: the primitives every per-element quantity is computed with equal their textbook definitions over the reals (exact cross/dot/determinant, norms, distance, triangle area as half the norm of the cross product, projection, unit normalisation, three-point angle in [0,pi]). The attribute loops over mesh containers (corner indexing, weighting modes, border handling), rigid-motion invariance, angle sums and constant interpolation are decided only by the bounded native contract (not a proof).",
 "trusted_base": [
  "A1 CPython executes the parsed AST as pyvc models it",
  "A2 floats are mathematical reals",
  "A3 z3 is sound",
  "A7 numpy facade (dot, sqrt, abs, sum, max) on vectors of statically known length 3",
  "A10 sqrt, atan2 range axioms"
 ],
 "bounded": [
  {
   "name": "all",
   "function": "attributes.attr_vertices/edges/faces/corners/cells, glob, interpolate; geometry primitives",
   "engine": "Br (native run-time contract)",
   "bound": "44 meshes per seed (triangle/quad/polygon surfaces incl. non-planar and concave, tet volumes, polylines, point cloud) x persistent/dense/call-order options x 5 transforms (rigid motion, renumbering + face rotation, scales 2.5, 0.01, 1e-7): 8479 checks against independent numpy formulas (Newell vectors, Kahan angles, closed-form circumcentre), angle sums, 2*pi*chi, constant interpolation"
  }
 ],
 "not_decided": [
  "clauses a-e for the attribute loops beyond the bound; cotan and circumcenter as primitives (degree >= 6 NRA undecided)"
 ],
 "math": [
  "angles of a Euclidean triangle sum to pi; Gauss-Bonnet"
 ]
}
