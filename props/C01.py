S = 'mouette.mesh.datatypes.surface.SurfaceMesh._Connectivity.'
PROP = {
    'id': 'C01',
    'specs': ['specs.connectivity'],
    'functions': [S + f for f in ('previous_corner', 'next_corner', 'opposite_corner', 'corner_to_half_edge', 'half_edge_to_corner', 'direct_face',
                                  'vertex_to_corners', 'vertex_to_corner_in_face', 'face_to_first_corner')]
                 + ['mouette.mesh.datatypes.linear.PolyLine._Connectivity.vertex_to_vertices',
                    S + '_compute_connectivity#half_edges'],
    'level': 'proof',
    'trusted_base': ['A1 CPython executes the parsed AST as pyvc models it', 'A3 z3 is sound', 'A5 dict iteration order is some fixed enumeration',
                     'half-edge region: the (vertex, face) -> corner table numbers the corners face by face (established by the statements before the region: not verified); '
                     'the face list is an oriented manifold: a directed edge belongs to one corner (logical inverse map cid); corner-indexed maps cu/cv/cp/cn/cfa/cia/cja are logical '
                     'parameters tied to the face rows; monotonicity of the corner prefix sums follows from the recurrence by induction (not mechanised)',
                     'ASSUMED contract of SurfaceMesh._Connectivity._compute_connectivity: it builds all six tables together and they are structurally consistent '
                     '(predicates built/ts/tbl in specs/connectivity.py); the CONTENT of the tables against the face list is not proved here (bounded stand-in)'],
    'explanation': 'Also proved (region contract on the real statements of _compute_connectivity that fill the half-edge table): for every oriented manifold face list, '
                         'every corner c = first[f]+i gets the record [c, previous corner, next corner, None, f, i, (i+1)%len] under the key of its directed edge, and the corner -> half-edge '
                         'table maps c to that directed edge. The opposite-linking loop that follows (fills field 3), the vertex/corner tables before it and the rotational sorting are NOT under '
                         'contract: bounded stand-in.',
    'bounded': [
        {'name': 'all', 'function': 'all 30 connectivity / border accessors of SurfaceMesh vs direct inspection of the face list', 'engine': 'Br (native run-time contract)',
         'bound': '7 oriented manifold meshes (closed, 1 and 2 border loops, triangles/quads/mixed, interior and border fans) x rotations of the first two faces x 2 vertex numberings '
                  'x sorting on/off x {each accessor kind issued first on a fresh mesh, all queries in shuffled order}: 320 cases'},
    ],
    'not_decided': ['content of the half-edge table and of the sorted neighbourhoods against the face list (clauses a, c): the contract of _compute_connectivity is assumed by the '
                    'accessor proofs and only checked within the bound',
                    'what IS proved for all meshes and all histories: every accessor is safe on every cache state (fresh or built), never fails on a fresh mesh, leaves a built table '
                    'unchanged (query-order independence), and answers by the table'],
    'math': [],
}
