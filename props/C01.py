S = 'mouette.mesh.datatypes.surface.SurfaceMesh._Connectivity.'
PROP = {
    'id': 'C01',
    'specs': ['specs.connectivity'],
    'functions': [S + f for f in ('previous_corner', 'next_corner', 'opposite_corner', 'corner_to_half_edge', 'half_edge_to_corner', 'direct_face',
                                  'vertex_to_corners', 'vertex_to_corner_in_face', 'face_to_first_corner')]
                 + ['mouette.mesh.datatypes.linear.PolyLine._Connectivity.vertex_to_vertices'],
    'level': 'proof',
    'trusted_base': ['A1 CPython executes the parsed AST as pyvc models it', 'A3 z3 is sound', 'A5 dict iteration order is some fixed enumeration',
                     'ASSUMED contract of SurfaceMesh._Connectivity._compute_connectivity: it builds all six tables together and they are structurally consistent '
                     '(predicates built/ts/tbl in specs/connectivity.py); the CONTENT of the tables against the face list is not proved here (bounded stand-in)'],
    'bounded': [
        {'name': 'all', 'function': 'all 30 connectivity / border accessors of SurfaceMesh vs direct inspection of the face list', 'engine': 'Br (native run-time contract)',
         'bound': '7 oriented manifold meshes (closed, 1 and 2 border loops, triangles/quads/mixed, interior and border fans) x rotations of the first two faces x 2 vertex numberings '
                  'x sorting on/off x {each accessor kind issued first on a fresh mesh, all queries in shuffled order}: 320 cases'},
    ],
    'not_decided': ['content of the half-edge table and of the sorted neighbourhoods against the face list (clauses a, c): the contract of _compute_connectivity is assumed by the '
                    'accessor proofs and only checked within the bound',
                    'what IS proved for all meshes and all histories: every accessor is safe on every cache state (fresh or built), never fails on a fresh mesh, leaves a built table '
                    'unchanged (query-order independence), and answers by the table'],
    'math': [],
}
