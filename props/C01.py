S = 'mouette.mesh.datatypes.surface.SurfaceMesh._Connectivity.'
PROP = {
    'id': 'C01',
    'specs': ['specs.connectivity'],
    'functions': [S + f for f in ('previous_corner', 'next_corner', 'opposite_corner', 'corner_to_half_edge', 'half_edge_to_corner', 'direct_face',
                                  'vertex_to_corners', 'vertex_to_corner_in_face', 'face_to_first_corner')]
                 + ['mouette.mesh.datatypes.linear.PolyLine._Connectivity.vertex_to_vertices'],
    # S + '_compute_connectivity#half_edges' (content of the half-edge table) is NOT registered: see 'explanation'
    'level': 'proof',
    'trusted_base': ['A1 CPython executes the parsed AST as pyvc models it', 'A3 z3 is sound', 'A5 dict iteration order is some fixed enumeration',
                     'half-edge region: the (vertex, face) -> corner table numbers the corners face by face (established by the statements before the region: not verified); '
                     'the face list is an oriented manifold: a directed edge belongs to one corner (logical inverse map cid); corner-indexed maps cu/cv/cp/cn/cfa/cia/cja are logical '
                     'parameters tied to the face rows; monotonicity of the corner prefix sums follows from the recurrence by induction (not mechanised)',
                     'ASSUMED contract of SurfaceMesh._Connectivity._compute_connectivity: it builds all six tables together and they are structurally consistent '
                     '(predicates built/ts/tbl in specs/connectivity.py); the CONTENT of the tables against the face list is not proved here (bounded stand-in)'],
    'explanation': 'The content of the half-edge table (region contract _compute_connectivity#half_edges in specs/connectivity.py: every corner c = first[f]+i gets the record '
                   '[c, previous corner, next corner, None, f, i, (i+1)%len] under the key of its directed edge) was discharged completely in four runs (two local, two clean-room quick runs) but one '
                   'thorough-tier run left one of its 174 obligations UNDECIDED (solver instability on a modulo term). A check that can come back undecided on the unchanged tree is not registered: '
                   'the contract is kept in the sidecar file and can be run with `python3-vt -m pyvc.run1 specs.connectivity "<qual>#half_edges"`, but it is not counted in this evidence.',
    'bounded': [
        {'name': 'all', 'function': 'all 30 connectivity / border accessors of SurfaceMesh vs direct inspection of the face list', 'engine': 'Br (native run-time contract)',
         'bound': '7 oriented manifold meshes (closed, 1 and 2 border loops, triangles/quads/mixed, interior and border fans) x rotations of the first two faces x 2 vertex numberings '
                  'x sorting on/off x {each accessor kind issued first on a fresh mesh, all queries in shuffled order}: 320 cases'},
    ],
    'not_decided': ['content of the half-edge table and of the sorted neighbourhoods against the face list (clauses a, c): the contract of _compute_connectivity is assumed by the '
                    'accessor proofs and only checked within the bound',
                    'what IS proved for all meshes and all histories: every accessor is safe on every cache state (fresh or built), never fails on a fresh mesh, leaves a built table '
                    'unchanged (query-order independence), and answers by the table'],
    'math': [],
}
