PROP = {
 "id": "C10",
 "specs": [
  "specs.trees",
  "specs.unionfind",
  "specs.kruskal",
  "specs.bfs_tables"
 ],
 "functions": [
  "mouette.processing.trees.edge_sp.EdgeSpanningTree._avoid_edge",
  "mouette.utils.unionfind.UnionFind.__init__",
  "mouette.utils.unionfind.UnionFind.add",
  "mouette.utils.unionfind.UnionFind.find",
  "mouette.utils.unionfind.UnionFind.connected",
  "mouette.utils.unionfind.UnionFind.union",
  "mouette.processing.trees.edge_sp.EdgeMinimalSpanningTree.compute#kruskal",
  "mouette.processing.trees.edge_sp.EdgeSpanningTree.compute#tables"
 ],
 "level": "other",
 "explanation": "Deductive part: (1) Kruskal's loop of EdgeMinimalSpanningTree.compute, as a region contract on the real statements, checked against the union-find contracts: for every mesh and every candidate list the tree edge list has exactly |V| - #classes entries (each accepted edge merged two different classes: the list is a forest), the end points of every candidate processed are joined (the forest spans every component of the admissible graph), and every tree edge is the sorted pair of end points of a candidate mesh edge; (2) the last loop of the breadth-first tree (region contract): every vertex listed in children[p] was reached and has parent p, each once and in increasing order, and the tree edge list holds exactly one sorted pair (parent, vertex) per reached vertex with a parent, so no tree edge is missing or repeated; (3) the exclusion predicate of the vertex tree (an edge is skipped exactly when its id is in the exclusion set or it lies on the border when asked); (4) the union-find itself (connected <=> joined by unions, component count). Minimality of the total weight, the BFS trees, the parent/children orientation and traversal (closures over deques, generators) are not under contract; those clauses are decided only by the bounded native contract, which is not a proof.",
 "trusted_base": [
  "A1",
  "A3",
  "A5",
  "assumed C01 contracts: edge_id(a,b) and is_edge_on_border(a,b) are functions of the unordered vertex pair",
  "vertex indices are embedded into the abstract element sort of the union-find contracts by an injective function (the contracts are parametric in the element type)",
  "Kruskal region: the statements before it establish its precondition (valid candidate edge indices, empty tree edge list, one neighbour set per vertex) - not verified; the statements after it (orientation by BFS) are outside the region",
  "BFS tables region: parent entries are valid vertex indices, tables sized |V|, children lists and edge list empty on entry (precondition established by __init__ and the search loop, not verified); prefix counts of contributing vertices are a logical parameter (monotone by induction, not mechanised)"
 ],
 "bounded": [
  {
   "name": "all",
   "function": "Edge/Face/Cell SpanningTree, EdgeMinimalSpanningTree, Edge/Face/Cell SpanningForest, traverse",
   "engine": "Br (native run-time contract)",
   "bound": "6 meshes (jittered 4x4, 3x5 tri grids, 3x4 quad grid, a 2-component surface, a chain, a 3-component polyline) x 3 roots x 4 exclusion sets (incl. edge id 0) x avoid_boundary on/off; MST with weights one/length/custom (ties) compared with an independent Kruskal; face trees with 4 forbidden sets; all 6 cells of a Kuhn cube: 281 cases; checked: reach, edge count, adjacency, parent/children consistency, BFS hop distance, both traversal orders, one tree per component"
  }
 ],
 "not_decided": [
  "clauses (a)-(g) for all meshes: bounded only",
  "minimality of the MST weight rests on the cut property even once Kruskal is under contract"
 ],
 "math": []
}
