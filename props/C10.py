UF = 'mouette.utils.unionfind.UnionFind.'
PROP = {
    'id': 'C10',
    'specs': ['specs.trees', 'specs.unionfind'],
    'functions': ['mouette.processing.trees.edge_sp.EdgeSpanningTree._avoid_edge'] + [UF + f for f in ('__init__', 'add', 'find', 'connected', 'union')],
    'level': 'other',
    'explanation': 'Deductive part: the exclusion predicate of the vertex tree (an edge is skipped exactly when its id is in the exclusion set or it lies on the border when asked) '
                   'and the union-find that Kruskal relies on (connected <=> joined by unions) are proved for all inputs. The BFS / Kruskal / traversal loops (closures over deques, '
                   'generators) are not yet under contract; clauses (a)-(g) are decided for them only by the bounded native contract, which is not a proof.',
    'trusted_base': ['A1', 'A3', 'A5', 'assumed C01 contracts: edge_id(a,b) and is_edge_on_border(a,b) are functions of the unordered vertex pair'],
    'bounded': [
        {'name': 'all', 'function': 'Edge/Face/Cell SpanningTree, EdgeMinimalSpanningTree, Edge/Face/Cell SpanningForest, traverse', 'engine': 'Br (native run-time contract)',
         'bound': '6 meshes (jittered 4x4, 3x5 tri grids, 3x4 quad grid, a 2-component surface, a chain, a 3-component polyline) x 3 roots x 4 exclusion sets (incl. edge id 0) x '
                  'avoid_boundary on/off; MST with weights one/length/custom (ties) compared with an independent Kruskal; face trees with 4 forbidden sets; all 6 cells of a Kuhn cube: 281 cases; '
                  'checked: reach, edge count, adjacency, parent/children consistency, BFS hop distance, both traversal orders, one tree per component'},
    ],
    'not_decided': ['clauses (a)-(g) for all meshes: bounded only', 'minimality of the MST weight rests on the cut property even once Kruskal is under contract'],
    'math': [],
}
