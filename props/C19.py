PROP = {
    'id': 'C19',
    'specs': ['specs.bezier', 'specs.aabb'],
    'functions': ['mouette.splines.bezier.de_casteljau', 'mouette.splines.bezier.BezierPatch._evaluate_row', 'mouette.splines.bezier.BezierPatch.evaluate', 'mouette.geometry.aabb.AABB.is_empty'],
    'level': 'proof',
    'trusted_base': ['A1 CPython executes the parsed AST as pyvc models it', 'A2 floats are mathematical reals', 'A3 z3 (nlsat) is sound',
                     'convex hull = intersection of the half-spaces containing all control points (the contract is proved for an arbitrary half-space)',
                     'BezierPatch: evaluate / _evaluate_row are checked against the contract of de_casteljau (not its body); the control net is a list of non-empty rows of 3-D points'],
    'bounded': [
        {'name': 'all', 'function': 'sampling.sample_sphere/ball/AABB/polyline/surface, BezierCurve/BezierPatch evaluate and exports', 'engine': 'Br (native run-time contract)',
         'bound': '51 seeded cases: 4 centre/radius pairs (radius 1e-3..3, centres != 0) x array/point-cloud; 5 boxes of dimension 1-4 x uniform/grid; polyline with edge lengths 1:2:5; '
                  'surface with areas 2:6 (+ normals); Bernstein comparison for degrees 1,2,3,4,6; patches 2x2..4x4 incl. non-square nets; as_surface for n1 != n2; as_polyline'},
    ],
    'not_decided': ['samplers: whole-array numpy pipelines (vstack, broadcasting, in-place /=, meshgrid) are outside the modelled subset -> bounded stand-in only',
                    'statistical clause (shares follow length/area): bounded sanity ordering only',
                    'Bernstein equality for all degrees (binomial induction): bounded stand-in, degrees <= 6',
                    'as_surface / as_polyline index arithmetic: attribute creation inside the function keeps it outside the current mesh model -> bounded stand-in'],
    'math': [],
}
