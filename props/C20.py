UF = 'mouette.utils.unionfind.UnionFind'
PQ = 'mouette.utils.priority_queue.PriorityQueue'
PROP = {
    'id': 'C20',
    'specs': ['specs.unionfind', 'specs.priority_queue'],
    'functions': [UF + '.' + f for f in ('__init__', '__len__', '__contains__', '__getitem__', 'add', 'find', 'connected', 'union', 'roots', 'component')]
                 + [PQ + '.' + f for f in ('__init__', 'empty', 'push', 'get', 'pop', 'front')],
    'level': 'proof',
    'trusted_base': ['A1 CPython executes the parsed AST as pyvc models it (subset of DESIGN 2.3)',
                     'A3 z3 is sound',
                     'A5 dict iteration = some fixed enumeration of the keys',
                     'A8 heapq.heappush/heappop maintain a heap w.r.t. the items __lt__ (contract in pyvc/externals.py)',
                     'B1/B2 definition of the multiset of a list (axioms bag-nonneg, bag-member, heap-empty)',
                     'hash/== of elements are consistent (elements modelled as an uninterpreted sort with equality)',
                     'priorities are mathematical reals (A2): NaN excluded, +-inf as ordinary order elements'],
    'bounded': [
        {'name': 'uf-views', 'function': 'mouette.utils.unionfind.UnionFind.components / component_mapping', 'engine': 'Br (native run-time contract)',
         'bound': 'all add/union/find scripts of length <= 3 over 3 int elements and over 3 str elements (both with roots() queried first and last), '
                  '+ 3000 seeded random union scripts of length 3..7 over 6 elements; every observable answer compared with the abstract partition'},
        {'name': 'pq', 'function': 'mouette.utils.priority_queue.PriorityQueue (drain order, emptiness)', 'engine': 'Br (native run-time contract)',
         'bound': 'all push/get/pop/front scripts of length <= 4 over 2 elements x priorities {1.0, -2.5, +inf, -inf}', 'tier': 'thorough'},
    ],
    'not_decided': ['components() and component_mapping(): dict/list-of-lists bookkeeping not yet under contract -> bounded stand-in uf-views (NOT counted as proved)'],
    'math': [],
}
