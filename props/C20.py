UF = 'mouette.utils.unionfind.UnionFind'
PQ = 'mouette.utils.priority_queue.PriorityQueue'
PROP = {
    'id': 'C20',
    'specs': ['specs.unionfind', 'specs.priority_queue'],
    'functions': [UF + '.' + f for f in ('__init__', '__len__', '__contains__', '__getitem__', 'add', 'find', 'connected', 'union')]
                 + [PQ + '.' + f for f in ('__init__', 'empty', 'push', 'get', 'pop', 'front')],
    'level': 'proof',
    'trusted_base': ['A1 CPython executes the parsed AST as pyvc models it (subset of DESIGN 2.3)',
                     'A3 z3 is sound',
                     'A5 dict iteration = some fixed enumeration of the keys',
                     'A8 heapq.heappush/heappop maintain a heap w.r.t. the items __lt__ (contract in pyvc/externals.py)',
                     'B1/B2 definition of the multiset of a list (axioms bag-nonneg, bag-member, heap-empty)',
                     'hash/== of elements are consistent (elements modelled as an uninterpreted sort with equality)',
                     'priorities are mathematical reals (A2): NaN excluded, +-inf as ordinary order elements'],
    'bounded': [],
    'not_decided': [],
    'math': [],
}
