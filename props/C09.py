PROP = {
    'id': 'C09',
    'specs': ['specs.paths', 'specs.priority_queue'],
    'functions': ['mouette.processing.paths._check_weight_argument',
                  'mouette.utils.priority_queue.PriorityQueue.push', 'mouette.utils.priority_queue.PriorityQueue.get', 'mouette.utils.priority_queue.PriorityQueue.empty'],
    'level': 'other',
    'explanation': 'Deductive part: the priority queue the Dijkstra loops rely on (get hands out a pending item of minimum priority, push adds exactly one, emptiness) and the weight-mode '
                   'validation are proved for all inputs. The Dijkstra loops of shortest_path / shortest_path_to_vertex_set themselves (dict-of-dict graph construction, polymorphic '
                   'targets, closures) are not yet under contract: path validity and minimality are decided only by the bounded native contract below, which is not a proof.',
    'trusted_base': ['A1', 'A3', 'A8 heapq contract', 'B1/B2 multiset axioms'],
    'bounded': [
        {'name': 'all', 'function': 'paths.shortest_path, shortest_path_to_vertex_set (and through it shortest_path_to_border)', 'engine': 'Br (native run-time contract)',
         'bound': '6 meshes (2 polylines with chords/cycle, jittered 4x4, 3x5-quad and 6x6 grids, 6-tet cube) x weights one/length/custom (incl. zero weights) x 3 starts x '
                  '{int target, singleton list, set containing the start, list of 4} + 4 vertex sets: every returned path checked to start/end correctly, walk mesh edges, and have the '
                  'weight of an independent Dijkstra; set variant ends at a nearest member; + 120 seeded dense random graphs on 5-7 vertices with custom weights in {0.5,1,2,5,9} '
                  '(every start, 3 target sets of 2-3 members each): 400 graphs in the thorough tier'},
    ],
    'not_decided': ['clauses (a)-(d) for all meshes: bounded only'],
    'math': [],
}
