PROP = {
 "id": "C09",
 "specs": [
  "specs.paths",
  "specs.priority_queue"
 ],
 "functions": [
  "mouette.processing.paths._check_weight_argument",
  "mouette.utils.priority_queue.PriorityQueue.push",
  "mouette.utils.priority_queue.PriorityQueue.get",
  "mouette.utils.priority_queue.PriorityQueue.empty",
  "mouette.processing.paths.shortest_path#reconstruct"
 ],
 "level": "other",
 "explanation": "Deductive part: (1) the path reconstruction of shortest_path (region contract on the real statements that turn the predecessor table into vertex lists): for every predecessor table that is a tree towards the start, the list of every target begins at the start, ends at the target, each step goes from a vertex's predecessor to the vertex, and the reconstruction terminates; (2) the priority queue (push/get/empty against the multiset model) and the validation of the weight mode. Dijkstra's loop itself (that the predecessor table IS such a tree along mesh edges, and that the distances are minimal - the queue-order invariant) is not under contract: minimality and edge-validity are decided only by the bounded native contract, which is not a proof.",
 "trusted_base": [
  "A1",
  "A3",
  "A8 heapq contract",
  "B1/B2 multiset axioms",
  "path reconstruction region: the predecessor table is a tree towards the start (logical parameter depth strictly decreasing along predecessor links) and contains every target - precondition, established by the search loop which is not verified"
 ],
 "bounded": [
  {
   "name": "all",
   "function": "paths.shortest_path, shortest_path_to_vertex_set (and through it shortest_path_to_border)",
   "engine": "Br (native run-time contract)",
   "bound": "6 meshes (2 polylines with chords/cycle, jittered 4x4, 3x5-quad and 6x6 grids, 6-tet cube) x weights one/length/custom (incl. zero weights) x 3 starts x {int target, singleton list, set containing the start, list of 4} + 4 vertex sets: every returned path checked to start/end correctly, walk mesh edges, and have the weight of an independent Dijkstra; set variant ends at a nearest member; + 120 seeded dense random graphs on 5-7 vertices with custom weights in {0.5,1,2,5,9} (every start, 3 target sets of 2-3 members each): 400 graphs in the thorough tier"
  }
 ],
 "not_decided": [
  "clauses (a)-(d) for all meshes: bounded only"
 ],
 "math": []
}
