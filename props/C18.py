PROP = {
 "id": "C18",
 "specs": [
  "specs.aabb"
 ],
 "functions": [
  "mouette.utils.maths.principal_angle",
  "mouette.utils.maths.angle_diff"
 ],
 "level": "other",
 "explanation": "Deductive part: only the angle reduction used by the singularity computation (result in [-pi, pi]). The fields are numerical solutions (scipy eigen / linear solves) over connection Laplacians; unit modulus, constraints, singularity indices, harmonic extension and numbering independence are decided only within the stated bound by the native run-time contract with an independent dense rebuild. This is NOT a proof.",
 "trusted_base": [
  "A1 CPython executes the parsed AST as pyvc models it",
  "A2 floats are mathematical reals",
  "A3 z3 is sound"
 ],
 "bounded": [
  {
   "name": "all",
   "function": "framefield.SurfaceFrameField (faces, vertices), connection Laplacians",
   "engine": "Br (native run-time contract)",
   "timeout": 1800,
   "bound": "25 meshes (planar/curved bordered, closed up to genus 2) x elements x orders 1-6 x features x weights x n_smooth 0-3 x connections: 4256 clause checks (run, unit, constraint, singular, laplacian, harmonic, invariance)"
  }
 ],
 "not_decided": [
  "everything beyond the bound"
 ],
 "math": [
  "Poincare-Hopf"
 ]
}
