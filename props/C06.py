PROP = {
 "id": "C06",
 "specs": [
  "specs.transform"
 ],
 "functions": [
  "mouette.geometry.transform.translate",
  "mouette.geometry.transform.scale",
  "mouette.geometry.transform.scale_xyz"
 ],
 "level": "other",
 "explanation": "Deductive part (clause d, value level): translate, scale and scale_xyz move every vertex exactly once by exactly the requested map, for every mesh and every parameter (loop invariants over the vertex container). Absence of aliasing between meshes / caller arrays (clauses a-c, f) is a statement about array identity, which the value-level contracts do not model: decided only by the bounded native contract over every producer (not a proof). rotate (scipy Rotation), normalize (np.max over the box) are bounded only.",
 "trusted_base": [
  "A1 CPython executes the parsed AST as pyvc models it",
  "A2 floats are mathematical reals",
  "A3 z3 is sound",
  "DataContainer.__getitem__/__setitem__/__len__ and Mesh.id_vertices inlined from the real source"
 ],
 "bounded": [
  {
   "name": "all",
   "function": "mesh.copy, merge, from_arrays, transform.*, for meshes from every producer",
   "engine": "Br (native run-time contract)",
   "bound": "108 producers (every procedural generator, from_arrays variants, 8 loaders, 10 merge lists incl. A+A, copies, subdivisions, boundary extractions, exported paths/trees, samplers) x clauses structure / copy (4 option pairs) / 7 transforms with sources and parameters checked unchanged, inverse pairs, normalise boxes / edits in both directions + 60 shrunk random scripts: 901 cases"
  }
 ],
 "not_decided": [
  "clauses a, b, c, e, f beyond the bound; exact restoration in floats (A2)"
 ],
 "math": []
}
