PROP = {
 "id": "C16",
 "specs": [
  "specs.unionfind"
 ],
 "functions": [
  "mouette.utils.unionfind.UnionFind.find",
  "mouette.utils.unionfind.UnionFind.union",
  "mouette.utils.unionfind.UnionFind.connected"
 ],
 "level": "other",
 "explanation": "Deductive part: only the union-find the mesh rebuild glues corners with (connected <=> joined by unions). The cutter itself (shortest-path trees, dual Dijkstra, pruning, rebuild) is not yet under contract; all clauses are decided only by the bounded native contract (not a proof).",
 "trusted_base": [
  "A1 CPython executes the parsed AST as pyvc models it",
  "A3 z3 is sound",
  "A5"
 ],
 "bounded": [
  {
   "name": "all",
   "function": "cutting.SingularityCutter",
   "engine": "Br (native run-time contract)",
   "timeout": 1800,
   "bound": "31 meshes (disks, grids with holes, spheres, cylinder, tori up to genus 2 with borders, geometrically degenerate copies) x ~20 singularity sets x up to 8 feature options x containers: 3878 cases x clauses a-g computed from the raw lists"
  }
 ],
 "not_decided": [
  "everything beyond the bound; clause f is the tree-cotree theorem given the code-side hypotheses"
 ],
 "math": [
  "tree-cotree decomposition yields a disk"
 ]
}
