PROP = {
 "id": "C17",
 "specs": [
  "specs.tutte"
 ],
 "functions": [
  "mouette.processing.parametrization.tutte.TutteEmbedding._initialize_boundary",
  "mouette.processing.parametrization.tutte.TutteEmbedding._initialize_boundary#circle"
 ],
 "level": "other",
 "explanation": "Deductive part: for the square target and every border length n >= 4 the border parametrisation puts the four corners at the documented indices and every other border vertex strictly inside its side, strictly monotone along the border order - hence pairwise distinct positions on the convex target (clause a, square). Interior = weighted average (linear solve through scipy), circle positions (injectivity of cos/sin), orientation of all triangles (Tutte/Floater theorem) and the Euler-characteristic gate are decided only by the bounded native contract, which is not a proof. Circle target: every border vertex is placed on the unit circle (sin^2+cos^2=1); distinctness of the circle positions is bounded only.",
 "trusted_base": [
  "A1",
  "A2",
  "A3",
  "A7 np.zeros",
  "mesh.boundary_vertices is a list (C01)"
 ],
 "bounded": [
  {
   "name": "all",
   "function": "TutteEmbedding.run / flat_mesh (circle, square, custom; uniform and cotan weights; per-vertex and per-corner)",
   "engine": "Br (native run-time contract)",
   "bound": "314 disks (polygons, fans n=3..30, grids 2x5..6x7 regular/jittered with ears, Delaunay 6..45 points incl. non-convex outlines with chords, non-planar caps; relabelled / face-rotated / flipped variants) x 3 boundary modes x 2 weightings x 2 storages = 1472 clause checks: border on the target at distinct positions in loop order, interior = weighted average with independently computed weights, all triangles same strict orientation (when weights >= 0), corner == vertex outputs, 8 non-disks rejected"
  }
 ],
 "not_decided": [
  "clauses (b)-(e) and the circle case of (a) for all disks: bounded only",
  "clause (c) is Tutte/Floater's theorem given (a), (b): cited, not proved"
 ],
 "math": [
  "Tutte / Floater: a convex-combination map of a 3-connected disk onto a convex polygon with distinct border positions in order is an embedding"
 ]
}
