PROP = {
 "id": "C04",
 "specs": [],
 "functions": [],
 "level": "other",
 "explanation": "No deductive obligation: the codecs are string formatting / tokenising code over files (str.format, split, int(), float(), struct.pack), which the verification-condition generator does not model (DESIGN 2.3); the planned token-level grammar contracts were not built. The property is decided only within the stated bound by the native run-time contract with independent readers and writers. This is NOT a proof.",
 "trusted_base": [
  "independent minimal readers/writers of obj, off, medit, geogram_ascii, tet, xyz, binary stl written from the format definitions (replay/C04.py)"
 ],
 "bounded": [
  {
   "name": "all",
   "function": "mesh.save / mesh.load and every io/*.py codec",
   "engine": "Br (native run-time contract)",
   "bound": "29 fixed topologies (point clouds, polylines, tri/quad/mixed/polygon surfaces, tet and hex volumes) + 12 seeded random ones x coordinate sweeps (17 significant digits, 5e-324, +-DBL_MAX, -0.0, 50 decades) x 7 formats x export switches: 1649 cases of round trip (bit-exact coordinates, element order, absent kinds, class), independent reader, independent writer (2-3 layouts per format), geogram attributes (7 containers x 3 types x arity 1-3 x sparse/dense)"
  }
 ],
 "not_decided": [
  "everything beyond the bound"
 ],
 "math": []
}
