PROP = {
 "id": "C03",
 "specs": [
  "specs.geometry"
 ],
 "functions": [
  "mouette.geometry.geometry.cross",
  "mouette.geometry.geometry.dot"
 ],
 "level": "other",
 "explanation": "Deductive part: only the vector primitives the orientation test is built from (exact cross / dot). The cell/face incidence tables, rotational sorting around edges, border classification and the boundary-surface extraction (dicts of lists built in nested loops over keyify keys) are not yet under contract; all clauses are decided only by the bounded native contract (not a proof).",
 "trusted_base": [
  "A1 CPython executes the parsed AST as pyvc models it",
  "A2 floats are mathematical reals",
  "A3 z3 is sound"
 ],
 "bounded": [
  {
   "name": "all",
   "function": "VolumeMesh connectivity, border lists, enable_boundary_connectivity, extract_boundary_of_volume",
   "engine": "Br (native run-time contract)",
   "bound": "19 conforming tet meshes (single tet ... Kuhn 3x3x3 minus centre, fans around an edge closed/open, Delaunay) x orientations, all 24 vertex orders of cell 0, scalings, renumberings, list rows, pre-filled faces/edges: 500 cases, ~311k queries in shuffled order, each query kind also issued first on a fresh mesh and after clear(), sorting on and off"
  }
 ],
 "not_decided": [
  "all clauses beyond the bound; \"positively oriented\" is taken in the library's own sense det(pA-pD,pB-pD,pC-pD) > 0"
 ],
 "math": [
  "the border of a conforming tet mesh is closed (boundary of a boundary is empty)"
 ]
}
