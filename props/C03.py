PROP = {
 "id": "C03",
 "specs": [
  "specs.geometry",
  "specs.volume"
 ],
 "functions": [
  "mouette.geometry.geometry.cross",
  "mouette.geometry.geometry.dot",
  "mouette.mesh.datatypes.volume.VolumeMesh._Connectivity._compute_adjacent_cell",
  "mouette.mesh.mesh_data.RawMeshData._generate_cell_faces"
 ],
 "level": "other",
 "explanation": "Deductive part: (1) the cell-to-cell table of a tetrahedral mesh (_compute_adjacent_cell): for every mesh, entry (c, i) is looked up through the face that does not contain the i-th vertex of cell c (the i-th face of a cell is the one opposite its i-th vertex), holds the other cell incident to that face when there is one and has no entry (NOT_AN_ID default) otherwise - verified against the contracts of face_id and face_to_cells, which are named by uninterpreted functions; (2) the cell-to-face records of the raw data (_generate_cell_faces, tetrahedra): four records per cell in cell order, record 4c+i owned by c and naming the face opposite the i-th vertex of c, given that faces were completed from cells and a shared face is stored once; (3) the vector primitives the orientation test is built from (exact cross / dot). The face/cell incidence tables themselves, rotational sorting around edges, border classification and the boundary-surface extraction (dicts of lists and sets built in nested loops over keyify keys) are not under contract; those clauses are decided only by the bounded native contract (not a proof).",
 "trusted_base": [
  "A1 CPython executes the parsed AST as pyvc models it",
  "A2 floats are mathematical reals",
  "A3 z3 is sound",
  "C01 contract of face_id (the face spanned by three vertices exists in a conforming mesh), contract of face_to_cells (named by f2c_len / f2c_at)",
  "conforming mesh: a face has at most one incident cell other than a given one (precondition, through the Skolem function other_cell)",
  "A-attr: a fresh sparse attribute has no written entry; has_attribute / create_attribute look the name up in the attribute table",
  "every cell is a tetrahedron (precondition: rows of length 4)",
  "_generate_cell_faces: all cells are tetrahedra, the tables are empty on entry, every face of every cell is in the face list exactly once (preconditions: established by _complete_faces_from_cells, which is not under contract)"
 ],
 "bounded": [
  {
   "name": "all",
   "function": "VolumeMesh connectivity, border lists, enable_boundary_connectivity, extract_boundary_of_volume",
   "engine": "Br (native run-time contract)",
   "bound": "19 conforming tet meshes (single tet ... Kuhn 3x3x3 minus centre, fans around an edge closed/open, Delaunay) x orientations, all 24 vertex orders of cell 0, scalings, renumberings, list rows, pre-filled faces/edges: 500 cases, ~311k queries in shuffled order, each query kind also issued first on a fresh mesh and after clear(), sorting on and off"
  }
 ],
 "not_decided": [
  "all clauses beyond the bound; \"positively oriented\" is taken in the library's own sense det(pA-pD,pB-pD,pC-pD) > 0"
 ],
 "math": [
  "the border of a conforming tet mesh is closed (boundary of a boundary is empty)"
 ]
}
