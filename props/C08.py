PROP = {
 "id": "C08",
 "specs": [
  "specs.operators"
 ],
 "functions": [
  "mouette.operators.adjacency.adjacency_matrix#one",
  "mouette.operators.adjacency.adjacency_matrix#length",
  "mouette.operators.adjacency.adjacency_matrix#custom",
  "mouette.operators.adjacency.vertex_to_edge_operator",
  "mouette.operators.adjacency.vertex_to_face_operator",
  "mouette.operators.laplacian_op.graph_laplacian"
 ],
 "level": "other",
 "explanation": "Under machine-checked contract: the Python loops that decide WHICH entries the combinatorial operators have - adjacency_matrix (three weightings: entry 2e is (a_e,b_e,w_e), entry 2e+1 is (b_e,a_e,w_e), nothing else), vertex_to_edge_operator (coefficient 1 at the arrival, -1/1 at the origin, no entry that is not an (extremity, edge) pair), vertex_to_face_operator (1/len(f) at every (vertex of f, f), nothing else), graph_laplacian (for every vertex: the degree on the diagonal followed by -1 for each neighbour, i.e. degree minus adjacency at the level of the triplets). scipy is NOT verified: coo_matrix / csc_matrix((data,(rows,cols))) and lil_matrix are trusted constructors recording the triplets / the entry map (assumption A-scipy). The cotangent Laplacian, gradient, mass matrices and the dual / volume Laplacians (numpy attribute arrays, cotangents, complex bases) are decided only within the stated bound by the native run-time contract with an independent numpy assembly; that part is NOT a proof.",
 "trusted_base": [
  "A1 CPython executes the parsed AST as pyvc models it",
  "A3 z3 is sound",
  "A-scipy: sp.coo_matrix / sp.csc_matrix((data,(rows,cols)),shape) denote the sum of the given triplets; sp.lil_matrix item assignment overwrites exactly one entry and tocsc() keeps the entries (index-out-of-shape errors not modelled)",
  "C01 contract of connectivity.vertex_to_vertices (answer named by the uninterpreted nbr_len / nbr_at)",
  "graph_laplacian: the prefix sums pre[] of (1 + degree) are a logical parameter; their monotonicity (a consequence of the recurrence by induction) and the handshake identity pre[n] == 2|E|+|V| are preconditions, not proved",
  "decorators @forbidden_mesh_types / @allowed_mesh_types (argument type check) are not modelled",
  "independent dense assembly from hat-function gradients (replay/C08.py) for the bounded part"
 ],
 "bounded": [
  {
   "name": "all",
   "function": "operators.laplacian*, gradient, *weight_matrix*, graph_laplacian, adjacency_matrix, vertex_to_edge/face_operator, volume_laplacian, laplacian_tetrahedra",
   "engine": "Br (native run-time contract)",
   "bound": "17 fixed surfaces (obtuse pairs, fans with negative cotangents, right-angle grids, annulus, closed tetra/octa/torus, quad and mixed meshes) + jittered grids per seed, 8 tet meshes, 5 polylines x every option x 3 preludes (fresh / after every operator was called / cached angles): 1023 cases"
  }
 ],
 "not_decided": [
  "cotangent / dual / volume Laplacians, gradient, mass matrices beyond the bound",
  "the numerical meaning of duplicate COO entries (none are produced for simple graphs: not proved)"
 ],
 "math": []
}
