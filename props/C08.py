PROP = {
 "id": "C08",
 "specs": [],
 "functions": [],
 "level": "other",
 "explanation": "No deductive obligation yet: the operators are assembled through scipy sparse matrices (COO triplets, LIL item assignment) over attribute objects, which the verification-condition generator does not model; the planned ghost-assembly contracts were not built. Decided only within the stated bound by the native run-time contract with an independent numpy assembly. This is NOT a proof.",
 "trusted_base": [
  "independent dense assembly from hat-function gradients (replay/C08.py)"
 ],
 "bounded": [
  {
   "name": "all",
   "function": "operators.laplacian*, gradient, *weight_matrix*, graph_laplacian, adjacency_matrix, vertex_to_edge/face_operator, volume_laplacian, laplacian_tetrahedra",
   "engine": "Br (native run-time contract)",
   "bound": "17 fixed surfaces (obtuse pairs, fans with negative cotangents, right-angle grids, annulus, closed tetra/octa/torus, quad and mixed meshes) + jittered grids per seed, 8 tet meshes, 5 polylines x every option x 3 preludes (fresh / after every operator was called / cached angles): 1023 cases"
  }
 ],
 "not_decided": [
  "everything beyond the bound"
 ],
 "math": []
}
