G = 'mouette.geometry.geometry.'
A = 'mouette.geometry.aabb.AABB.'
PROP = {
    'id': 'C12',
    'specs': ['specs.geometry', 'specs.aabb'],
    'functions': [G + f for f in ('sign0', 'sign', 'dot', 'cross', 'det_2x2', 'norm', 'distance', 'angle_3pts', 'angle_2vec3D',
                                  'signed_angle_2vec3D', 'intersect_2lines2D', 'project_to_plane')]
                 + ['mouette.geometry.vector.Vec.normalized']
                 + [A + f for f in ('__init__', 'contains_point', 'project', 'distance', 'intersection', 'do_intersect', 'union', 'is_empty', 'pad')]
                 + ['mouette.geometry.rotations.rotate_2d', 'mouette.utils.maths.principal_angle', 'mouette.utils.maths.angle_diff'],
    'level': 'proof',
    'trusted_base': ['A1 CPython executes the parsed AST as pyvc models it',
                     'A2 floats are mathematical reals (no rounding / overflow / NaN); tolerance constants are exact rationals',
                     'A3 z3 (nlsat) is sound',
                     'A7 numpy facade: elementwise + - * / comparisons, minimum/maximum, dot, sum, abs, max/min, full/zeros/ones, all/any, seterr/errstate as a process-global record; arrays of statically known length 3 (boxes proved at dimension 3)',
                     'A10 sqrt(x)>=0 and sqrt(x)^2==x for x>=0; atan2 range/sign axioms; sin^2+cos^2=1; 3.14159<pi<3.1416'],
    'bounded': [
        {'name': 'box-laws', 'function': 'mouette.geometry.aabb.AABB (all laws, dimensions 1-3)', 'engine': 'Br (native run-time contract)',
         'bound': 'all boxes with integer corners in {0,1,2}^d, d=1,2,3, x all query points on the half-integer lattice [-0.5,3]^d; all pairs of boxes: '
                  'projection/clamp/distance in l1,l2,linf, containment, union, intersection, do_intersect (touching and degenerate boxes included)'},
        {'name': 'side-effects', 'function': 'geometry.*, rotations.*, AABB.* (argument arrays and numpy error state)', 'engine': 'Br (native run-time contract)',
         'bound': '26 call shapes incl. raising calls (zero vector, wrong dimension): argument arrays compared before/after, np.geterr() compared before/after'},
        {'name': 'primitives', 'function': 'geometry.cotan, circumcenter, det_3x3, signed angles, rotations.rotate_around_axis, maths.roots/principal_angle/angle_diff',
         'engine': 'Br (native run-time contract)', 'bound': '4000 seeded inputs mixing 0, +-1 and uniform reals; identities checked to 1e-9 relative'},
    ],
    'not_decided': ['cotan, circumcenter, rotate_around_axis (isometry, axis fixed, additive composition), det_3x3 via *args, n-th roots: polynomial identities through several '
                    'normalisations (degree >= 6 with sqrt terms) - z3 nlsat undecided within budget; covered by the bounded stand-in `primitives` only',
                    'congruence modulo 2*pi of principal_angle / angle_diff (nonlinear in pi*k): range [-pi,pi] is proved, congruence is bounded only',
                    'clause (c) "no function changes its argument arrays": value-level contracts do not model array identity; proved only for numpy error state '
                    '(Vec.normalized); array aliasing is checked by the bounded stand-in `side-effects`',
                    'boxes proved at dimension 3 only (code is dimension-generic); inverted boxes (mini > maxi) excluded by requires valid_box',
                    'signed angle antisymmetry on the degenerate set S.N == 0 (sign0 convention)'],
    'math': ['norm monotonicity: the componentwise clamp realises the point-box distance in l1, l2 and linf (the contract proves projection == clamp and distance == norm of the gap vector)'],
}
