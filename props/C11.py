PQ = 'mouette.utils.priority_queue.PriorityQueue.'
PROP = {
    'id': 'C11',
    'specs': ['specs.aabb', 'specs.priority_queue'],
    'functions': ['mouette.geometry.aabb.AABB.distance', 'mouette.geometry.geometry.distance', PQ + 'push', PQ + 'pop', PQ + 'front', PQ + 'empty'],
    'level': 'other',
    'explanation': 'Deductive part: the two ingredients the queries are sound by - the box distance never exceeds the distance to any point of the box (pruning soundness, '
                   'proved for every point of the box, dimension 3, l2) and the bounded max-heap of candidates (priority queue contracts). The tree construction and query '
                   'loops themselves use numpy fancy indexing (np.extract, boolean masks, median, random choice) and nested dataclasses, outside the modelled subset: termination, '
                   'exact partition into leaves and exactness of kNN / radius answers are decided only by the bounded native contract, which is not a proof.',
    'trusted_base': ['A1', 'A2', 'A3', 'A7', 'A8', 'A10 sqrt'],
    'bounded': [
        {'name': 'all', 'function': 'spatial.KDTree.__init__, query, query_radius', 'engine': 'Br (native run-time contract)',
         'bound': '11 point sets (integer lattices 2-D/3-D, random 2-D/3-D, 1-D line, collinear, 30 identical points, heavy duplicates, mostly-at-maximum, 2 points, two tight clusters) '
                  'x leaf sizes {1,2,5,10} x strategies balanced/fast/random (seeded) = 132 builds with an 8 s alarm; each: every point in exactly one leaf, 9 query points x '
                  'k in {1,2,3,5,n,n+3} compared with brute-force sorted distances, 5 radii incl. 0 and exact lattice ties compared with brute force'},
    ],
    'not_decided': ['clauses (a)-(d) for all inputs: bounded only'],
    'math': [],
}
