#!/bin/bash
# run the property's check against every seeded change (one at a time, /repo restored after each)
cd /verif
: > /tmp/run_seeds.log
for d in $(ls /verif/seeded | grep -E '^C[0-9]+-'); do
  case "$1" in "") ;; *) echo "$d" | grep -qE "$1" || continue ;; esac
  out=$(/verif/tools/try_seed.sh $d 2>&1 | tr '\n' ' ' | cut -c1-400)
  echo "$out" >> /tmp/run_seeds.log
done
echo DONE >> /tmp/run_seeds.log
