#!/bin/bash
# run every check on the current tree (quick tier), summary in /tmp/run_all.log
cd /verif
: > /tmp/run_all.log
for p in 01 02 03 04 05 06 07 08 09 10 11 12 13 14 15 16 17 18 19 20; do
  ./check C$p > /tmp/clean_C$p.log 2>&1; rc=$?
  echo "C$p exit=$rc $(tail -1 /tmp/clean_C$p.log | cut -c1-140)" >> /tmp/run_all.log
done
echo DONE >> /tmp/run_all.log
