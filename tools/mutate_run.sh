#!/bin/bash
# usage: mutate_run.sh <file rel to repo> <python-regex-sub 'old' 'new'> <spec module> <qual>...   (engine self-test on a scratch copy)
set -e
F=$1; OLD=$2; NEW=$3; SPEC=$4; shift 4
D=$(mktemp -d /tmp/mut.XXXXXX)
mkdir -p $D && cp -r /repo/mouette $D/mouette
python3-vt - "$D/$F" "$OLD" "$NEW" <<'PY'
import sys
p,old,new=sys.argv[1:4]
s=open(p).read()
assert s.count(old)>=1, 'pattern not found'
s=s.replace(old,new,1)
open(p,'w').write(s)
PY
cd /verif && PYVC_REPO=$D timeout 900 python3-vt -m pyvc.run1 $SPEC "$@" 2>&1 | grep -E "^==|<<<" 
rm -rf $D
