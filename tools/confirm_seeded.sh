#!/bin/bash
# confirm a seeded change: own scratch worktree, apply patch, run suite + demo, restore, remove worktree.
# usage: confirm_seeded.sh <seeded dir name> ; writes <dir>/confirm.json
set -u
S=/verif/seeded/$1
W=$(mktemp -d /tmp/confirm.XXXXXX)
git -C /repo worktree add -q --detach $W HEAD
cd $W; mkdir -p $W/_seeded/x; cp $S/demo.py $W/_seeded/x/demo.py; DEMO=$W/_seeded/x/demo.py
base_demo=$(PYTHONPATH=$W /venv/bin/python $DEMO >/dev/null 2>&1; echo $?)
git apply $S/patch.diff; ap=$?
PYTHONPATH=$W /venv/bin/python -m pytest -q -p no:cacheprovider --timeout=900 tests > $W/_t.log 2>&1
passed=$(grep -oE '[0-9]+ passed' $W/_t.log | tail -1 | grep -oE '[0-9]+')
mut_demo=$(PYTHONPATH=$W timeout 600 /venv/bin/python $DEMO >/dev/null 2>&1; echo $?)
cd /
git -C /repo worktree remove --force $W
rm -rf $W
echo "{\"applied\": $ap, \"tests_passed_with_patch\": ${passed:-0}, \"demo_exit_unchanged\": $base_demo, \"demo_exit_with_patch\": $mut_demo}" > $S/confirm.json
cat $S/confirm.json
