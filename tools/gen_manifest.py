#!/usr/bin/env python3
"""regenerate MANIFEST.json from props/*.py (claimed) and props/NOT_APPLICABLE.json"""
import json, os, sys, importlib
ROOT = os.path.dirname(os.path.dirname(os.path.abspath(__file__)))
sys.path.insert(0, ROOT)
ids = [json.loads(l)['id'] for l in open(os.path.join(ROOT, 'properties.jsonl'))]
na = json.load(open(os.path.join(ROOT, 'props', 'NOT_APPLICABLE.json')))
checks = []
not_app = []
for pid in ids:
    if os.path.exists(os.path.join(ROOT, 'props', pid + '.py')) and pid not in na:
        P = importlib.import_module('props.' + pid).PROP
        checks.append({
            'property_id': pid,
            'quick_cmd': './check %s --tier quick' % pid,
            'thorough_cmd': './check %s --tier thorough' % pid,
            'evidence_file': '/verif/evidence/%s.json' % pid,
            'replay_cmd_template': './check %s --replay {path}' % pid,
            'engine': 'pyvc',
            'level_claimed': {'category': P.get('level', 'proof'), 'text': P.get('level_text', ''), 'design_ref': 'DESIGN.md section 2, row ' + pid + ' (plan: appendix P section 6 ' + pid + ')'},
            'level_note': P.get('level_note', '; '.join(P.get('trusted_base', []))),
            'technique': P.get('technique', 'contract-based deductive verification: VCs generated from the real AST + sidecar contracts (pyvc), discharged by z3; counter-models replayed on the real code'),
        })
    else:
        not_app.append({'property_id': pid, 'reason': na.get(pid, 'check not built yet in this session (work in progress, see DESIGN.md section 9)')})
M = {
    'version': 1,
    'setup_cmd': 'python3-vt -c "import z3; print(z3.get_version_string())" && /venv/bin/python -c "import numpy"',
    'hooks': {'guard': 'MOUETTE_VERIF', 'enable': 'no source hooks: contracts are sidecar files under /verif/specs; /repo is parsed, never patched',
              'baseline_off_cmd': 'cd /repo && /venv/bin/python -m pytest -ra -q -p no:cacheprovider --timeout=900 --continue-on-collection-errors',
              'source_commits': [], 'add_only': True},
    'engines': [{'name': 'pyvc', 'path': '/verif/pyvc', 'serves_properties': [c['property_id'] for c in checks],
                 'kind_free_text': 'home-built verification-condition generator: Python ast of /repo/mouette + sidecar contracts -> z3 (5.1) obligations per function; finite-scope counter-model search; native replay under /venv/bin/python'}],
    'checks': checks,
    'not_applicable': not_app,
    'notes': 'see DESIGN.md; exit codes: 0 held, 1 violation, 2 undecided, 3 internal error',
}
json.dump(M, open(os.path.join(ROOT, 'MANIFEST.json'), 'w'), indent=1)
print('claimed:', [c['property_id'] for c in checks])
