#!/bin/bash
# usage: try_seed.sh <seed dir name> [Cxx] : apply to /repo, run ./check, restore /repo
S=/verif/seeded/$1
P=${2:-${1%%-*}}
cd /repo && git apply $S/patch.diff || exit 9
cd /verif && ./check $P --tier quick > /tmp/try_$1.log 2>&1; rc=$?
cd /repo && git checkout -- . 
echo "$1 -> exit $rc"; grep -E "^VIOLATION|^UNDECIDED|^KNOWN" /tmp/try_$1.log | head -5; tail -1 /tmp/try_$1.log
