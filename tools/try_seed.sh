#!/bin/bash
# usage: try_seed.sh <seed dir name> [Cxx] : apply to /repo, run ./check, restore /repo (evidence file preserved)
S=/verif/seeded/$1
P=${2:-${1%%-*}}
cp /verif/evidence/$P.json /tmp/evidence_$P.bak 2>/dev/null
cd /repo && git apply $S/patch.diff || exit 9
cd /verif && ./check $P --tier quick > /tmp/try_$1.log 2>&1; rc=$?
cd /repo && git checkout -- . 
cp /tmp/evidence_$P.bak /verif/evidence/$P.json 2>/dev/null
echo "$1 -> exit $rc"; grep -E "^VIOLATION|^UNDECIDED|^KNOWN" /tmp/try_$1.log | head -5; tail -1 /tmp/try_$1.log
