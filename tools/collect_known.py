#!/usr/bin/env python3
"""run a native oracle repeatedly, adding each failing case to `known`, until the family passes; prints the cases"""
import sys, json, subprocess, os
pid = sys.argv[1]
tier = sys.argv[2] if len(sys.argv) > 2 else 'quick'
known = []
env = dict(os.environ, PYTHONPATH='/repo:/verif', PYTHONWARNINGS='ignore', NUMBA_DISABLE_JIT='1')
for it in range(60):
    p = subprocess.run(['/venv/bin/python', '/verif/replay/%s.py' % pid], input=json.dumps({'mode': 'bounded', 'name': 'all', 'tier': tier, 'seed': 0, 'known': known}),
                       capture_output=True, text=True, env=env, cwd='/verif', timeout=1800)
    line = [l for l in p.stdout.strip().splitlines() if l.startswith('{')]
    if not line:
        print('NO OUTPUT', p.stderr[-2000:]); break
    d = json.loads(line[-1])
    if not d.get('failing'):
        print('PASS with %d known, cases=%s' % (len(known), d.get('cases'))); break
    known.append(d['failing'])
    print('FAIL', json.dumps(d['failing'])[:600])
json.dump(known, open('/tmp/known_%s.json' % pid, 'w'), indent=1)
