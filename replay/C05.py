"""C05 native oracle: attributes as total maps with defaults; sparse and dense storage agree.
Scripts of create/set/get/in-place update/append/extend/clear/as_array over both storages and all value types."""
import itertools, random
import numpy as np
from replay.common import *
from mouette.mesh.data_container import DataContainer, CornerDataContainer
from mouette.mesh.mesh_attributes import Attribute, ArrayAttribute

TYPES = {
    'bool': (bool, [True, False], False),
    'int': (int, [3, -2, 0], 0),
    'float': (float, [1.5, -0.25, 0.0], 0.0),
    'complex': (complex, [1 + 2j, -1j], 0j),
    'str': (str, ['a', 'bc'], ''),
}
CAST_OK = {('bool', 'bool'), ('int', 'int'), ('float', 'float'), ('complex', 'complex'), ('str', 'str'),
           ('bool', 'int'), ('bool', 'float'), ('int', 'float')}


def val_eq(a, b):
    a, b = np.asarray(a), np.asarray(b)
    return a.shape == b.shape and bool(np.all(a == b))


def run_script(tname, k, dflt, script):
    """run the same script on a sparse and a dense attribute of a container; compare with the model (a dict)"""
    typ, vals, zero = TYPES[tname]
    res = {}
    for dense in (False, True):
        c = DataContainer(list(range(3)))
        kw = {} if dflt is None else {'default_value': dflt}
        a = c.create_attribute('x', typ, k, dense=dense, **kw)
        d0 = zero if dflt is None else dflt
        model = {}
        size = 3
        obs = []
        for op in script:
            try:
                if op[0] == 'set':
                    i, vt, v = op[1], op[2], op[3]
                    val = v if k == 1 else [v] * k
                    ok = (vt, tname) in CAST_OK and (k == 1 or True)
                    try:
                        a[i] = val
                        done = True
                    except Exception as e:
                        done = False
                        en = type(e).__name__
                    inb = 0 <= i < size
                    if done:
                        if not ok:
                            return '%s: set %r (%s) into %s attribute accepted' % ('dense' if dense else 'sparse', v, vt, tname)
                        if dense and not inb:
                            return 'dense: set at index %d (size %d) accepted' % (i, size)
                        if inb:
                            model[i] = val
                        else:
                            a._data.pop(i, None)   # sparse write outside the container: not part of the property, undone
                    else:
                        if ok and (inb or not dense):
                            return '%s: set %r (%s) at %d rejected with %s' % ('dense' if dense else 'sparse', v, vt, i, en)
                        if dense and not inb and en != 'OutOfBoundsError' and ok:
                            return 'dense: index %d outside [0,%d) reported as %s, not OutOfBoundsError' % (i, size, en)
                    if inb:
                        obs.append(('set', done))      # same accept/reject of *values*; out-of-container indices are the dense bound check's business
                elif op[0] == 'badsize':
                    try:
                        a[op[1]] = [vals[0]] * (k + 1)
                        return '%s: value of %d elements accepted by an attribute of arity %d' % ('dense' if dense else 'sparse', k + 1, k)
                    except Exception as e:
                        if k > 1 and type(e).__name__ not in ('InvalidSizeError',) and not (dense and not 0 <= op[1] < size):
                            return 'wrong arity reported as %s' % type(e).__name__
                elif op[0] == 'get':
                    i = op[1]
                    if dense and not (0 <= i < size):
                        try:
                            a[i]
                            return 'dense: read at index %d (size %d) accepted' % (i, size)
                        except Exception as e:
                            if type(e).__name__ != 'OutOfBoundsError':
                                return 'dense: read at index %d (size %d) raised %s, not OutOfBoundsError' % (i, size, type(e).__name__)
                        continue
                    got = a[i]
                    exp = model.get(i, d0 if k == 1 else [d0] * k)
                    if not val_eq(got, exp):
                        return '%s: entry %d reads %r, expected %r' % ('dense' if dense else 'sparse', i, got, exp)
                elif op[0] == 'mutate_read':
                    # changing a value obtained by a read never changes what another entry reads
                    if k == 1:
                        continue
                    i, j = op[1], op[2]
                    if i == j or not (0 <= i < size and 0 <= j < size):
                        continue
                    before = np.array(a[j], copy=True)
                    r = a[i]
                    try:
                        r[0] = vals[0]
                    except Exception:
                        continue
                    if not val_eq(a[j], before):
                        return '%s: mutating the value read at %d changed entry %d: %r -> %r' % ('dense' if dense else 'sparse', i, j, before, a[j])
                    # resynchronise the model with what is stored now
                    if dense or i in model:
                        model[i] = list(np.asarray(a[i]).tolist())
                elif op[0] == 'alias':
                    # the same caller array written to two entries, then one entry updated in place through a read
                    if k == 1 or tname not in ('int', 'float'):
                        continue
                    i, j = op[1], op[2]
                    if i == j or not (0 <= i < size and 0 <= j < size):
                        continue
                    src = np.array([vals[0]] * k)
                    keep = src.copy()
                    a[i] = src
                    a[j] = src
                    r = a[i]
                    r[0] = vals[1]
                    if not val_eq(a[j], keep):
                        return '%s: two entries written from one array share storage: updating entry %d changed entry %d to %r' % ('dense' if dense else 'sparse', i, j, a[j])
                    if not val_eq(src, keep):
                        return "%s: the caller's array was modified through the attribute: %r -> %r" % ('dense' if dense else 'sparse', keep, src)
                    model[i] = list(np.asarray(a[i]).tolist()); model[j] = list(keep.tolist())
                elif op[0] == 'append':
                    c.append(99); size += 1
                elif op[0] == 'extend':
                    c += [7, 8]; size += 2
                elif op[0] == 'extend_container':
                    c += DataContainer([5, 6, 7]); size += 3
                elif op[0] == 'clear_attr':
                    a.clear(); model = {}
                elif op[0] == 'as_array':
                    arr = np.asarray(a.as_array(size))
                    if arr.shape[0] != size:
                        return '%s: as_array has %d rows for a container of %d' % ('dense' if dense else 'sparse', arr.shape[0], size)
                    for i in range(size):
                        exp = model.get(i, d0 if k == 1 else [d0] * k)
                        if not val_eq(arr[i], exp):
                            return '%s: as_array[%d] = %r, expected %r' % ('dense' if dense else 'sparse', i, arr[i], exp)
                if dense and len(a) != size:
                    return 'dense attribute has %d entries for a container of %d (not aligned)' % (len(a), size)
            except Exception as e:
                return '%s: %s raised %s: %s' % ('dense' if dense else 'sparse', op, type(e).__name__, e)
        res[dense] = obs
    if res[False] != res[True]:
        return 'sparse and dense storage accept/reject differently: %r vs %r' % (res[False], res[True])
    return None


def scripts(tname, seed, count):
    rnd = random.Random(seed)
    typ, vals, zero = TYPES[tname]
    allv = [(t, v) for t, (_, vs, _) in TYPES.items() for v in vs[:1]]
    base = [
        [('get', 0), ('set', 1, tname, vals[0]), ('get', 1), ('get', 2), ('as_array',)],
        [('set', 0, tname, vals[0]), ('append',), ('get', 3), ('as_array',)],
        [('extend',), ('get', 4), ('set', 4, tname, vals[1]), ('get', 4), ('get', 3), ('as_array',)],
        [('extend_container',), ('get', 5), ('as_array',)],
        [('get', 3), ('set', 3, tname, vals[0]), ('get', -1)],
        [('mutate_read', 0, 1), ('get', 1), ('get', 2)],
        [('set', 0, tname, vals[0]), ('mutate_read', 0, 1), ('mutate_read', 2, 1), ('get', 1)],
        [('set', 2, tname, vals[1]), ('clear_attr',), ('get', 2), ('as_array',)],
        [('badsize', 0)],
        [('alias', 0, 1), ('get', 1), ('get', 0)],
        [('set', 1, tname, vals[0]), ('alias', 2, 1), ('get', 1)],
    ] + [[('set', 0, t, v), ('get', 0)] for t, v in allv]
    for s in base:
        yield s
    ops = lambda: rnd.choice([('get', rnd.randint(-1, 6)), ('set', rnd.randint(0, 5), tname, rnd.choice(vals)), ('append',), ('extend',),
                              ('as_array',), ('mutate_read', rnd.randint(0, 3), rnd.randint(0, 3)), ('clear_attr',), ('extend_container',)])
    for _ in range(count):
        yield [ops() for _ in range(rnd.randint(2, 6))]


def main():
    req = read_request()
    if req['mode'] == 'replay':
        c = req.get('case') or {}
        err = run_script(c['type'], c['arity'], c.get('default'), [tuple(o) for o in c['script']])
        respond(failing=c if err else None, cases=1, error_message=err)
    seed = int(req.get('seed', 0) or 0)
    n = 0
    count = 150 if req.get('tier') == 'thorough' else 40
    for tname in TYPES:
        typ, vals, zero = TYPES[tname]
        for k in (1, 3):
            for dflt in (None, vals[0]):
                if k > 1 and dflt is not None:
                    continue
                for s in scripts(tname, seed, count):
                    n += 1
                    err = run_script(tname, k, dflt, s)
                    if err:
                        respond(failing={'type': tname, 'arity': k, 'default': dflt if not isinstance(dflt, complex) else str(dflt), 'script': s, 'error': err}, cases=n)
    respond(failing=None, cases=n)


main()
