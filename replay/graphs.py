"""small mesh families shared by the graph-algorithm oracles (C09, C10, C15, C16)"""
import random
import numpy as np
import mouette as M


def grid(nu, nv, tri=True, jitter=0.0, seed=0):
    rnd = np.random.RandomState(seed)
    raw = M.mesh.RawMeshData()
    for i in range(nu):
        for j in range(nv):
            raw.vertices.append(M.Vec(i + jitter * rnd.randn(), j + jitter * rnd.randn(), jitter * rnd.randn()))
    for i in range(nu - 1):
        for j in range(nv - 1):
            a, b, c, d = i * nv + j, i * nv + j + 1, (i + 1) * nv + j + 1, (i + 1) * nv + j
            if tri:
                if (i + j) % 2 == 0:
                    raw.faces += [(a, b, c), (a, c, d)]
                else:
                    raw.faces += [(a, b, d), (b, c, d)]
            else:
                raw.faces.append((a, b, c, d))
    return M.mesh.SurfaceMesh(raw)


def polyline(pts, edges):
    raw = M.mesh.RawMeshData()
    raw.vertices += [M.Vec(*p) for p in pts]
    raw.edges += [tuple(e) for e in edges]
    return M.mesh.PolyLine(raw)


def tetgrid(n=2):
    """n x n x n Kuhn subdivision (6 tets per cube)"""
    raw = M.mesh.RawMeshData()
    idx = lambda i, j, k: (i * (n + 1) + j) * (n + 1) + k
    for i in range(n + 1):
        for j in range(n + 1):
            for k in range(n + 1):
                raw.vertices.append(M.Vec(float(i), float(j), float(k)))
    import itertools
    for i in range(n):
        for j in range(n):
            for k in range(n):
                for perm in itertools.permutations(range(3)):
                    p = [i, j, k]
                    verts = [idx(*p)]
                    for ax in perm:
                        p = list(p); p[ax] += 1
                        verts.append(idx(*p))
                    raw.cells.append(tuple(verts))
    return M.mesh.VolumeMesh(raw)


def dijkstra(nV, wedges, start):
    import heapq
    adj = {v: [] for v in range(nV)}
    for (a, b), w in wedges.items():
        adj[a].append((b, w)); adj[b].append((a, w))
    dist = {v: float('inf') for v in range(nV)}
    dist[start] = 0.0
    h = [(0.0, start)]
    while h:
        d, v = heapq.heappop(h)
        if d > dist[v]:
            continue
        for u, w in adj[v]:
            if d + w < dist[u]:
                dist[u] = d + w
                heapq.heappush(h, (d + w, u))
    return dist
