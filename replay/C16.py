"""C16 native oracle: SingularityCutter -- cutting along singularities yields a disk with faces in bijection.

Clauses checked on every case (all computed from the raw face / vertex / edge lists, never through the cutter or
the connectivity of the output mesh):
  (a) the cut mesh has exactly the input faces, same order, same arity, same corner positions
  (b) ref_vertex is a total map cut vertices -> input vertices, onto, and ref[out.faces[f][i]] == in.faces[f][i]
  (c) only the edges reported in cut_edges were opened (an interior edge is "opened" when its two faces do not share
      both end points in the cut mesh); conversely every reported interior cut edge really is open
  (d) the reported cut edges form a connected graph that contains every border edge of the input
  (e) every singular vertex has a copy on the border of the cut mesh
  (f) the cut mesh is a manifold disk: 1 component, 1 border loop, Euler characteristic 1
  (g) closed sphere with < 2 singularities: no cut edge, the output is the (relabelled) input: closed, chi = 2

Family: ~30 named meshes (single triangle, 2- and 5-triangle strips, fan, jittered / regular grids with 0-4 holes, folded
"roof" grid, cylinder, tetra / octa / icosahedron with and without removed faces, closed and open subdivided cubes,
tori with 0-3 removed faces, double tori with and without border, geometrically degenerate copies) x ~20 singularity
sets (empty, single interior / border, adjacent pairs, far pairs, whole border, clusters, repeated entry, random,
every vertex) x feature options (none, detector restricted to the border, real crease detection, creases driven by
user-supplied face normals: 2 / 3 chunks, island, single-face island, salt and pepper) x container types.

"known" handling: the known cases are replayed first; those that still fail are returned in "known_hit".  Family cases
equal to a known case are skipped.  In addition a failing family case whose *defect class* -- (border | closed | sphere,
interior feature edges present, kind of singularity set, letters of the failed clauses) -- equals the class of a known
case that still fails is counted in "known_siblings" and not reported again (one defect makes hundreds of family
members fail in the same way); "strict_known": true switches this off.
Other optional request fields: "all": true collects every failing case in "all_failures" instead of stopping.
"""
import math, random, re, signal, traceback
import numpy as np
from replay.common import *
from replay.meshcheck import analyse
import mouette as M
from mouette.processing import SingularityCutter
from mouette.processing.features import FeatureEdgeDetector


# ------------------------------------------------------------------------------------------------ mesh families
def compact(V, F):
    used = sorted({v for f in F for v in f})
    ren = {v: i for i, v in enumerate(used)}
    return [list(map(float, V[v])) for v in used], [tuple(ren[v] for v in f) for f in F]


def drop_faces(V, F, remove):
    rm = set(remove or ())
    return compact(V, [f for i, f in enumerate(F) if i not in rm])


def mk_tri(**kw):
    return [(0, 0, 0), (1, 0, 0), (0.3, 0.9, 0)], [(0, 1, 2)]


def mk_strip(n=5, **kw):
    V = [(0.5 * i, (i % 2) * 0.9 + 0.01 * i * i, 0.0) for i in range(n + 2)]
    F = [(i, i + 1, i + 2) if i % 2 == 0 else (i + 1, i, i + 2) for i in range(n)]
    return V, F


def mk_fan(n=6, **kw):
    V = [(0.05, 0.02, 0.1)] + [(math.cos(2 * math.pi * k / n) * (1 + 0.07 * k), math.sin(2 * math.pi * k / n), 0.0) for k in range(n)]
    F = [(0, 1 + k, 1 + (k + 1) % n) for k in range(n)]
    return V, F


def mk_grid(nu=4, nv=4, jitter=0.0, seed=0, holes=(), fold=0.0, **kw):
    rnd = np.random.RandomState(seed)
    V = []
    for i in range(nu):
        for j in range(nv):
            d = rnd.randn(3) * jitter if jitter else np.zeros(3)
            V.append((i + d[0], j + d[1], d[2] - fold * abs(i - (nu - 1) // 2)))
    F = []
    holes = {tuple(h) for h in holes}
    for i in range(nu - 1):
        for j in range(nv - 1):
            if (i, j) in holes:
                continue
            a, b, c, d = i * nv + j, (i + 1) * nv + j, (i + 1) * nv + j + 1, i * nv + j + 1
            F += [(a, b, c), (a, c, d)] if (i + j) % 2 == 0 else [(a, b, d), (b, c, d)]
    return compact(V, F)


def mk_cylinder(nu=6, nv=4, jitter=0.0, seed=0, **kw):
    rnd = np.random.RandomState(seed)
    V = []
    for i in range(nu):
        for j in range(nv):
            t = 2 * math.pi * i / nu
            d = rnd.randn(3) * jitter if jitter else np.zeros(3)
            V.append((math.cos(t) + d[0], math.sin(t) + d[1], 0.7 * j + d[2]))
    F = []
    for i in range(nu):
        for j in range(nv - 1):
            a, b, c, d = i * nv + j, ((i + 1) % nu) * nv + j, ((i + 1) % nu) * nv + j + 1, i * nv + j + 1
            F += [(a, b, c), (a, c, d)]
    return V, F


def mk_torus(nu=4, nv=5, jitter=0.0, seed=0, remove=(), shift=(0, 0, 0), **kw):
    rnd = np.random.RandomState(seed)
    V = []
    for i in range(nu):
        for j in range(nv):
            u, v = 2 * math.pi * i / nu, 2 * math.pi * j / nv
            d = rnd.randn(3) * jitter if jitter else np.zeros(3)
            V.append(((2 + math.cos(v)) * math.cos(u) + d[0] + shift[0], (2 + math.cos(v)) * math.sin(u) + d[1] + shift[1], math.sin(v) + d[2] + shift[2]))
    F = []
    for i in range(nu):
        for j in range(nv):
            a, b, c, d = i * nv + j, ((i + 1) % nu) * nv + j, ((i + 1) % nu) * nv + (j + 1) % nv, i * nv + (j + 1) % nv
            F += [(a, b, c), (a, c, d)]
    return drop_faces(V, F, remove)


def mk_double_torus(nu=4, nv=4, mu=4, mv=5, jitter=0.0, seed=0, remove=(), **kw):
    """connected sum of two grid tori along one removed triangle each (closed, genus 2)"""
    V1, F1 = mk_torus(nu, nv, jitter, seed)
    V2, F2 = mk_torus(mu, mv, jitter, seed + 1, shift=(5.5, 0.3, 0.2))
    a, b, c = F1[0]
    a2, b2, c2 = F2[0]
    n1 = len(V1)
    ident = {a2 + n1: b, b2 + n1: a, c2 + n1: c}
    V = list(V1) + list(V2)
    F = list(F1[1:]) + [tuple(ident.get(v + n1, v + n1) for v in f) for f in F2[1:]]
    V, F = compact(V, F)
    return drop_faces(V, F, remove)


def mk_tetra(**kw):
    return [(1, 1, 1), (1, -1, -1), (-1, 1, -1), (-1, -1, 1.1)], [(0, 1, 2), (0, 3, 1), (0, 2, 3), (1, 3, 2)]


def mk_octa(remove=(), **kw):
    V = [(1, 0, 0), (-1.1, 0, 0), (0, 1.2, 0), (0, -1, 0), (0, 0, 1.3), (0, 0, -0.9)]
    F = [(0, 2, 4), (2, 1, 4), (1, 3, 4), (3, 0, 4), (2, 0, 5), (1, 2, 5), (3, 1, 5), (0, 3, 5)]
    return drop_faces(V, F, remove)


def mk_icosa(remove=(), jitter=0.0, seed=0, **kw):
    p = (1 + 5 ** 0.5) / 2
    V = [(-1, p, 0), (1, p, 0), (-1, -p, 0), (1, -p, 0), (0, -1, p), (0, 1, p), (0, -1, -p), (0, 1, -p), (p, 0, -1), (p, 0, 1), (-p, 0, -1), (-p, 0, 1)]
    F = [(0, 11, 5), (0, 5, 1), (0, 1, 7), (0, 7, 10), (0, 10, 11), (1, 5, 9), (5, 11, 4), (11, 10, 2), (10, 7, 6), (7, 1, 8),
         (3, 9, 4), (3, 4, 2), (3, 2, 6), (3, 6, 8), (3, 8, 9), (4, 9, 5), (2, 4, 11), (6, 2, 10), (8, 6, 7), (9, 8, 1)]
    if jitter:
        rnd = np.random.RandomState(seed)
        V = [tuple(np.array(v) + rnd.randn(3) * jitter) for v in V]
    return drop_faces(V, F, remove)


def mk_cube(n=2, open_top=False, jitter=0.0, seed=0, **kw):
    """surface of [0,n]^3 on the integer lattice, two triangles per cell (sharp creases along the 12 cube edges)"""
    idx, V, F = {}, [], []
    rnd = np.random.RandomState(seed)

    def vid(p):
        if p not in idx:
            idx[p] = len(V)
            V.append(tuple(np.array(p, float) + (rnd.randn(3) * jitter if jitter else 0)))
        return idx[p]
    for k in range(3):
        u, v = (k + 1) % 3, (k + 2) % 3
        for side in (0, n):
            if open_top and k == 2 and side == n:
                continue
            for s in range(n):
                for t in range(n):
                    def P(ds, dt):
                        p = [0, 0, 0]
                        p[k], p[u], p[v] = side, s + ds, t + dt
                        return vid(tuple(p))
                    q = [P(0, 0), P(1, 0), P(1, 1), P(0, 1)]
                    if side == 0:
                        q.reverse()
                    F += [(q[0], q[1], q[2]), (q[0], q[2], q[3])]
    return V, F


FAMILIES = {'tri': mk_tri, 'strip': mk_strip, 'fan': mk_fan, 'grid': mk_grid, 'cylinder': mk_cylinder, 'torus': mk_torus,
            'double_torus': mk_double_torus, 'tetra': mk_tetra, 'octa': mk_octa, 'icosa': mk_icosa, 'cube': mk_cube}


def build_lists(desc):
    if desc.get('family') == 'explicit':
        return [list(map(float, v)) for v in desc['vertices']], [tuple(int(x) for x in f) for f in desc['faces']]
    d = dict(desc)
    fam = d.pop('family')
    squash = d.pop('squash', None)
    V, F = FAMILIES[fam](**d)
    V = [list(map(float, v)) for v in V]
    if squash == 'zero':            # degenerate geometry: every vertex at the origin (all edge lengths 0, all ties)
        V = [[0.0, 0.0, 0.0] for v in V]
    elif squash == 'line':          # everything flattened onto integer abscissae
        V = [[float(round(v[0])), 0.0, 0.0] for v in V]
    elif squash == 'collapse':      # a few zero-length edges
        for (a, b, c) in F[::3]:
            V[b] = list(V[a])
    return V, [tuple(int(x) for x in f) for f in F]


def to_mesh(V, F):
    raw = M.mesh.RawMeshData()
    raw.vertices += [M.Vec(*p) for p in V]
    raw.faces += [tuple(f) for f in F]
    return M.mesh.SurfaceMesh(raw)


# ------------------------------------------------------------------------------------- independent combinatorics
def edge_table(F):
    """undirected edge (a<b) -> list of (face, local index of a, local index of b)"""
    tab = {}
    for fi, f in enumerate(F):
        n = len(f)
        for i in range(n):
            a, b, ia, ib = f[i], f[(i + 1) % n], i, (i + 1) % n
            if a > b:
                a, b, ia, ib = b, a, ib, ia
            tab.setdefault((a, b), []).append((fi, ia, ib))
    return tab


def graph_components(edges):
    par = {}

    def find(x):
        while par[x] != x:
            par[x] = par[par[x]]
            x = par[x]
        return x
    for a, b in edges:
        par.setdefault(a, a); par.setdefault(b, b)
        ra, rb = find(a), find(b)
        if ra != rb:
            par[ra] = rb
    return len({find(x) for x in par})


DIRS = [(math.cos(2 * math.pi * k / 5), math.sin(2 * math.pi * k / 5), 0.0) for k in range(5)]      # pairwise dot < 0.5


def make_features(m, opt):
    mode = opt.get('mode', 'none')
    if mode == 'none':
        return None
    if mode == 'only_border':
        fd = FeatureEdgeDetector(only_border=True, verbose=False)
    else:
        if mode == 'normals':       # user-supplied face normals drive the crease detection: labels -> feature lines
            att = m.faces.create_attribute('normals', float, 3)
            for f, l in enumerate(opt['labels']):
                att[f] = M.Vec(*DIRS[l % 5])
        fd = FeatureEdgeDetector(verbose=False)
    fd.run(m)
    return fd


class Timeout(Exception):
    pass


def _alarm(signum, frame):
    raise Timeout()


def run_case(case):
    """-> (error string or None, defect-class signature)"""
    err, sig = _run_case(case)
    letters = ''.join(sorted(set(re.findall(r'(?:^| \| )\((\w)\)', err)))) if err else ''
    return err, (sig + (letters or ('x' if err else ''),))


def _run_case(case):
    V, F = build_lists(case['mesh'])
    info = analyse(len(V), F)
    if info['problems'] or info['n_components'] != 1 or any(len(f) != 3 for f in F):
        raise AssertionError('oracle bug: the input %r is not a connected manifold triangulation: %r' % (case['mesh'], info))
    m = to_mesh(V, F)
    Fin = [tuple(int(x) for x in f) for f in m.faces]
    Pin = [np.array(p, float) for p in m.vertices]
    Ein = [tuple(sorted(int(x) for x in e)) for e in m.edges]
    if Fin != F or len(Pin) != len(V):
        raise AssertionError('oracle bug: SurfaceMesh changed the face list')
    S = [int(s) for s in case['singularities']]
    tab0 = edge_table(Fin)
    topo = 'border' if info['n_border_loops'] else ('sphere' if info['chi'] == 2 else 'closed')
    if not S:
        skind = 'none'
    elif topo != 'sphere':
        skind = 'some'
    else:
        skind = 'one' if len(set(S)) == 1 else 'adjacent_pair' if len(set(S)) == 2 and (min(S), max(S)) in tab0 else 'many'
    cont = case.get('container', 'list')
    arg = {'list': list, 'tuple': tuple, 'set': set, 'ndarray': np.array}[cont](S)
    signal.signal(signal.SIGALRM, _alarm)
    signal.alarm(40)
    try:
        try:
            fd = make_features(m, case.get('features', {'mode': 'none'}))
        except Timeout:
            raise
        except Exception as e:
            raise AssertionError('oracle bug: the feature detector failed: %r' % (e,))
        active = fd is not None and any(len(tab0[Ein[int(e)]]) == 2 for e in fd.feature_edges)     # an interior feature edge exists
        sig = (topo, bool(active), skind)
        try:
            cutter = SingularityCutter(m, arg, features=fd, verbose=False) if fd is not None else SingularityCutter(m, arg)
            cutter.run()
            out = cutter.output_mesh
            ref = cutter.ref_vertex
            cut = cutter.cut_edges
        except Timeout:
            return 'the cutter did not finish within 40 s', sig
        except Exception as e:
            tb = traceback.extract_tb(e.__traceback__)
            loc = [t for t in tb if '/mouette/' in t.filename]
            where = ' at %s:%d (%s)' % (loc[-1].filename.split('/mouette/')[-1], loc[-1].lineno, loc[-1].name) if loc else ''
            return 'the cutter raised %s: %s%s' % (type(e).__name__, e, where), sig
    finally:
        signal.alarm(0)
    return verify(Fin, Pin, Ein, info, S, cut, out, ref), sig


def verify(Fin, Pin, Ein, info, S, cut, out, ref):
    pb = []
    nVin = len(Pin)
    Fout = [tuple(int(x) for x in f) for f in out.faces]
    Pout = [np.array(p, float) for p in out.vertices]
    nVout = len(Pout)
    # (a) faces in bijection, same order, same corner positions
    if len(Fout) != len(Fin):
        return '(a) cut mesh has %d faces, input has %d' % (len(Fout), len(Fin))
    for f in range(len(Fin)):
        if len(Fout[f]) != len(Fin[f]):
            return '(a) face %d has %d corners in the cut mesh, %d in the input' % (f, len(Fout[f]), len(Fin[f]))
        if any(u < 0 or u >= nVout for u in Fout[f]):
            return '(a) face %d of the cut mesh %r refers to a vertex outside 0..%d' % (f, Fout[f], nVout - 1)
    bad = [(f, i) for f in range(len(Fin)) for i in range(3) if not np.array_equal(Pout[Fout[f][i]], Pin[Fin[f][i]])]
    if bad:
        f, i = bad[0]
        pb.append('(a) corner %d of face %d sits at %r in the cut mesh, at %r in the input (%d corners differ)' % (i, f, Pout[Fout[f][i]].tolist(), Pin[Fin[f][i]].tolist(), len(bad)))
    # (b) vertex map
    try:
        keys = sorted(int(k) for k in ref)
        refd = {int(k): int(v) for k, v in ref.items()}
    except Exception as e:
        return '(b) ref_vertex is not a map of integers: %r' % (e,)
    if keys != list(range(nVout)):
        pb.append('(b) ref_vertex is defined on %d keys (first %r), the cut mesh has vertices 0..%d' % (len(keys), keys[:5], nVout - 1))
    missing = sorted(set(range(nVin)) - set(refd.values()))
    extra = sorted(set(refd.values()) - set(range(nVin)))
    if missing or extra:
        pb.append('(b) ref_vertex is not onto the input vertices: never hit %r, outside values %r' % (missing[:6], extra[:6]))
    badf = [f for f in range(len(Fin)) if tuple(refd.get(u) for u in Fout[f]) != Fin[f]]
    if badf:
        f = badf[0]
        pb.append('(b) face %d: ref_vertex maps its corners %r to %r, the input face is %r (%d faces differ)' % (f, Fout[f], tuple(refd.get(u) for u in Fout[f]), Fin[f], len(badf)))
    # (c) opened edges versus reported edges
    tab = edge_table(Fin)
    border_in = {e for e, l in tab.items() if len(l) == 1}
    try:
        cut_ids = sorted(int(e) for e in cut)
    except Exception as e:
        return '(c) cut_edges is not a collection of edge indices: %r' % (e,)
    if any(e < 0 or e >= len(Ein) for e in cut_ids):
        return '(c) cut_edges contains indices outside 0..%d: %r' % (len(Ein) - 1, [e for e in cut_ids if e < 0 or e >= len(Ein)][:5])
    reported = {Ein[e] for e in cut_ids}
    opened = set()
    for e, l in tab.items():
        if len(l) == 2:
            (f1, a1, b1), (f2, a2, b2) = l
            if not (Fout[f1][a1] == Fout[f2][a2] and Fout[f1][b1] == Fout[f2][b2]):
                opened.add(e)
    extra_open = sorted(opened - reported)
    if extra_open:
        pb.append('(c) %d interior edges were opened without being reported in cut_edges, e.g. %r (reported: %d edges of which %d interior)' % (len(extra_open), extra_open[:4], len(reported), len(reported - border_in)))
    not_open = sorted((reported - border_in) - opened)
    if not_open:
        pb.append('(c) %d reported cut edges are not open in the cut mesh (both faces still share both end points), e.g. %r' % (len(not_open), not_open[:4]))
    sphere = info['n_border_loops'] == 0 and info['chi'] == 2
    res = analyse(nVout, Fout)
    if sphere and len(set(S)) < 2:
        # (g) left uncut
        if reported:
            pb.append('(g) closed sphere with %d singularities: %d cut edges reported, expected none' % (len(set(S)), len(reported)))
        if res['problems'] or nVout != nVin or res['chi'] != 2 or res['n_border_loops'] != 0 or res['n_components'] != 1:
            pb.append('(g) closed sphere with %d singularities should be left uncut: output has %d vertices (input %d), chi=%r, %r border loops, %r components, problems %r' % (len(set(S)), nVout, nVin, res['chi'], res['n_border_loops'], res['n_components'], res['problems'][:2]))
        return ' | '.join(pb) if pb else None
    # (d) cut graph connected and containing the border
    miss = sorted(border_in - reported)
    if miss:
        pb.append('(d) %d border edges of the input are missing from cut_edges, e.g. %r' % (len(miss), miss[:4]))
    if not reported:
        pb.append('(d) no cut edge reported')
    else:
        nc = graph_components(reported)
        if nc != 1:
            pb.append('(d) the reported cut edges form %d connected components, expected 1' % nc)
    # (e) singular vertices on the border of the cut mesh
    tabo = edge_table(Fout)
    bverts = {v for e, l in tabo.items() if len(l) == 1 for v in e}
    onb = {refd.get(u) for u in bverts}
    inner = [s for s in sorted(set(S)) if s not in onb]
    if inner:
        pb.append('(e) singular vertices %r have no copy on the border of the cut mesh' % (inner[:8],))
    # (f) disk
    if res['problems']:
        pb.append('(f) the cut mesh is not a manifold: %r' % (res['problems'][:3],))
    else:
        if (res['n_components'], res['n_border_loops'], res['chi']) != (1, 1, 1):
            pb.append('(f) the cut mesh has %d components, %d border loops, Euler characteristic %d (V=%d); a disk has 1, 1, 1' % (res['n_components'], res['n_border_loops'], res['chi'], nVout))
    return ' | '.join(pb) if pb else None


# ------------------------------------------------------------------------------------------------------ family
def mesh_descs(seed, thorough):
    D = [
        {'family': 'tri'},
        {'family': 'strip', 'n': 2},                                                                  # two triangles
        {'family': 'strip', 'n': 5},                                                                  # no interior vertex
        {'family': 'fan', 'n': 6},
        {'family': 'grid', 'nu': 4, 'nv': 6, 'jitter': 0.12, 'seed': seed},
        {'family': 'grid', 'nu': 5, 'nv': 5},                                                         # regular: ties between shortest paths
        {'family': 'grid', 'nu': 6, 'nv': 7, 'jitter': 0.1, 'seed': seed + 1, 'holes': [[2, 3]]},             # annulus
        {'family': 'grid', 'nu': 7, 'nv': 8, 'holes': [[1, 1], [4, 4]]},                                # 3 border loops, regular
        {'family': 'grid', 'nu': 5, 'nv': 6, 'fold': 1.2, 'jitter': 0.05, 'seed': seed},                # roof: a real crease from border to border
        {'family': 'cylinder', 'nu': 6, 'nv': 4, 'jitter': 0.05, 'seed': seed},
        {'family': 'tetra'},
        {'family': 'octa'},
        {'family': 'octa', 'remove': [0]},                                                            # octahedron minus a face: a disk
        {'family': 'icosa'},
        {'family': 'icosa', 'jitter': 0.1, 'seed': seed, 'remove': [0, 12]},                            # sphere with two holes
        {'family': 'cube', 'n': 2},
        {'family': 'cube', 'n': 2, 'open_top': True, 'jitter': 0.03, 'seed': seed},
        {'family': 'cube', 'n': 3},                                                                   # regular: many equal-length shortest paths
        {'family': 'torus', 'nu': 4, 'nv': 5, 'jitter': 0.05, 'seed': seed},
        {'family': 'torus', 'nu': 5, 'nv': 5},                                                        # regular torus
        {'family': 'torus', 'nu': 5, 'nv': 6, 'jitter': 0.05, 'seed': seed, 'remove': [7]},              # genus 1, one loop
        {'family': 'torus', 'nu': 5, 'nv': 6, 'remove': [3, 40]},                                        # genus 1, two loops
        {'family': 'double_torus', 'nu': 4, 'nv': 4, 'mu': 4, 'mv': 5, 'jitter': 0.04, 'seed': seed},
        {'family': 'double_torus', 'nu': 4, 'nv': 4, 'mu': 4, 'mv': 4, 'remove': [5]},                   # genus 2 with a border
        {'family': 'grid', 'nu': 5, 'nv': 6, 'squash': 'zero'},                                         # degenerate geometry, admissible combinatorics
        {'family': 'torus', 'nu': 4, 'nv': 5, 'squash': 'line'},
        {'family': 'grid', 'nu': 6, 'nv': 6, 'holes': [[2, 2]], 'squash': 'collapse'},
        {'family': 'icosa', 'squash': 'collapse'},
    ]
    if thorough:
        D += [
            {'family': 'grid', 'nu': 9, 'nv': 7, 'jitter': 0.1, 'seed': seed + 3},
            {'family': 'grid', 'nu': 8, 'nv': 8},
            {'family': 'grid', 'nu': 9, 'nv': 10, 'jitter': 0.08, 'seed': seed + 4, 'holes': [[1, 1], [1, 6], [5, 3], [6, 7]]},
            {'family': 'cylinder', 'nu': 9, 'nv': 5},
            {'family': 'cube', 'n': 4},
            {'family': 'cube', 'n': 4, 'open_top': True},
            {'family': 'icosa', 'remove': [3]},
            {'family': 'torus', 'nu': 7, 'nv': 8, 'jitter': 0.04, 'seed': seed + 5},
            {'family': 'torus', 'nu': 3, 'nv': 4, 'jitter': 0.05, 'seed': seed},
            {'family': 'torus', 'nu': 6, 'nv': 7, 'remove': [0, 30, 61]},
            {'family': 'double_torus', 'nu': 5, 'nv': 6, 'mu': 6, 'mv': 5, 'jitter': 0.03, 'seed': seed + 6, 'remove': [10, 90]},
        ]
    return D


def singularity_sets(V, F, rnd, thorough):
    nV = len(V)
    tab = edge_table(F)
    bedges = sorted(e for e, l in tab.items() if len(l) == 1)
    bv = sorted({v for e in bedges for v in e})
    iv = [v for v in range(nV) if v not in set(bv)]
    iedges = sorted(e for e, l in tab.items() if len(l) == 2)
    sets = [[]]

    def add(s):
        s = [int(x) for x in s]
        if s not in sets:
            sets.append(s)
    add([0]); add([nV - 1])
    if iv:
        add([iv[len(iv) // 2]])
    if bv:
        add([bv[len(bv) // 3]])
    if iedges:
        add(iedges[len(iedges) // 2])                     # two adjacent singularities
        add(iedges[0])
    if bedges:
        add(bedges[len(bedges) // 2])                     # adjacent, both on the border
    ii = [e for e in iedges if e[0] in iv and e[1] in iv]
    if ii:
        add(ii[len(ii) // 2])                             # adjacent, both interior
    add([0, nV - 1])
    if iv and bv:
        add([bv[0], iv[-1]]); add([iv[0], bv[-1], bv[len(bv) // 2]])
    if len(bv) >= 4:
        add([bv[0], bv[len(bv) // 2]])
        add(bv)                                           # the whole border is singular
    if len(iv) >= 3:
        add([iv[0], iv[len(iv) // 2], iv[-1]])
    for k in ((3, 5, 8) if thorough else (3, 5)):
        if nV > k:
            add(sorted(rnd.sample(range(nV), k)))
            s = rnd.sample(range(nV), k); add(s)          # unsorted order
    add([nV // 2, 0, nV // 2])                             # a repeated entry
    nb = {v: set() for v in range(nV)}
    for a, b in tab:
        nb[a].add(b); nb[b].add(a)
    for start in (nV // 2, nV // 3):                      # clusters of mutually adjacent singularities
        ball = [start]
        for v in ball:
            ball += [u for u in sorted(nb[v]) if u not in ball]
            if len(ball) >= 7:
                break
        add(ball[:7])
    if nV <= (60 if thorough else 36):
        add(list(range(nV)))                              # every vertex singular
    return sets


def bfs_ball(F, start, count):
    tab = edge_table(F)
    adj = {f: set() for f in range(len(F))}
    for l in tab.values():
        if len(l) == 2:
            adj[l[0][0]].add(l[1][0]); adj[l[1][0]].add(l[0][0])
    seen, order = {start}, [start]
    for f in order:
        for g in sorted(adj[f]):
            if g not in seen:
                seen.add(g); order.append(g)
    return set(order[:count])


def feature_options(V, F, rnd, geometric=True):
    nF = len(F)
    opts = [{'mode': 'none'}] + ([{'mode': 'only_border'}, {'mode': 'detect'}] if geometric else [])   # the detector itself needs non-degenerate faces
    if nF >= 2:
        opts.append({'mode': 'normals', 'labels': [0 if f < nF // 2 else 1 for f in range(nF)]})                   # two chunks
    if nF >= 4:
        opts.append({'mode': 'normals', 'labels': [(3 * f) // nF for f in range(nF)]})                              # three chunks
        ball = bfs_ball(F, nF // 2, max(2, nF // 4))
        opts.append({'mode': 'normals', 'labels': [1 if f in ball else 0 for f in range(nF)]})                      # an island
        opts.append({'mode': 'normals', 'labels': [rnd.randrange(3) for f in range(nF)]})                            # salt and pepper
        opts.append({'mode': 'normals', 'labels': [1 if f == nF // 3 else 0 for f in range(nF)]})                    # a single-face island
    return opts


def strip_error(c):
    return {k: v for k, v in c.items() if k != 'error'}


def family(seed, thorough):
    rnd = random.Random(seed)
    for md in mesh_descs(seed, thorough):
        V, F = build_lists(md)
        sets = singularity_sets(V, F, rnd, thorough)
        fopts = feature_options(V, F, rnd, geometric='squash' not in md)
        for io, fo in enumerate(fopts):
            # the full list of singularity sets without features, a lighter one with each feature option
            for i, S in enumerate(sets):
                if io > 0 and not thorough and len(S) > 8:
                    continue
                yield {'mesh': md, 'singularities': S, 'features': fo, 'container': 'list'}
        # other containers for the singularities
        for cont, S in (('set', sets[-2]), ('tuple', sets[min(5, len(sets) - 1)]), ('ndarray', sets[min(9, len(sets) - 1)])):
            yield {'mesh': md, 'singularities': sorted(S) if cont == 'set' else S, 'features': {'mode': 'none'}, 'container': cont}


def random_family(seed, count):
    """search mode: random face-removals / random singularity sets / random feature labels"""
    rnd = random.Random(seed * 7919 + 13)
    for k in range(count):
        fam = rnd.choice(['grid', 'torus', 'cylinder', 'icosa', 'cube', 'double_torus'])
        md = {'family': fam, 'jitter': rnd.choice([0.0, 0.06]), 'seed': rnd.randrange(1000)}
        if fam == 'grid':
            md.update(nu=rnd.randint(3, 7), nv=rnd.randint(3, 7))
            if md['nu'] >= 5 and md['nv'] >= 5 and rnd.random() < 0.5:
                md['holes'] = [[rnd.randint(1, md['nu'] - 3), rnd.randint(1, md['nv'] - 3)]]
        elif fam == 'torus':
            md.update(nu=rnd.randint(4, 6), nv=rnd.randint(4, 6))
            if rnd.random() < 0.5:
                md['remove'] = [rnd.randrange(2 * md['nu'] * md['nv'])]
        elif fam == 'cylinder':
            md.update(nu=rnd.randint(4, 7), nv=rnd.randint(2, 5))
        elif fam == 'icosa':
            if rnd.random() < 0.5:
                md['remove'] = [rnd.randrange(20)]
        elif fam == 'cube':
            md.update(n=rnd.randint(1, 3), open_top=rnd.random() < 0.5)
        else:
            md.update(nu=4, nv=rnd.randint(4, 5), mu=rnd.randint(4, 5), mv=4)
        V, F = build_lists(md)
        nV, nF = len(V), len(F)
        S = rnd.sample(range(nV), rnd.choice([0, 1, 2, 2, 3, 4, 6, min(nV, 10)]))
        mode = rnd.choice(['none', 'none', 'only_border', 'detect', 'normals', 'normals'])
        fo = {'mode': mode}
        if mode == 'normals':
            fo['labels'] = [rnd.randrange(rnd.choice([2, 3, 5])) for _ in range(nF)] if rnd.random() < 0.5 else [(rnd.choice([2, 3, 4]) * f) // nF for f in range(nF)]
        yield {'mesh': md, 'singularities': S, 'features': fo, 'container': 'list'}


def main():
    req = read_request()
    mode = req.get('mode', 'bounded')
    seed = int(req.get('seed', 0) or 0)
    thorough = req.get('tier') == 'thorough'
    if mode == 'replay':
        case = strip_error(req['case'])
        err, sig = run_case(case)
        respond(failing=dict(case, error=err) if err else None, cases=1, defect_class=list(sig))
    known = [strip_error(k) for k in (req.get('known') or [])]
    strict = bool(req.get('strict_known'))
    budget = Budget(270 if thorough else 50)
    n, hits, allf, siblings = 0, [], [], 0
    known_classes = set()
    # the known cases first: which of them still fail, and with which defect class
    # (defect class = (border / closed / sphere, feature constraints active, kind of singularity set, failed clauses))
    for k in known:
        err, sig = run_case(k)
        n += 1
        if err:
            hits.append(dict(k, error=err))
            known_classes.add(sig)

    def gen():
        for c in family(seed, thorough):
            yield c
        if mode == 'search' or thorough:
            for c in random_family(seed, 6000 if thorough else 1500):
                yield c
    truncated = False
    for case in gen():
        if budget.over():
            truncated = True
            break
        if case in known:
            continue
        n += 1
        err, sig = run_case(case)
        if err:
            if sig in known_classes and not strict:
                # same mesh class, same option class, same clauses as a known case that still fails: the same defect
                # seen on another member of the family; counted, not reported again ("strict_known": true disables this)
                siblings += 1
                continue
            f = dict(case, error=err)
            if req.get('all'):
                allf.append(f)
                continue
            respond(failing=f, cases=n, known_hit=hits, known_siblings=siblings, defect_class=list(sig))
    extra = {'all_failures': allf} if req.get('all') else {}
    respond(failing=allf[0] if allf else None, cases=n, known_hit=hits, known_siblings=siblings,
            note='time budget reached, family truncated' if truncated else None, **extra)


main()
