"""C02 native oracle: mesh construction normalises raw data, whatever its form.

Every clause of the statement is checked on the REAL library against a specification computed here from the
raw (V, E, F, C, edge attributes) description only:

  vertices      3-D rows, coordinates = input padded with zeros
  edges         multiset of stored edges = valid declared edges + every (valid) face side not declared, each once;
                every stored edge low index first
  edge_attrs    (one case per attribute) surviving declared edges read their old value at their new index, every
                other index reads the default (values of dropped edges are gone)
  hard_edges    flag set == surviving declared edges (when edges are completed from faces)
  faces         declared faces unchanged and first, then every missing cell face exactly once
                (4 triangles / tet, 6 quads / hex = the 4-cycles of the cube graph, shared faces once)
  cells         unchanged
  face_corners / cell_corners   one record per incidence, element order, element and owner
  cell_faces    one record per incidence of a cell with an existing face (4 per tet / 6 per hex once faces are completed),
                grouped by cell in cell order, face id and owner cell
  class         class of the highest-dimensional element present in the finished data
  rebuild       T(RawMeshData(m)) once and twice, and T(raw) twice on the same raw, leave every container,
                corner list and attribute value unchanged
  rows          (one case per operation) a battery of later operations gives the same answers whether index rows
                were lists, tuples or numpy rows (baseline: tuples)

A case = one input x one construction route x container types x switches x ONE clause (x one op / attribute).
Error strings start with "[clause/kind]"; besides the exact descriptor match required by the protocol, a case
whose [clause/kind] tag equals the tag of a known case THAT STILL FAILS is counted as the same defect and skipped
(reported under "same_as_known"), so that a single defect does not need hundreds of known entries.
"""
import os, re, shutil, signal, tempfile, random
from collections import Counter
import numpy as np
from replay.common import *
import mouette as M
from mouette import config
from mouette.mesh.mesh_data import RawMeshData
from mouette.mesh.mesh import _instanciate_raw_mesh_data, from_arrays

TMP = None
TYPES = {'float': float, 'int': int, 'bool': bool}


# --------------------------------------------------------------------------------------------- specification
def sort2(a, b):
    return (a, b) if a <= b else (b, a)


def cyc_canon(seq):
    """canonical representative of a cyclic sequence up to rotation and reflection"""
    seq = [int(x) for x in seq]
    n = len(seq)
    cands = []
    for s in (seq, seq[::-1]):
        for r in range(n):
            cands.append(tuple(s[r:] + s[:r]))
    return min(cands)


def _cube_quads():
    adj = {i: set() for i in range(8)}
    for i in range(4):
        for a, b in ((i, (i + 1) % 4), (4 + i, 4 + (i + 1) % 4), (i, i + 4)):
            adj[a].add(b); adj[b].add(a)
    out = set()
    for a in range(8):
        for b in adj[a]:
            for c in adj[b] - {a}:
                for d in adj[c] - {a, b}:
                    if a in adj[d]:
                        out.add(cyc_canon((a, b, c, d)))
    assert len(out) == 6
    return sorted(out)


CUBE_QUADS = _cube_quads()      # the six 4-cycles of the cube graph, bottom ring 0-3 below top ring 4-7


def local_faces(c):
    c = [int(x) for x in c]
    if len(c) == 4:
        return [tuple(c[j] for j in range(4) if j != i) for i in range(4)]
    if len(c) == 8:
        return [tuple(c[j] for j in q) for q in CUBE_QUADS]
    raise ValueError('unsupported cell arity %d' % len(c))


def spec(inp, cef, cfc):
    V, E, F, C = inp['V'], inp['E'], inp['F'], inp['C']
    nV = len(V)
    decl = [tuple(f) for f in F]
    added = []
    if cfc:
        seen = {tuple(sorted(f)) for f in decl}
        for c in C:
            for lf in local_faces(c):
                k = tuple(sorted(lf))
                if k not in seen:
                    seen.add(k); added.append(cyc_canon(lf))
    faces = decl + added

    def valid(a, b):
        return a != b and 0 <= a < nV and 0 <= b < nV
    cnt = Counter()
    survivors = []          # declared index of surviving edges, declared order
    for k, (a, b) in enumerate(E):
        if valid(a, b):
            cnt[sort2(a, b)] += 1; survivors.append(k)
    declared_keys = set(cnt)
    if cef and faces:
        for f in faces:
            n = len(f)
            for i in range(n):
                a, b = f[i], f[(i + 1) % n]
                if valid(a, b) and sort2(a, b) not in cnt:
                    cnt[sort2(a, b)] = 1
    if C:
        cls = 'VolumeMesh'
    elif faces:
        cls = 'SurfaceMesh'
    elif cnt:
        cls = 'PolyLine'
    else:
        cls = 'PointCloud'
    return dict(nV=nV, decl_faces=decl, added=added, edge_count=cnt, declared_keys=declared_keys, survivors=survivors,
                cls=cls, flags=bool(cef and faces))


# --------------------------------------------------------------------------------------------- construction
def conv_rows(rows, kind):
    if kind == 'list':
        return [list(r) for r in rows]
    if kind == 'tuple':
        return [tuple(r) for r in rows]
    if kind == 'numpy':
        return [np.array(r, dtype=int) for r in rows]
    raise ValueError(kind)


def conv_vertices(V, kind):
    if kind == 'list':
        return [[float(x) for x in p] for p in V]
    if kind == 'tuple':
        return [tuple(float(x) for x in p) for p in V]
    if kind == 'numpy':
        return [np.array(p, dtype=float) for p in V]
    if kind == 'vec':
        return [M.Vec([float(x) for x in p]) for p in V]
    raise ValueError(kind)


def make_raw(inp, rows, vrows, prefilled=False):
    raw = RawMeshData()
    if prefilled:           # as the OFF / OBJ / geogram readers do: corners of the DECLARED faces and cells come with the data
        raw.face_corners += [(v, f) for f, row in enumerate(inp['F']) for v in row]
        raw.cell_corners += [(v, c) for c, row in enumerate(inp['C']) for v in row]
    raw.vertices += conv_vertices(inp['V'], vrows)
    raw.edges += conv_rows(inp['E'], rows)
    raw.faces += conv_rows(inp['F'], rows)
    raw.cells += conv_rows(inp['C'], rows)
    for a in inp.get('attrs') or []:
        at = raw.edges.create_attribute(a['name'], TYPES[a['type']], a['size'], dense=a['dense'])
        for k, v in a['values'].items():
            at[int(k)] = v
    return raw


def file_view(inp, ext):
    """the input as the file will present it (sections of a medit file are grouped by arity); None if the format cannot hold it"""
    V, E, F, C = inp['V'], inp['E'], inp['F'], inp['C']
    if inp.get('attrs') or any(len(p) != 3 for p in V) or not V:
        return None
    if ext == 'obj':
        if C: return None
        return dict(inp)
    if ext == 'mesh':
        if any(len(f) not in (3, 4) for f in F) or any(len(c) not in (4, 8) for c in C): return None
        d = dict(inp)
        d['F'] = [f for f in F if len(f) == 3] + [f for f in F if len(f) == 4]
        d['C'] = [c for c in C if len(c) == 4] + [c for c in C if len(c) == 8]
        return d
    if ext == 'off':
        if E or C or not F: return None      # OFF expresses polygonal faces only (a 4-vertex element is a quad, not a cell)
        return dict(inp)
    if ext == 'tet':
        if E or F or not C or any(len(c) != 4 for c in C): return None
        return dict(inp)
    if ext == 'xyz':
        if E or F or C: return None
        return dict(inp)
    return None


def write_file(inp, ext, path):
    V, E, F, C = inp['V'], inp['E'], inp['F'], inp['C']
    L = []
    if ext == 'obj':
        L += ['v %r %r %r' % tuple(p) for p in V]
        L += ['l %d %d' % (a + 1, b + 1) for a, b in E]
        L += ['f ' + ' '.join(str(v + 1) for v in f) for f in F]
    elif ext == 'mesh':
        L += ['MeshVersionFormatted 1', 'Dimension 3', 'Vertices', str(len(V))] + ['%r %r %r 0' % tuple(p) for p in V]
        def sec(title, rows):
            if rows:
                L.extend([title, str(len(rows))] + [' '.join(str(v + 1) for v in r) + ' 0' for r in rows])
        sec('Edges', E)
        sec('Triangles', [f for f in F if len(f) == 3]); sec('Quadrilaterals', [f for f in F if len(f) == 4])
        sec('Tetrahedra', [c for c in C if len(c) == 4]); sec('Hexahedra', [c for c in C if len(c) == 8])
        L.append('End')
    elif ext == 'off':
        L += ['OFF', '%d %d 0' % (len(V), len(F) + len(C))] + ['%r %r %r' % tuple(p) for p in V]
        L += ['%d ' % len(r) + ' '.join(str(v) for v in r) for r in list(F) + list(C)]
    elif ext == 'tet':
        L += ['%d vertices' % len(V), '%d tets' % len(C)] + ['%r %r %r' % tuple(p) for p in V]
        L += ['4 ' + ' '.join(str(v) for v in c) for c in C]
    elif ext == 'xyz':
        L += ['%r %r %r' % tuple(p) for p in V]
    with open(path, 'w') as f:
        f.write('\n'.join(L) + '\n')


def routes_for(inp):
    """construction routes applicable to an input"""
    out = ['raw', 'ctor']
    if inp['F'] or inp['C']:
        out.append('raw_prefilled')
    nV = len(inp['V'])
    homog = lambda R: len({len(r) for r in R}) <= 1
    if not inp.get('attrs') and nV and homog(inp['F']) and homog(inp['C']) and all(a < nV and b < nV for a, b in inp['E']):
        out.append('from_arrays')
    for ext in ('obj', 'mesh', 'off', 'tet', 'xyz'):
        if file_view(inp, ext) is not None:
            out.append('file:' + ext)
    return out


def effective_input(inp, route):
    if route.startswith('file:'):
        return file_view(inp, route[5:])
    return inp


def build(inp, route, rows, vrows, sp):
    """-> mesh built by the library through the given route"""
    if route == 'raw':
        return _instanciate_raw_mesh_data(make_raw(inp, rows, vrows))
    if route == 'ctor':
        return getattr(M.mesh, sp['cls'])(make_raw(inp, rows, vrows))
    if route == 'raw_prefilled':
        return _instanciate_raw_mesh_data(make_raw(inp, rows, vrows, True))
    if route == 'from_arrays':
        V = np.array(inp['V'], dtype=float)
        E = np.array(inp['E'], dtype=int).reshape(-1, 2) if inp['E'] else None
        F = np.array(inp['F'], dtype=int) if inp['F'] else None
        C = np.array(inp['C'], dtype=int) if inp['C'] else None
        return from_arrays(V, E=E, F=F, C=C)
    if route.startswith('file:'):
        ext = route[5:]
        path = os.path.join(TMP, 'in_%d.%s' % (random.getrandbits(40), ext))
        write_file(inp, ext, path)
        return M.mesh.load(path)
    raise ValueError(route)


# --------------------------------------------------------------------------------------------- observation
def irows(cont):
    return [[int(x) for x in r] for r in cont]


def val(x):
    a = np.asarray(x)
    return a.astype(float).reshape(-1).tolist()


def attr_default(a):
    return [0.0] * a['size']


def corner_records(cont, what):
    n = len(cont)
    out = []
    for k in range(n):
        try:
            out.append((int(cont.element(k)), int(cont.adj(k))))
        except Exception as e:
            return None, '[%s/owner-unreadable] %s has %d records but reading (element, owner) of record %d raised %s: %s (len(_elem)=%d, len(_adj)=%d)' % (
                what, what, n, k, type(e).__name__, e, len(cont._elem), len(cont._adj))
    if len(cont._adj) != len(cont._elem):
        return None, '[%s/owner-count] %s stores %d elements but %d owners' % (what, what, len(cont._elem), len(cont._adj))
    return out, None


def first_diff(rec, want):
    k = 0
    while k < min(len(rec), len(want)) and rec[k] == want[k]:
        k += 1
    return '%d (vertex, owner) records, expected %d; first difference at record %d: %r, expected %r' % (
        len(rec), len(want), k, rec[k:k + 4], want[k:k + 4])


def check_structure(m, inp, sp):
    """-> {(clause, op): error or None}"""
    R = {}
    nV = sp['nV']
    # ---- cells
    cells = irows(m.cells) if hasattr(m, 'cells') else []
    R[('cells', None)] = None if cells == [list(c) for c in inp['C']] else '[cells/changed] cells %r, declared %r' % (cells, inp['C'])
    if R[('cells', None)]:
        return R            # everything else derives from the cells
    # ---- class
    R[('class', None)] = None if type(m).__name__ == sp['cls'] else '[class/wrong] built a %s, the highest-dimensional element present calls for a %s' % (type(m).__name__, sp['cls'])
    # ---- vertices
    err = None
    if len(m.vertices) != nV:
        err = '[vertices/count] %d vertices for %d input rows' % (len(m.vertices), nV)
    else:
        for i, (p, q) in enumerate(zip(inp['V'], m.vertices)):
            exp = [float(x) for x in p] + [0.0] * (3 - len(p))
            if len(q) != 3:
                err = '[vertices/not-3d] vertex %d has %d coordinates %r, expected 3-D %r' % (i, len(q), val(q), exp); break
            if val(q) != exp:
                err = '[vertices/value] vertex %d = %r expected %r' % (i, val(q), exp); break
            if not isinstance(q, M.Vec):
                err = '[vertices/type] vertex %d is a %s, not a Vec' % (i, type(q).__name__); break
    R[('vertices', None)] = err
    # ---- edges
    has_edges = hasattr(m, 'edges')
    edges = irows(m.edges) if has_edges else []
    err = None
    for j, e in enumerate(edges):
        if len(e) != 2 or not e[0] < e[1]:
            err = '[edges/order] edge %d stored as %r (not low index first)' % (j, e); break
        if not (0 <= e[0] < nV and 0 <= e[1] < nV):
            err = '[edges/invalid-kept] edge %d = %r is out of range for %d vertices' % (j, e, nV); break
    if not err:
        got = Counter(tuple(e) for e in edges)
        if got != sp['edge_count']:
            miss = sorted((sp['edge_count'] - got).elements()); extra = sorted((got - sp['edge_count']).elements())
            err = '[edges/content] edge list %r: missing %r, in excess %r (expected the valid declared edges plus each face side once)' % (edges, miss, extra)
    R[('edges', None)] = err
    edges_ok = err is None
    # ---- edge attributes
    uniq = all(c == 1 for k, c in sp['edge_count'].items() if k in sp['declared_keys'])
    new_index = {}
    if edges_ok and uniq:
        pos = {tuple(e): j for j, e in enumerate(edges)}
        for k in sp['survivors']:
            new_index[k] = pos[sort2(*inp['E'][k])]
    for a in inp.get('attrs') or []:
        err = None
        if not (edges_ok and uniq):
            R[('edge_attrs', a['name'])] = None      # cannot map indices; the edges clause reports
            continue
        if not has_edges:
            R[('edge_attrs', a['name'])] = None      # no edge survived (the edges clause agreed): nothing left to read
            continue
        if not m.edges.has_attribute(a['name']):
            err = '[edge_attrs/lost] attribute %r is gone' % a['name']
        else:
            at = m.edges.get_attribute(a['name'])
            expv = {j: attr_default(a) for j in range(len(edges))}
            for k, j in new_index.items():
                if str(k) in a['values'] or k in a['values']:
                    v = a['values'].get(str(k), a['values'].get(k))
                    expv[j] = val(v)
            for j in range(len(edges)):
                try:
                    g = val(at[j])
                except Exception as e:
                    err = '[edge_attrs/unreadable] reading attribute %r at edge %d raised %s: %s' % (a['name'], j, type(e).__name__, e); break
                if g != expv[j]:
                    err = '[edge_attrs/value-%s] attribute %r (%s) at edge %d %r reads %r, expected %r (declared edges %r -> new indices %r)' % (
                        'dense' if a['dense'] else 'sparse', a['name'], 'dense' if a['dense'] else 'sparse', j, edges[j], g, expv[j], inp['E'], new_index); break
        R[('edge_attrs', a['name'])] = err
    # ---- hard edges
    err = None
    if has_edges and edges_ok and uniq:
        want = sorted(new_index.values())
        if m.edges.has_attribute('hard_edges'):
            at = m.edges.get_attribute('hard_edges')
            try:
                got = sorted(j for j in range(len(edges)) if bool(at[j]))
            except Exception as e:
                got = None; err = '[hard_edges/unreadable] reading hard_edges raised %s: %s' % (type(e).__name__, e)
            if got is not None:
                if sp['flags'] and got != want:
                    err = '[hard_edges/flags] hard edges flagged at %r, declared edges are at %r (edges %r)' % (got, want, edges)
                elif not set(got) <= set(want):
                    err = '[hard_edges/flags] hard edges flagged at %r but only %r were declared' % (got, want)
        elif sp['flags'] and (want or edges):
            err = '[hard_edges/missing] no hard_edges attribute although edges were completed from faces'
    R[('hard_edges', None)] = err
    # ---- faces
    err = None
    faces = irows(m.faces) if hasattr(m, 'faces') else []
    nd = len(sp['decl_faces'])
    if faces[:nd] != [list(f) for f in sp['decl_faces']]:
        err = '[faces/declared] first %d faces %r differ from the declared faces %r' % (nd, faces[:nd], sp['decl_faces'])
    else:
        got = Counter(cyc_canon(f) for f in faces[nd:]); want = Counter(sp['added'])
        if got != want:
            err = '[faces/completion] completed faces %r: missing %r, in excess %r' % (faces[nd:], sorted((want - got).elements()), sorted((got - want).elements()))
    R[('faces', None)] = err
    # ---- face corners
    if hasattr(m, 'face_corners'):
        rec, err = corner_records(m.face_corners, 'face_corners')
        if not err:
            want = [(v, f) for f, row in enumerate(faces) for v in row]
            if rec != want:
                err = '[face_corners/content] %s' % first_diff(rec, want)
        R[('face_corners', None)] = err
    elif faces:
        R[('face_corners', None)] = '[face_corners/absent] no face_corners container'
    if hasattr(m, 'cell_corners'):
        rec, err = corner_records(m.cell_corners, 'cell_corners')
        if not err:
            want = [(v, c) for c, row in enumerate(cells) for v in row]
            if rec != want:
                err = '[cell_corners/content] %s' % first_diff(rec, want)
        R[('cell_corners', None)] = err
        # ---- cell faces
        err = None
        cf = m.cell_faces
        fkeys = [tuple(sorted(f)) for f in faces]
        present = set(fkeys)
        # incidences with faces that exist (all 4 / 6 of them once faces are completed from cells)
        inc = [[f for f in local_faces(row) if tuple(sorted(f)) in present] for row in cells]
        want_owner = [c for c, lf in enumerate(inc) for _ in lf]
        if len(cf._elem) != len(want_owner):
            err = '[cell_faces/count] %d cell-face records, expected %d (one per cell-face incidence: 4 per tetrahedron, 6 per hexahedron when all faces exist)' % (len(cf._elem), len(want_owner))
        else:
            k = 0
            for c, row in enumerate(cells):
                lf = inc[c]
                got = Counter(fkeys[int(i)] if 0 <= int(i) < len(faces) else None for i in cf._elem[k:k + len(lf)])
                want = Counter(tuple(sorted(f)) for f in lf)
                if got != want:
                    err = '[cell_faces/content] records %d..%d point to faces %r = %r, the faces of cell %d %r are %r' % (
                        k, k + len(lf) - 1, [int(i) for i in cf._elem[k:k + len(lf)]], sorted(got), c, row, sorted(want)); break
                k += len(lf)
            if not err:
                rec, err = corner_records(cf, 'cell_faces')
                if not err and [o for _, o in rec] != want_owner:
                    err = '[cell_faces/owner] owners %r expected %r' % ([o for _, o in rec], want_owner)
        R[('cell_faces', None)] = err
    return R


def snapshot(m):
    S = {'class': type(m).__name__, 'vertices': [val(v) for v in m.vertices]}
    conts = [('vertices', m.vertices)]
    for name in ('edges', 'faces', 'cells'):
        if hasattr(m, name):
            S[name] = irows(getattr(m, name)); conts.append((name, getattr(m, name)))
    for name in ('face_corners', 'cell_corners', 'cell_faces'):
        if hasattr(m, name):
            c = getattr(m, name)
            S[name] = [[int(x) for x in c._elem], [int(x) for x in c._adj]]; conts.append((name, c))
    for name, c in conts:
        for an in sorted(c.attributes):
            at = c.get_attribute(an)
            vals = []
            for j in range(len(c)):
                try:
                    vals.append(val(at[j]))
                except Exception as e:
                    vals.append('raised ' + type(e).__name__)
            S['attr:%s.%s' % (name, an)] = vals
    return S


def diffs(S0, S1):
    """-> {key: (before, after)} for every entry that differs"""
    return {k: (S0.get(k), S1.get(k)) for k in sorted(set(S0) | set(S1)) if S0.get(k) != S1.get(k)}


def check_rebuild(inp, route, rows, vrows, sp):
    """building again from an already built mesh changes nothing: one case per (way of rebuilding, container / attribute)"""
    R = {}

    def record(way, S0, changed, how, raised=None):
        for k in S0:
            R[('rebuild', '%s:%s' % (way, k))] = None
        for k, (a, b) in changed.items():
            R[('rebuild', '%s:%s' % (way, k))] = '[rebuild/%s] %s: %s changed from %r to %r' % (k, how, k, a, b)
        if raised:
            R[('rebuild', '%s:raised' % way)] = raised

    # (1) wrap the built mesh again, twice; neither the new nor the original object may change
    m = build(inp, route, rows, vrows, sp)
    T = type(m)
    S0 = snapshot(m)
    cur, changed, raised = m, {}, None
    for rnd in (1, 2):
        try:
            cur = T(RawMeshData(cur))
        except Exception as e:
            raised = '[rebuild/raised@%s] %s(RawMeshData(mesh)) (rebuild no %d) raised %s: %s' % ((raise_site(e) or '?').split(' ')[-1], T.__name__, rnd, type(e).__name__, e); break
        for k, v in diffs(S0, snapshot(cur)).items():
            changed.setdefault(k, v)
        for k, v in diffs(S0, snapshot(m)).items():
            changed.setdefault(k, v)
    record('rewrap', S0, changed, 'after %s(RawMeshData(mesh)) (once / twice)' % T.__name__, raised)
    # (2) through the class-selecting entry point
    changed, raised = {}, None
    m = build(inp, route, rows, vrows, sp)
    S0 = snapshot(m)
    try:
        m3 = _instanciate_raw_mesh_data(RawMeshData(m))
        changed = diffs(S0, snapshot(m3))
    except Exception as e:
        raised = '[rebuild/raised@%s] _instanciate_raw_mesh_data(RawMeshData(mesh)) raised %s: %s' % ((raise_site(e) or '?').split(' ')[-1], type(e).__name__, e)
    record('instanciate', S0, changed, 'after _instanciate_raw_mesh_data(RawMeshData(mesh))', raised)
    # (3) two objects from one RawMeshData
    if route in ('raw', 'ctor', 'raw_prefilled'):
        changed, raised, S0 = {}, None, {}
        try:
            raw = make_raw(inp, rows, vrows, route == 'raw_prefilled')
            T = getattr(M.mesh, sp['cls'])
            a = T(raw); S0 = snapshot(a)
            b = T(raw)
            changed = diffs(S0, snapshot(b)); changed.update(diffs(S0, snapshot(a)))
        except Exception as e:
            raised = '[rebuild/raised@%s] constructing twice from the same RawMeshData raised %s: %s' % ((raise_site(e) or '?').split(' ')[-1], type(e).__name__, e)
        record('same_raw', S0, changed, 'constructing %s twice from the same RawMeshData' % sp['cls'], raised)
    return R


# --------------------------------------------------------------------------------------------- later behaviour
def norm(x):
    if isinstance(x, (np.integer,)):
        return int(x)
    if isinstance(x, (np.floating,)):
        return float(x)
    if isinstance(x, (np.bool_, bool)):
        return bool(x)
    if isinstance(x, np.ndarray):
        return [norm(y) for y in x.tolist()] if x.ndim else norm(x.item())
    if isinstance(x, (list, tuple)):
        return [norm(y) for y in x]
    if isinstance(x, (set, frozenset)):
        return sorted(norm(y) for y in x)
    if isinstance(x, dict):
        return {str(norm(k)): norm(v) for k, v in x.items()}
    return x


def srt(x):
    return sorted(norm(x), key=lambda t: (t is None, t))


class OpTimeout(Exception):
    pass


def _alarm(signum, frame):
    raise OpTimeout()


def save_text(m, ext):
    path = os.path.join(TMP, 'out_%d.%s' % (random.getrandbits(40), ext))
    M.mesh.save(m, path)
    with open(path) as f:
        return f.read()


def battery(m):
    """name -> (thunk, mutating)"""
    ops = {}
    name = type(m).__name__

    def op(n, fn, mut=False):
        ops[n] = (fn, mut)
    nV = len(m.vertices)

    def generic():
        op('copy', lambda: snapshot(M.mesh.copy(m)))
        op('merge', lambda: snapshot(M.mesh.merge([m, m])), True)
        op('reorder_vertices', lambda: snapshot(M.mesh.reorder_vertices(m, list(range(nV))[::-1])), True)
        op('rewrap', lambda: snapshot(type(m)(RawMeshData(m))), True)
        for ext in ('mesh', 'obj', 'geogram_ascii'):
            op('save_' + ext, lambda ext=ext: save_text(m, ext), True)
        return ops
    if name == 'PointCloud':
        return generic()
    c = m.connectivity
    E = irows(m.edges)
    op('edge_id', lambda: [c.edge_id(a, b) for a, b in E] + [c.edge_id(b, a) for a, b in E])
    op('vertex_to_vertices', lambda: [srt(c.vertex_to_vertices(v)) for v in range(nV)])
    op('vertex_to_edges', lambda: [srt(c.vertex_to_edges(v)) for v in range(nV)])
    if name == 'PolyLine':
        op('other_edge_end', lambda: [c.other_edge_end(e, E[e][0]) for e in range(len(E))])
        op('edge_to_vertices', lambda: [norm(c.edge_to_vertices(e)) for e in range(len(E))])
        return generic()
    F = irows(m.faces)
    nF = len(F)
    op('face_id', lambda: [c.face_id(*f) for f in F] + [c.face_id(*f[::-1]) for f in F])
    op('vertex_to_faces', lambda: [srt(c.vertex_to_faces(v)) for v in range(nV)])
    op('vertex_to_corners', lambda: [srt(c.vertex_to_corners(v)) for v in range(nV)])
    op('face_to_vertices', lambda: [norm(c.face_to_vertices(f)) for f in range(nF)])
    op('face_to_edges', lambda: [norm(c.face_to_edges(f)) for f in range(nF)])
    op('face_to_faces', lambda: [srt(c.face_to_faces(f)) for f in range(nF)])
    op('face_to_corners', lambda: [norm(c.face_to_corners(f)) for f in range(nF)])
    op('in_face_index', lambda: [[c.in_face_index(f, v) for v in range(nV)] for f in range(nF)])
    op('vertex_to_corner_in_face', lambda: [[c.vertex_to_corner_in_face(v, f) for v in F[f]] for f in range(nF)])
    op('corner_to_half_edge', lambda: [norm(c.corner_to_half_edge(k)) for k in range(len(m.face_corners))])
    op('corner_to_face', lambda: [norm(c.corner_to_face(k)) for k in range(len(m.face_corners))])
    op('ith_vertex_of_face', lambda: [[norm(m.ith_vertex_of_face(f, i)) for i in range(len(F[f]))] for f in range(nF)])
    op('is_triangular', lambda: bool(m.is_triangular()))
    op('is_quad', lambda: bool(m.is_quad()))
    if name == 'SurfaceMesh':
        op('edge_to_faces', lambda: [norm(c.edge_to_faces(a, b)) for a, b in E])
        op('opposite_face', lambda: [[norm(c.opposite_face(f[i], f[(i + 1) % len(f)], k)) for i in range(len(f))] for k, f in enumerate(F)])
        op('common_edge', lambda: [[norm(c.common_edge(f, g)) for g in range(nF)] for f in range(nF)])
        op('boundary_edges', lambda: srt(m.boundary_edges))
        op('boundary_vertices', lambda: srt(m.boundary_vertices))
        op('is_edge_on_border', lambda: [bool(m.is_edge_on_border(a, b)) for a, b in E])

        def tri():
            with M.mesh.SurfaceSubdivision(m) as s:
                s.triangulate()
            return snapshot(m)
        op('triangulate', tri, True)
        return generic()
    Cl = irows(m.cells)
    nC = len(Cl)
    op('cell_to_face', lambda: [norm(c.cell_to_face(k)) for k in range(nC)])
    op('face_to_cells', lambda: [srt(c.face_to_cells(f)) for f in range(nF)])
    op('cell_to_cell', lambda: [srt(c.cell_to_cell(k)) for k in range(nC)])
    op('vertex_to_cell', lambda: [srt(c.vertex_to_cell(v)) for v in range(nV)])
    op('cell_to_vertex', lambda: [norm(c.cell_to_vertex(k)) for k in range(nC)])
    op('in_cell_index', lambda: [[c.in_cell_index(k, v) for v in range(nV)] for k in range(nC)])
    op('in_cell_face_index', lambda: [[c.in_cell_face_index(k, f) for f in range(nF)] for k in range(nC)])
    op('common_face', lambda: [[c.common_face(k, l) for l in range(nC)] for k in range(nC)])
    op('other_face_side', lambda: [[c.other_face_side(k, f) for f in range(nF)] for k in range(nC)])
    op('cell_to_edge', lambda: [srt(c.cell_to_edge(k)) for k in range(nC)])
    op('edge_to_cell', lambda: [srt(c.edge_to_cell(e)) for e in range(len(E))])
    op('edge_to_face', lambda: [srt(c.edge_to_face(e)) for e in range(len(E))])
    op('boundary_faces', lambda: srt(m.boundary_faces))
    op('boundary_edges', lambda: srt(m.boundary_edges))
    op('boundary_vertices', lambda: srt(m.boundary_vertices))
    op('is_tetrahedral', lambda: bool(m.is_tetrahedral()))
    op('is_cell_tet', lambda: [bool(m.is_cell_tet(k)) for k in range(nC)])

    def bnd():
        m.enable_boundary_connectivity()
        b = m.boundary_mesh
        return None if b is None else snapshot(b)
    op('boundary_mesh', bnd, True)

    def fan():
        with M.mesh.VolumeSubdivision(m) as s:
            s.split_cell_as_fan(0)
        return snapshot(m)
    op('split_cell_as_fan', fan, True)
    return generic()


def raise_site(e):
    import traceback
    site = None
    for fr in traceback.extract_tb(e.__traceback__):
        if '/mouette/' in fr.filename:
            site = '%s:%d %s' % (os.path.basename(fr.filename), fr.lineno, fr.name)
    return site


def run_op(fn):
    signal.signal(signal.SIGALRM, _alarm)
    signal.alarm(10)
    try:
        return ('ok', norm(fn()))
    except OpTimeout:
        return ('timeout', None)
    except Exception as e:
        return ('raised', '%s: %s' % (type(e).__name__, str(e)[:160]), raise_site(e))
    finally:
        signal.alarm(0)


def rows_variants(inp):
    out = [('raw', 'list'), ('raw', 'numpy')]
    if 'from_arrays' in routes_for(inp):
        out.append(('from_arrays', 'numpy'))
    return out


def check_rows(inp, sp, route, rows, only_op=None):
    """later behaviour with `rows` index rows (route raw / from_arrays) against the same mesh built from tuples"""
    R = {}
    inp = dict(inp)
    inp['V'] = [list(p) + [0.0] * (3 - len(p)) for p in inp['V']]     # this clause is about index rows only
    try:
        base = build(inp, 'raw', 'tuple', 'tuple', sp)
    except Exception as e:
        try:
            build(inp, route, rows, 'tuple', sp)
            other = 'succeeded'
        except Exception as e2:
            other = type(e2).__name__
        return {('rows', 'construct'): None if other == type(e).__name__ else '[rows/construct-differs] construction with tuple rows raised %s, with %s rows (%s) it %s' % (type(e).__name__, rows, route, other)}
    names = list(battery(base))
    for n in names:
        if only_op and n != only_op:
            continue
        res = []
        for (rt, rw) in (('raw', 'tuple'), (route, rows)):
            try:
                m = build(inp, rt, rw, 'tuple', sp)
                res.append(run_op(battery(m)[n][0]))
            except Exception as e:
                res.append(('raised', '%s: %s (while constructing)' % (type(e).__name__, e), raise_site(e)))
        a, b = res
        err = None
        if a[0] != b[0] or (a[0] == 'ok' and a[1] != b[1]) or (a[0] == 'raised' and a[1].split(':')[0] != b[1].split(':')[0]):
            sa, sb = repr(a)[:300], repr(b)[:300]
            if b[0] == 'raised':
                kind = '%s@%s' % (b[1].split(':')[0], (b[2] or '?').split(' ')[-1])
            else:
                kind = n + '-differs'
            err = '[rows/%s] %s with tuple rows -> %s ; with %s rows (%s) -> %s' % (kind, n, sa, rows, route, sb)
        R[('rows', n)] = err
    return R


# --------------------------------------------------------------------------------------------- input family
def A(name, typ, size, dense, values):
    return {'name': name, 'type': typ, 'size': size, 'dense': dense, 'values': {str(k): v for k, v in values.items()}}


def pts(n, dim=3):
    """n distinct deterministic points"""
    return [[float((7 * i) % 5), float((3 * i) % 4), float(i % 3 + (i // 3) * 0.5)][:dim] for i in range(n)]


CUBE = [[0., 0., 0.], [1., 0., 0.], [1., 1., 0.], [0., 1., 0.], [0., 0., 1.], [1., 0., 1.], [1., 1., 1.], [0., 1., 1.]]


def base_inputs():
    L = []

    def add(name, V, E=(), F=(), C=(), attrs=()):
        L.append({'name': name, 'V': [list(p) for p in V], 'E': [list(e) for e in E], 'F': [list(f) for f in F], 'C': [list(c) for c in C], 'attrs': list(attrs)})
    add('empty', [])
    add('points', pts(3))
    add('points2d', pts(4, 2))
    add('line', pts(5), E=[(0, 1), (2, 1), (3, 2), (4, 3)])
    add('line2d', pts(3, 2), E=[(1, 0), (1, 2)])
    Einv = [(1, 0), (2, 2), (2, 1), (3, 7), (4, 3), (-1, 2), (3, 2), (5, 0)]
    add('line_invalid', pts(5), E=Einv)
    add('line_all_invalid', pts(3), E=[(1, 1), (0, 3), (-1, 0)])
    add('line_dup', pts(3), E=[(0, 1), (1, 0), (1, 2)])
    n = len(Einv)
    add('line_attr_valid', pts(5), E=[(1, 0), (2, 1), (4, 3)], attrs=[
        A('w', 'float', 1, True, {0: 1.5, 1: 2.5, 2: 3.5}), A('s', 'int', 1, False, {1: 7}), A('v3', 'float', 3, False, {2: [1., 2., 3.]})])
    add('line_attr_sparse', pts(5), E=Einv, attrs=[
        A('s', 'int', 1, False, {1: 5, 2: 7, 6: 9}), A('b', 'bool', 1, False, {0: True, 3: True, 4: True}), A('f', 'float', 1, False, {3: 4.5, 5: 5.5, 7: 6.5}),
        A('v3', 'float', 3, False, {2: [1., 2., 3.], 3: [4., 5., 6.], 6: [7., 8., 9.]})])
    add('line_attr_dense', pts(5), E=Einv, attrs=[A('w', 'float', 1, True, {k: 10.5 + k for k in range(n)})])
    add('line_attr_dense_int', pts(5), E=Einv, attrs=[A('i', 'int', 1, True, {k: 100 + k for k in range(n)})])
    add('line_attr_dense_idx', pts(5), E=Einv, attrs=[A('i', 'int', 1, True, {k: (k + 1) % n for k in range(n)})])
    add('line_attr_dense3', pts(5), E=Einv, attrs=[A('d3', 'float', 3, True, {k: [k + .5, k + 1.5, k + 2.5] for k in range(n)})])
    sq = [[0., 0., 0.], [1., 0., 0.], [1., 1., 0.], [0., 1., 0.]]
    add('tri2', sq, F=[(0, 1, 2), (0, 2, 3)])
    add('tri2_2d', [p[:2] for p in sq], F=[(0, 1, 2), (0, 2, 3)])
    add('tri2_hard', sq, E=[(2, 0), (3, 1)], F=[(0, 1, 2), (0, 2, 3)], attrs=[A('w', 'float', 1, False, {0: 2.5, 1: 3.5}), A('d', 'int', 1, True, {0: 4, 1: 6})])
    add('tri2_hard_plain', sq, E=[(2, 0), (1, 0)], F=[(0, 1, 2), (0, 2, 3)])
    add('tri2_invalid', sq, E=[(2, 0), (1, 1), (3, 1), (0, 9), (-2, 1)], F=[(0, 1, 2), (0, 2, 3)],
        attrs=[A('w', 'float', 1, False, {0: 2.5, 1: 9.5, 2: 3.5}), A('d', 'float', 1, True, {k: 1.5 + k for k in range(5)})])
    add('tri2_invalid_plain', sq, E=[(2, 0), (1, 1), (3, 1), (0, 9)], F=[(0, 1, 2), (0, 2, 3)])
    add('tri2_dup_edges', sq, E=[(0, 2), (2, 0)], F=[(0, 1, 2), (0, 2, 3)])
    add('mixed', pts(9), E=[(4, 1), (8, 0)], F=[(0, 1, 4, 3), (1, 2, 5), (1, 5, 4), (3, 4, 7, 6, 8)])
    add('mixed_noedge', pts(9), F=[(0, 1, 4, 3), (1, 2, 5), (1, 5, 4), (3, 4, 7, 6, 8)])
    add('quads', pts(6), F=[(0, 1, 4, 3), (1, 2, 5, 4)])
    add('two_comp_isolated', pts(8), F=[(0, 1, 2), (2, 1, 3), (4, 5, 6)])
    add('degenerate_face', pts(4), F=[(0, 1, 1), (1, 2, 3)])
    add('dup_face', pts(4), F=[(0, 1, 2), (1, 2, 0), (1, 3, 2)])
    T5 = [[0., 0., 0.], [1., 0., 0.], [0., 1., 0.], [0., 0., 1.], [1., 1., 1.]]
    add('tet1', T5[:4], C=[(0, 1, 2, 3)])
    add('tet2', T5, C=[(0, 1, 2, 3), (1, 2, 3, 4)])
    add('tet2_declared', T5 + [[3., 3., 3.]], E=[(3, 0), (5, 0), (2, 2)], F=[(3, 2, 1), (0, 1, 5), (2, 0, 1)], C=[(0, 1, 2, 3), (1, 2, 3, 4)],
        attrs=[A('w', 'float', 1, False, {0: 1.5, 1: 2.5, 2: 3.5})])
    add('tet2_faces_edges', T5, E=[(3, 0)], F=[(3, 2, 1)], C=[(0, 1, 2, 3), (1, 2, 3, 4)])
    # every cell face declared by the caller: construction is possible with face completion switched off
    add('tet1_all_faces', T5[:4], F=[(1, 2, 3), (0, 3, 2), (0, 1, 3), (2, 1, 0)], C=[(0, 1, 2, 3)])
    add('tet2_all_faces', T5, E=[(4, 1)], F=[(1, 2, 3), (0, 3, 2), (0, 1, 3), (2, 1, 0), (4, 3, 2), (1, 3, 4), (1, 4, 2)], C=[(0, 1, 2, 3), (1, 2, 3, 4)])
    kuhn = []
    import itertools
    idx = lambda i, j, k: (i * 2 + j) * 2 + k
    for perm in itertools.permutations(range(3)):
        p = [0, 0, 0]; vs = [idx(*p)]
        for ax in perm:
            p = list(p); p[ax] += 1; vs.append(idx(*p))
        kuhn.append(vs)
    add('kuhn6', [[float(i), float(j), float(k)] for i in range(2) for j in range(2) for k in range(2)], C=kuhn)
    add('hex1', CUBE, C=[tuple(range(8))])
    add('hex1_declared', CUBE, E=[(6, 0)], F=[(3, 2, 1, 0), (5, 6, 7, 4)], C=[tuple(range(8))])
    add('hex1_all_faces', CUBE, F=[(3, 2, 1, 0), (4, 5, 6, 7), (0, 1, 5, 4), (1, 2, 6, 5), (2, 3, 7, 6), (3, 0, 4, 7)], C=[tuple(range(8))])
    V12 = CUBE + [[2., 0., 0.], [2., 1., 0.], [2., 0., 1.], [2., 1., 1.]]
    add('hex2', V12, C=[tuple(range(8)), (1, 8, 9, 2, 5, 10, 11, 6)])
    add('hex_tet', V12 + [[3., 0.5, 0.5]], C=[tuple(range(8)), (8, 9, 10, 12)])
    add('tet_hex', V12 + [[3., 0.5, 0.5]], C=[(8, 9, 10, 12), tuple(range(8))])
    return L


def random_inputs(seed, count):
    rnd = random.Random(seed)
    for g in range(count):
        nV = rnd.randint(4, 9)
        V = [[round(rnd.uniform(-2, 2), 3) for _ in range(3)] for _ in range(nV)]
        E, F, C, attrs = [], [], [], []
        kind = rnd.choice(['edges', 'surface', 'surface', 'volume', 'volume', 'all'])
        if kind in ('surface', 'all') or (kind == 'volume' and rnd.random() < 0.4):
            for _ in range(rnd.randint(1, 5)):
                F.append(rnd.sample(range(nV), min(nV, rnd.choice([3, 3, 3, 4, 4, 5]))))
        if kind in ('volume', 'all'):
            for _ in range(rnd.randint(1, 4)):
                if nV >= 8 and rnd.random() < 0.3:
                    C.append(rnd.sample(range(nV), 8))
                else:
                    C.append(rnd.sample(range(nV), 4))
            if rnd.random() < 0.5:           # declare one face of a cell, rotated / reflected
                lf = list(rnd.choice(local_faces(rnd.choice(C))))
                r = rnd.randrange(len(lf)); lf = lf[r:] + lf[:r]
                if rnd.random() < 0.5: lf = lf[::-1]
                F.append(lf)
        if kind in ('edges', 'all') or rnd.random() < 0.5:
            keys = set()
            for _ in range(rnd.randint(1, 6)):
                a, b = rnd.randrange(nV), rnd.randrange(nV)
                t = rnd.random()
                if t < 0.12: b = a
                elif t < 0.24: b = nV + rnd.randrange(3)
                elif t < 0.3: a = -1 - rnd.randrange(2)
                if sort2(a, b) in keys and rnd.random() < 0.8:
                    continue
                keys.add(sort2(a, b)); E.append([a, b])
            if E and rnd.random() < 0.7:
                for an in rnd.sample(['ws', 'wd', 'is', 'bs', 'v3s'], rnd.randint(1, 2)):
                    ks = [k for k in range(len(E)) if an == 'wd' or rnd.random() < 0.6]
                    if an == 'ws': attrs.append(A(an, 'float', 1, False, {k: k + 0.25 for k in ks}))
                    if an == 'wd': attrs.append(A(an, 'float', 1, True, {k: k + 0.75 for k in ks}))
                    if an == 'is': attrs.append(A(an, 'int', 1, False, {k: 50 + k for k in ks}))
                    if an == 'bs': attrs.append(A(an, 'bool', 1, False, {k: True for k in ks}))
                    if an == 'v3s': attrs.append(A(an, 'float', 3, False, {k: [k + .5, k + 1.5, k + 2.5] for k in ks}))
        yield {'name': 'rand%d_%d' % (seed, g), 'V': V, 'E': E, 'F': F, 'C': C, 'attrs': attrs}


# --------------------------------------------------------------------------------------------- driver
def descriptor(inp, route, rows, vrows, cef, cfc, clause, op):
    return {'input': inp['name'], 'V': inp['V'], 'E': inp['E'], 'F': inp['F'], 'C': inp['C'], 'attrs': inp.get('attrs') or [],
            'route': route, 'rows': rows, 'vrows': vrows, 'complete_edges_from_faces': cef, 'complete_faces_from_cells': cfc,
            'clause': clause, 'op': op}


def tag(err):
    mm = re.match(r'\[([^\]]+)\]', err or '')
    return mm.group(1) if mm else None


def evaluate(inp, route, rows, vrows, cef, cfc, group, only_op=None):
    """-> {(clause, op): err}; group in structure | rebuild | rows"""
    config.complete_edges_from_faces = cef
    config.complete_faces_from_cells = cfc
    try:
        eff = effective_input(inp, route)
        sp = spec(eff, cef, cfc)
        if group == 'rows':
            return check_rows(eff, sp, route, rows, only_op)
        try:
            m = build(eff, route, rows, vrows, sp)
        except Exception as e:
            import traceback
            tb = traceback.extract_tb(e.__traceback__)[-1]
            where = '%s:%d %s' % (os.path.basename(tb.filename), tb.lineno, tb.name)
            return {('construct', None): '[construct/%s@%s] construction raised %s: %s (at %s)' % (type(e).__name__, tb.name, type(e).__name__, str(e)[:200], where)}
        if group == 'structure':
            return check_structure(m, eff, sp)
        return check_rebuild(eff, route, rows, vrows, sp)
    finally:
        config.complete_edges_from_faces = True
        config.complete_faces_from_cells = True


GROUP_OF = {'rows': 'rows', 'rebuild': 'rebuild'}


def replay_case(c):
    inp = {'name': c.get('input'), 'V': c['V'], 'E': c['E'], 'F': c['F'], 'C': c['C'], 'attrs': c.get('attrs') or []}
    group = GROUP_OF.get(c['clause'], 'structure')
    R = evaluate(inp, c['route'], c['rows'], c['vrows'], c['complete_edges_from_faces'], c['complete_faces_from_cells'], group, c.get('op') if group == 'rows' else None)
    key = (c['clause'], c.get('op'))
    if key in R:
        return R[key]
    if ('construct', None) in R:      # the clause could not even be evaluated
        return R[('construct', None)]
    return None


def configurations(inp, thorough, rnd):
    """(route, rows, vrows, cef, cfc, group)"""
    routes = routes_for(inp)
    out = []
    for route in routes:
        if route in ('raw', 'ctor'):
            combos = [('tuple', 'tuple'), ('list', 'list'), ('numpy', 'numpy'), ('tuple', 'vec')] if route == 'raw' else [('list', 'vec'), ('numpy', 'tuple')]
        elif route == 'raw_prefilled':
            combos = [('list', 'vec')]
        elif route == 'from_arrays':
            combos = [('numpy', 'numpy')]
        else:
            combos = [('file', 'file')]
        for rows, vrows in combos:
            for cef in (True, False):
                for cfc in (True, False):
                    if not thorough and not (cef and cfc) and not (route == 'raw' and rows == 'tuple') and not (route.startswith('file') or route == 'from_arrays'):
                        continue
                    if not cfc and not inp['C']:
                        continue
                    if not cef and not (inp['F'] or inp['C']):
                        continue
                    out.append((route, rows, vrows, cef, cfc, 'structure'))
            out.append((route, rows, vrows, True, True, 'rebuild'))
    for route, rows in rows_variants(inp):
        out.append((route, rows, 'tuple', True, True, 'rows'))
    return out


def main():
    global TMP
    req = read_request()
    seed = int(req.get('seed', 0) or 0)
    thorough = req.get('tier') == 'thorough'
    mode = req.get('mode', 'bounded')      # 'search' is run like 'bounded' (the optional 'function' focus is ignored)
    TMP = tempfile.mkdtemp(prefix='c02_')
    try:
        if mode == 'replay':
            c = dict(req.get('case') or {})
            err = replay_case(c)
            if err:
                c['error'] = err
                respond(failing=c, cases=1)
            respond(failing=None, cases=1)
        known = req.get('known') or []
        known_desc = []
        known_hit, known_tags = [], set()
        for k in known:
            d = {x: y for x, y in k.items() if x != 'error'}
            known_desc.append(d)
            try:
                err = replay_case(d)
            except Exception as e:
                err = '[replay/raised] %s: %s' % (type(e).__name__, e)
            if err:
                known_hit.append(k)
                known_tags.add(tag(err))
        bud = Budget(270 if thorough else 50)
        rnd = random.Random(seed)
        inputs = base_inputs() + list(random_inputs(seed, 200 if thorough else 40))
        if thorough:
            inputs += list(random_inputs(seed + 1, 200))
        n = 0
        same = Counter()
        truncated = False
        for inp in inputs:
            for (route, rows, vrows, cef, cfc, group) in configurations(inp, thorough, rnd):
                if bud.over():
                    truncated = True
                    break
                try:
                    R = evaluate(inp, route, rows, vrows, cef, cfc, group)
                except Exception as e:
                    import traceback
                    R = {('oracle', None): '[oracle/raised] the oracle itself raised %s: %s %s' % (type(e).__name__, e, traceback.format_exc()[-400:])}
                for (clause, op), err in R.items():
                    n += 1
                    if not err:
                        continue
                    d = descriptor(inp, route, rows, vrows, cef, cfc, clause, op)
                    if json.loads(json.dumps(d)) in known_desc:
                        continue
                    if tag(err) in known_tags:
                        same[tag(err)] += 1
                        continue
                    d['error'] = err
                    respond(failing=d, cases=n, known_hit=known_hit, same_as_known=dict(same))
            if truncated:
                break
        respond(failing=None, cases=n, known_hit=known_hit, same_as_known=dict(same), note='time budget reached, family truncated' if truncated else None)
    finally:
        shutil.rmtree(TMP, ignore_errors=True)


main()
