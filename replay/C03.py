"""C03 native oracle: every volume-connectivity answer of a tetrahedral mesh, its border/interior classification and
its extracted boundary surface (VolumeMesh._BoundaryConnectivity and processing.extract_boundary_of_volume) against a
direct inspection of the raw cell list, for fresh meshes (each query kind issued first) and in shuffled query orders,
neighbourhood sorting on and off.

Case dict: {'mesh','V','C','F','E','lists','sort','first','seed','clause','query','sig','error'}
  V/C       explicit vertex coordinates / cells (4 vertex ids each) handed to RawMeshData
  F/E       faces / edges put into RawMeshData *before* the cells complete them (None: nothing explicit)
  lists     cells/faces stored as python lists (as the medit/geogram loaders do) instead of tuples
  sort      value of config.sort_neighborhoods
  first     True: the query kind `clause` is the very first connectivity request on a fresh mesh;
            False: all queries are issued in the order random.Random(seed).shuffle gives
  clear     (optional) after that pass connectivity.clear() is called and everything is asked again in another order
  clause    query kind (check site), query: the individual request, sig: kind of discrepancy

"known" handling: every known case is replayed first; the ones that still fail are returned in known_hit.  A failure of
the family is skipped when its descriptor (case without 'error') equals a known one, or when it has the same
(clause, sig) as a known case that was re-confirmed in this run (the same defect showing on another mesh), or when it is
an exception with the same sig (exception type @ raising library function) as a re-confirmed known case.
"""
import itertools, random
import numpy as np
from replay.common import *
import mouette as M
from mouette import config
from mouette.processing import extract_boundary_of_volume


# ------------------------------------------------------------------------------------------------ input family

def det4(P, c):
    a, b, cc, d = (np.asarray(P[i], float) for i in c)
    return float(np.linalg.det(np.array([b - a, cc - a, d - a])))


def positive(P, cells):
    """same cells, every one with det(v1-v0, v2-v0, v3-v0) > 0"""
    out = []
    for c in cells:
        c = tuple(int(x) for x in c)
        if det4(P, c) < 0:
            c = (c[0], c[1], c[3], c[2])
        out.append(c)
    return out


def kuhn(nx, ny, nz, skip=()):
    idx = lambda i, j, k: (i * (ny + 1) + j) * (nz + 1) + k
    P = [(float(i) + 0.05 * j, float(j) + 0.03 * k, float(k) + 0.02 * i * j) for i in range(nx + 1) for j in range(ny + 1) for k in range(nz + 1)]
    C = []
    for i in range(nx):
        for j in range(ny):
            for k in range(nz):
                if (i, j, k) in skip:
                    continue
                for perm in itertools.permutations(range(3)):
                    p = [i, j, k]
                    verts = [idx(*p)]
                    for ax in perm:
                        p = list(p); p[ax] += 1
                        verts.append(idx(*p))
                    C.append(tuple(verts))
    return P, C


def fan(n, closed):
    """n ring points around the edge (0,1); closed: n tets, open: n-1 tets"""
    span = 2 * np.pi if closed else 1.5 * np.pi
    P = [(0.1, 0.0, -1.0), (0.0, 0.05, 1.0)]
    for k in range(n):
        t = span * k / (n if closed else n - 1)
        P.append(((1 + 0.1 * k) * np.cos(t), (1 + 0.07 * k) * np.sin(t), 0.05 * k))
    C = [(0, 1, 2 + k, 2 + (k + 1) % n) for k in range(n if closed else n - 1)]
    return P, C


def base_meshes(seed, thorough):
    """(name, P, C, small) -- C normalised to positive orientation; 'small' meshes also get all 24 orders of cell 0"""
    T = [(0., 0., 0.), (1., 0., 0.), (0., 1., 0.), (0., 0., 1.)]
    out = [('tet1', T, [(0, 1, 2, 3)], True),
           ('tet2', T + [(1., 1., 1.)], [(0, 1, 2, 3), (1, 2, 3, 4)], True)]
    for n in (3, 4, 5) + ((6, 7) if thorough else ()):
        out.append(('fan_closed%d' % n,) + fan(n, True) + (n == 3,))
    for n in (3, 4) + ((5, 6) if thorough else ()):
        out.append(('fan_open%d' % n,) + fan(n, False) + (False,))
    out.append(('kuhn111',) + kuhn(1, 1, 1) + (True,))
    # a vertex strictly inside: 4 tets around the centroid, 8 tets around the centre of an octahedron
    out.append(('star4', T + [(0.25, 0.2, 0.3)], [(1, 2, 3, 4), (0, 2, 3, 4), (0, 1, 3, 4), (0, 1, 2, 4)], False))
    O = [(1.1, 0, 0), (-1, 0.1, 0), (0, 1.2, 0), (0, -1, 0.1), (0.1, 0, 1), (0, 0, -1.3), (0.05, 0.02, 0.01)]
    out.append(('star8', O, [(6, a, b, c) for a in (0, 1) for b in (2, 3) for c in (4, 5)], False))
    out.append(('tet2_unused_vertex', T + [(1., 1., 1.), (5., 5., 5.)], [(0, 1, 2, 3), (1, 2, 3, 4)], False))
    out.append(('two_components', T + [(p[0] + 3, p[1], p[2]) for p in T], [(0, 1, 2, 3), (4, 5, 6, 7)], False))
    out.append(('kuhn211',) + kuhn(2, 1, 1) + (False,))
    out.append(('kuhn222',) + kuhn(2, 2, 2) + (False,))
    try:
        from scipy.spatial import Delaunay
        rnd = np.random.RandomState(1000 + seed)
        for n in (8, 11) + ((14, 20) if thorough else ()):
            pts = rnd.rand(n, 3)
            out.append(('delaunay%d' % n, [tuple(map(float, p)) for p in pts], [tuple(map(int, s)) for s in Delaunay(pts).simplices], False))
    except ImportError:
        pass
    if thorough:
        out.append(('kuhn321',) + kuhn(3, 2, 1) + (False,))
    # a cavity: the border surface has two components
    out.append(('kuhn333_hollow',) + kuhn(3, 3, 3, skip=((1, 1, 1),)) + (False,))
    # conforming but not manifold: two tets meeting in one vertex / in one edge only
    out.append(('touch_vertex', T + [(-1., 0., 0.), (0., -1., 0.), (0., 0., -1.)], [(0, 1, 2, 3), (0, 4, 5, 6)], False))
    out.append(('touch_edge', T + [(-1., -1., 0.2), (-0.5, -1., 1.)], [(0, 1, 2, 3), (0, 3, 4, 5)], False))
    return [(name, [tuple(map(float, p)) for p in P], positive(P, C), small) for name, P, C, small in out]


EVEN = [p for p in itertools.permutations(range(4)) if sum(1 for i in range(4) for j in range(i) if p[j] > p[i]) % 2 == 0]
ALL24 = list(itertools.permutations(range(4)))


def renumber(P, C, perm):
    P2 = [None] * len(P)
    for old, new in enumerate(perm):
        P2[new] = P[old]
    return P2, [tuple(perm[v] for v in c) for c in C]


def variants(name, P, C, small, rnd, thorough):
    """yield (variant name, P, C, F, E, lists)"""
    yield 'pos', P, C, None, None, False
    yield 'neg', P, [(c[0], c[1], c[3], c[2]) for c in C], None, None, False
    if name in ('tet2', 'fan_closed4', 'kuhn111', 'star8'):
        for sc in (1e-4, 1e5):
            yield 'scaled%g' % sc, [tuple(sc * x - 3 * sc for x in p) for p in P], C, None, None, False
    if small:
        for k, p in enumerate(ALL24[1:], 1):
            yield 'order%d' % k, P, [tuple(C[0][i] for i in p)] + C[1:], None, None, False
    for r in range(6 if thorough else 1):
        perm = list(range(len(P))); rnd.shuffle(perm)
        P2, C2 = renumber(P, C, perm)
        rnd.shuffle(C2)
        yield 'renum_pos%d' % r, P2, [tuple(c[i] for i in rnd.choice(EVEN)) for c in C2], None, None, False
        perm = list(range(len(P))); rnd.shuffle(perm)
        P2, C2 = renumber(P, C, perm)
        rnd.shuffle(C2)
        yield 'renum_mixed%d' % r, P2, [tuple(c[i] for i in rnd.choice(ALL24)) for c in C2], None, None, True
        # faces / edges already present in the raw data (a .mesh file lists the border triangles before the tetrahedra)
        perm = list(range(len(P))); rnd.shuffle(perm)
        P2, C2 = renumber(P, C, perm)
        C2 = [tuple(c[i] for i in rnd.choice(EVEN)) for c in C2]
        cnt = {}
        for c in C2:
            for i in range(4):
                cnt.setdefault(tuple(sorted(c[:i] + c[i + 1:])), []).append(c)
        F = [k for k in sorted(cnt) if len(cnt[k]) == 1 or rnd.random() < 0.3]
        rnd.shuffle(F)
        F = [tuple(f[i] for i in rnd.choice(list(itertools.permutations(range(3))))) for f in F]
        E = sorted({tuple(sorted((c[i], c[j]))) for c in C2 for i in range(4) for j in range(i)})
        E = [e if rnd.random() < 0.5 else (e[1], e[0]) for e in E if rnd.random() < 0.4]
        rnd.shuffle(E)
        yield 'explicit%d' % r, P2, C2, F, E, bool(r % 2 == 0)


def build(V, C, F, E, lists):
    raw = M.mesh.RawMeshData()
    raw.vertices += [M.Vec(*p) for p in V]
    conv = list if lists else tuple
    if E:
        raw.edges += [tuple(e) for e in E]
    if F:
        raw.faces += [conv(f) for f in F]
    raw.cells += [conv(c) for c in C]
    return M.mesh.VolumeMesh(raw)


# ------------------------------------------------------------------------------------------------ direct inspection

def key(*vs):
    return tuple(sorted(int(v) for v in vs))


class Spec:
    def __init__(self, V, C):
        self.P = np.array(V, float)
        self.C = [tuple(int(x) for x in c) for c in C]
        self.nV = len(V)
        self.f2c, self.e2c, self.v2c = {}, {}, {v: [] for v in range(self.nV)}
        for ci, c in enumerate(self.C):
            for i in range(4):
                self.f2c.setdefault(key(*(c[:i] + c[i + 1:])), []).append(ci)
                for j in range(i):
                    self.e2c.setdefault(key(c[i], c[j]), []).append(ci)
                self.v2c[c[i]].append(ci)
        self.border_faces = {k for k, l in self.f2c.items() if len(l) == 1}
        self.border_edges = {key(f[i], f[j]) for f in self.border_faces for i in range(3) for j in range(i)}
        self.border_vertices = {v for f in self.border_faces for v in f}
        self.signs = [np.sign(det4(self.P, c)) for c in self.C]

    def opp_face(self, ci, i):
        c = self.C[ci]
        return key(*(c[:i] + c[i + 1:]))

    def neighbour(self, ci, i):
        l = [x for x in self.f2c[self.opp_face(ci, i)] if x != ci]
        return l[0] if l else None

    def link(self, a, b):
        """cells around edge (a,b): {cell: (p,q)}; returns (others, manifold, closed)"""
        others = {ci: tuple(x for x in self.C[ci] if x not in (a, b)) for ci in self.e2c[key(a, b)]}
        adj = {}
        for ci, (p, q) in others.items():
            adj.setdefault(p, []).append(q)
            adj.setdefault(q, []).append(p)
        start = next(iter(adj))
        seen, todo = {start}, [start]
        while todo:
            x = todo.pop()
            for y in adj[x]:
                if y not in seen:
                    seen.add(y); todo.append(y)
        deg1 = sum(1 for x in adj if len(adj[x]) == 1)
        manifold = len(seen) == len(adj) and all(len(l) <= 2 for l in adj.values()) and deg1 in (0, 2)
        return others, manifold, deg1 == 0

    def outward(self, tri):
        """tri: 3 volume vertex ids of a border face, in the order to be judged"""
        ci = self.f2c[key(*tri)][0]
        d = [x for x in self.C[ci] if x not in tri][0]
        pa, pb, pc, pd = (self.P[x] for x in (tri[0], tri[1], tri[2], d))
        return float(np.dot(np.cross(pb - pa, pc - pa), pd - pa)) < 0


def surface_problems(sp, faces_vol, want_oriented):
    """faces_vol: the faces of an extracted surface written with volume vertex ids.
    -> dict sig -> message for: exactly the border faces / closed / outward"""
    pb = {}
    got = sorted(key(*f) for f in faces_vol)
    exp = sorted(sp.border_faces)
    if got != exp:
        miss = sorted(set(exp) - set(got)); extra = sorted(set(got) - set(exp))
        pb['faces'] = 'surface has %d faces, the cell list has %d border faces; missing %r, not border %r, repeated %r' % (
            len(got), len(exp), miss[:4], extra[:4], sorted({k for k in got if got.count(k) > 1})[:4])
    und, dire = {}, {}
    for f in faces_vol:
        for i in range(3):
            a, b = int(f[i]), int(f[(i + 1) % 3])
            und[key(a, b)] = und.get(key(a, b), 0) + 1
            dire[(a, b)] = dire.get((a, b), 0) + 1
    odd = sorted(e for e, n in und.items() if n % 2 or n < 2)
    if odd:
        pb['closed'] = 'surface is not closed: edges %r lie in an odd number of its faces' % (odd[:5],)
    if want_oriented:
        inward = [tuple(int(x) for x in f) for f in faces_vol if key(*f) in sp.border_faces and not sp.outward(f)]
        if inward:
            pb['orientation'] = '%d of %d surface faces point into their cell (e.g. %r, whose cell is %r)' % (
                len(inward), len(faces_vol), inward[0], sp.C[sp.f2c[key(*inward[0])][0]])
        elif 'faces' not in pb:
            unb = sorted(e for e in dire if dire[e] != dire.get((e[1], e[0]), 0))
            if unb:
                pb['orientation'] = 'half-edges %r are not matched by an opposite one' % (unb[:5],)
    return pb


def inverse_problem(name, m2b, b2m, dom_m, dom_b):
    if sorted(m2b.keys()) != sorted(dom_m):
        return '%s: volume->surface map is defined on %r, expected the border elements %r' % (name, sorted(m2b.keys())[:12], sorted(dom_m)[:12])
    if sorted(b2m.keys()) != sorted(dom_b):
        return '%s: surface->volume map is defined on %r, expected %r' % (name, sorted(b2m.keys())[:12], sorted(dom_b)[:12])
    for x, y in m2b.items():
        if b2m.get(y, None) != x:
            return '%s: volume %r -> surface %r -> volume %r' % (name, x, y, b2m.get(y, None))
    for y, x in b2m.items():
        if m2b.get(x, None) != y:
            return '%s: surface %r -> volume %r -> surface %r' % (name, y, x, m2b.get(x, None))
    return None


# ------------------------------------------------------------------------------------------------ the queries

def queries(m, sp, sort_flag, explicit_faces):
    """list of (clause, query label, thunk); a thunk returns None or (sig, message)"""
    c = m.connectivity
    qs = []
    fkeys = [key(*f) for f in m.faces]
    ekeys = [key(*e) for e in m.edges]
    if sorted(fkeys) != sorted(sp.f2c) or sorted(ekeys) != sorted(sp.e2c):
        msg = 'mesh.faces / mesh.edges are not exactly the triangles / segments of the cells: %d faces (expected %d), %d edges (expected %d)' % (
            len(fkeys), len(sp.f2c), len(ekeys), len(sp.e2c))
        return [('containers', 'faces+edges', lambda: ('elements', msg))]
    fid = {k: i for i, k in enumerate(fkeys)}
    eid = {k: i for i, k in enumerate(ekeys)}

    def q(clause, label, fn):
        qs.append((clause, label, fn))

    def eq(clause, label, get, exp, norm=lambda x: x, sig='value'):
        def thunk():
            got = get()
            try:
                g = norm(got)
            except Exception:
                return (sig, '%s = %r, expected %r' % (label, got, exp))
            return None if g == exp else (sig, '%s = %r, expected %r' % (label, got, exp))
        q(clause, label, thunk)

    aslist = lambda x: [int(v) for v in x]
    asset = lambda x: sorted(int(v) for v in x)         # sorted list: keeps repetitions visible
    optint = lambda x: None if x is None else int(x)

    # raw containers of mesh_data (cell corners / cell faces)
    for ci, cell in enumerate(sp.C):
        for i in range(4):
            k = 4 * ci + i
            eq('cell_faces.element', 'cell_faces.element(%d)' % k, lambda k=k: m.cell_faces.element(k), fid[sp.opp_face(ci, i)], int)
            eq('cell_faces.adj', 'cell_faces.adj(%d)' % k, lambda k=k: m.cell_faces.adj(k), ci, int)
            eq('cell_corners', 'cell_corners.element(%d)' % k, lambda k=k: m.cell_corners.element(k), cell[i], int)
            eq('cell_corners', 'cell_corners.adj(%d)' % k, lambda k=k: m.cell_corners.adj(k), ci, int)

    # faces <-> cells
    for f, k in enumerate(fkeys):
        eq('face_to_cells', 'face_to_cells(%d)' % f, lambda f=f: c.face_to_cells(f), sorted(sp.f2c[k]), asset)
        eq('n_F2C', 'n_F2C(%d)' % f, lambda f=f: c.n_F2C(f), len(sp.f2c[k]), int)
        eq('is_face_on_border', 'is_face_on_border(%d)' % f, lambda f=f: m.is_face_on_border(f), k in sp.border_faces, bool)
        tri = (k[1], k[2], k[0]) if f % 2 else (k[2], k[1], k[0])
        eq('is_face_on_border_vertices', 'is_face_on_border%r' % (tri,), lambda tri=tri: m.is_face_on_border(*tri), k in sp.border_faces, bool)
    for ci, cell in enumerate(sp.C):
        eq('cell_to_face', 'cell_to_face(%d)' % ci, lambda ci=ci: c.cell_to_face(ci), [fid[sp.opp_face(ci, i)] for i in range(4)], aslist)
        nb = [sp.neighbour(ci, i) for i in range(4)]
        eq('cell_to_cell', 'cell_to_cell(%d)' % ci, lambda ci=ci: c.cell_to_cell(ci), sorted(x for x in nb if x is not None), asset)
        eq('cell_to_vertex', 'cell_to_vertex(%d)' % ci, lambda ci=ci: c.cell_to_vertex(ci), list(cell), aslist)
        eq('cell_to_edge', 'cell_to_edge(%d)' % ci, lambda ci=ci: c.cell_to_edge(ci), sorted(eid[key(cell[i], cell[j])] for i in range(4) for j in range(i)), asset)
        for i in range(4):
            f = fid[sp.opp_face(ci, i)]
            eq('other_face_side', 'other_face_side(%d,%d)' % (ci, f), lambda ci=ci, f=f: c.other_face_side(ci, f), nb[i], optint)
            eq('in_cell_face_index', 'in_cell_face_index(%d,%d)' % (ci, f), lambda ci=ci, f=f: c.in_cell_face_index(ci, f), i, optint)
            eq('in_cell_index', 'in_cell_index(%d,%d)' % (ci, cell[i]), lambda ci=ci, v=cell[i]: c.in_cell_index(ci, v), i, optint)
            if nb[i] is not None:
                eq('common_face', 'common_face(%d,%d)' % (ci, nb[i]), lambda ci=ci, o=nb[i]: c.common_face(ci, o), f, optint)
        foreign = [f for f, k in enumerate(fkeys) if ci not in sp.f2c[k]]
        if foreign:
            f = foreign[ci % len(foreign)]
            eq('other_face_side', 'other_face_side(%d,%d)' % (ci, f), lambda ci=ci, f=f: c.other_face_side(ci, f), None, optint)
            eq('in_cell_face_index', 'in_cell_face_index(%d,%d)' % (ci, f), lambda ci=ci, f=f: c.in_cell_face_index(ci, f), None, optint)
        far = [o for o in range(len(sp.C)) if o != ci and o not in nb]
        if far:
            o = far[ci % len(far)]
            eq('common_face', 'common_face(%d,%d)' % (ci, o), lambda ci=ci, o=o: c.common_face(ci, o), None, optint)
        out = [v for v in range(sp.nV) if v not in cell]
        if out:
            eq('in_cell_index', 'in_cell_index(%d,%d)' % (ci, out[0]), lambda ci=ci, v=out[0]: c.in_cell_index(ci, v), None, optint)

    # edges -> cells / faces, rotational order
    for e, (a, b) in enumerate(ekeys):
        cells = sorted(sp.e2c[(a, b)])
        faces = sorted(fid[k] for k in sp.f2c if a in k and b in k)
        eq('edge_to_cell', 'edge_to_cell(%d)' % e, lambda e=e: c.edge_to_cell(e), cells, asset)
        eq('edge_to_face', 'edge_to_face(%d)' % e, lambda e=e: c.edge_to_face(e), faces, asset)
        eq('is_edge_on_border', 'is_edge_on_border(%d)' % e, lambda e=e: m.is_edge_on_border(e), (a, b) in sp.border_edges, bool)
        uv = (a, b) if e % 2 else (b, a)
        eq('is_edge_on_border_vertices', 'is_edge_on_border%r' % (uv,), lambda uv=uv: m.is_edge_on_border(*uv), (a, b) in sp.border_edges, bool)
        others, manifold, closed = sp.link(a, b)
        if not (sort_flag and manifold):
            continue
        third = lambda f, a=a, b=b: [x for x in fkeys[f] if x not in (a, b)][0]
        pairs = {frozenset(o) for o in others.values()}

        def cells_in_order(L, others=others, closed=closed):
            n = len(L)
            if sorted(L) != sorted(others):
                return False
            rng = range(n) if (closed and n > 2) else range(n - 1)
            return all(len(set(others[L[i]]) & set(others[L[(i + 1) % n]])) == 1 for i in rng)

        def faces_in_order(T, pairs=pairs, closed=closed):
            n = len(T)
            rng = range(n) if (closed and n > 2) else range(n - 1)
            return all(frozenset((T[i], T[(i + 1) % n])) in pairs for i in rng)

        def order_cells(e=e, cio=cells_in_order):
            L = aslist(c.edge_to_cell(e))
            return None if cio(L) else ('order', 'edge_to_cell(%d) = %r: successive cells do not share a face around edge %r' % (e, L, ekeys[e]))

        def order_faces(e=e, fio=faces_in_order, third=third, faces=faces):
            L = aslist(c.edge_to_face(e))
            if sorted(L) != faces:
                return ('order', 'edge_to_face(%d) = %r, expected the faces %r' % (e, L, faces))
            return None if fio([third(f) for f in L]) else ('order', 'edge_to_face(%d) = %r: successive faces do not bound a common cell around edge %r' % (e, L, ekeys[e]))

        def same_direction(e=e, cio=cells_in_order, fio=faces_in_order, third=third, others=others, closed=closed, faces=faces):
            L, Lf = aslist(c.edge_to_cell(e)), aslist(c.edge_to_face(e))
            if not cio(L) or sorted(Lf) != faces or not fio([third(f) for f in Lf]):
                return None                                  # reported by the two order clauses
            T, n = [third(f) for f in Lf], len(L)
            if n == 1:
                return None
            g = [(set(others[L[i]]) & set(others[L[(i + 1) % n]])).pop() for i in (range(n) if closed else range(n - 1))]
            if closed:
                ok = any(T[s:] + T[:s] == g for s in range(n))
            else:
                b0 = [x for x in others[L[0]] if x != g[0]][0]
                b1 = [x for x in others[L[-1]] if x != g[-1]][0]
                ok = T == [b0] + g + [b1]
            return None if ok else ('direction', 'around edge %r edge_to_cell = %r and edge_to_face = %r (third vertices %r) turn in opposite directions' % (ekeys[e], L, Lf, T))
        q('edge_to_cell_order', 'edge_to_cell_order(%d)' % e, order_cells)
        q('edge_to_face_order', 'edge_to_face_order(%d)' % e, order_faces)
        q('edge_rotation_direction', 'edge_rotation_direction(%d)' % e, same_direction)

    for v in range(sp.nV):
        eq('vertex_to_cell', 'vertex_to_cell(%d)' % v, lambda v=v: c.vertex_to_cell(v), sorted(sp.v2c[v]), asset)
        eq('is_vertex_on_border', 'is_vertex_on_border(%d)' % v, lambda v=v: m.is_vertex_on_border(v), v in sp.border_vertices, bool)

    bf = sorted(fid[k] for k in sp.border_faces)
    be = sorted(eid[k] for k in sp.border_edges)
    bv = sorted(sp.border_vertices)
    eq('boundary_faces', 'boundary_faces', lambda: m.boundary_faces, bf, asset)
    eq('interior_faces', 'interior_faces', lambda: m.interior_faces, sorted(set(range(len(fkeys))) - set(bf)), asset)
    eq('boundary_edges', 'boundary_edges', lambda: m.boundary_edges, be, asset)
    eq('interior_edges', 'interior_edges', lambda: m.interior_edges, sorted(set(range(len(ekeys))) - set(be)), asset)
    eq('boundary_vertices', 'boundary_vertices', lambda: m.boundary_vertices, bv, asset)
    eq('interior_vertices', 'interior_vertices', lambda: m.interior_vertices, sorted(set(range(sp.nV)) - set(bv)), asset)

    # boundary surface held by the volume mesh
    state = {}

    def bc():
        if 'bc' not in state:
            m.enable_boundary_connectivity()
            state['bc'] = m.boundary_connectivity
        return state['bc']

    def bc_surface(sig):
        def thunk():
            b = bc()
            s = b.mesh
            try:
                fv = [tuple(b.b2m_vertex[x] for x in f) for f in s.faces]
            except KeyError as ex:
                return (sig, 'boundary face uses surface vertex %s which b2m_vertex does not know' % ex) if sig == 'faces' else None
            pb = surface_problems(sp, fv, True)
            return (sig, 'boundary_connectivity.mesh: ' + pb[sig]) if sig in pb else None
        return thunk
    for sig in ('faces', 'closed', 'orientation'):
        q('boundary_connectivity.' + sig, 'boundary_connectivity.mesh', bc_surface(sig))

    def bc_vertex_maps():
        b = bc()
        err = inverse_problem('vertices', b.m2b_vertex, b.b2m_vertex, bv, range(len(b.mesh.vertices)))
        if err is None and len(b.mesh.vertices) != len(bv):
            err = 'surface has %d vertices, the cells have %d border vertices' % (len(b.mesh.vertices), len(bv))
        if err is None:
            for i in range(len(b.mesh.vertices)):
                if not np.array_equal(np.asarray(b.mesh.vertices[i], float), sp.P[b.b2m_vertex[i]]):
                    err = 'surface vertex %d is at %r but maps to volume vertex %d at %r' % (i, list(b.mesh.vertices[i]), b.b2m_vertex[i], sp.P[b.b2m_vertex[i]].tolist())
                    break
        return ('maps', 'boundary_connectivity ' + err) if err else None

    def bc_face_maps():
        b = bc()
        err = inverse_problem('faces', b.m2b_face, b.b2m_face, bf, range(len(b.mesh.faces)))
        if err is None:
            for i, f in enumerate(b.mesh.faces):
                if key(*(b.b2m_vertex[x] for x in f)) != fkeys[b.b2m_face[i]]:
                    err = 'surface face %d = %r (volume vertices %r) maps to volume face %d = %r' % (i, tuple(f), tuple(b.b2m_vertex[x] for x in f), b.b2m_face[i], tuple(m.faces[b.b2m_face[i]]))
                    break
        return ('maps', 'boundary_connectivity ' + err) if err else None

    def bc_edge_maps():
        b = bc()
        err = inverse_problem('edges', b.m2b_edge, b.b2m_edge, be, range(len(b.mesh.edges)))
        if err is None:
            for i, ed in enumerate(b.mesh.edges):
                if key(*(b.b2m_vertex[x] for x in ed)) != ekeys[b.b2m_edge[i]]:
                    err = 'surface edge %d = %r (volume vertices %r) maps to volume edge %d = %r' % (i, tuple(ed), tuple(b.b2m_vertex[x] for x in ed), b.b2m_edge[i], tuple(m.edges[b.b2m_edge[i]]))
                    break
        return ('maps', 'boundary_connectivity ' + err) if err else None

    def bc_property():
        b = bc()
        return None if m.boundary_mesh is b.mesh else ('value', 'boundary_mesh is %r, not boundary_connectivity.mesh' % (m.boundary_mesh,))
    q('boundary_connectivity.vertex_maps', 'boundary_connectivity.m2b_vertex/b2m_vertex', bc_vertex_maps)
    q('boundary_connectivity.face_maps', 'boundary_connectivity.m2b_face/b2m_face', bc_face_maps)
    q('boundary_connectivity.edge_maps', 'boundary_connectivity.m2b_edge/b2m_edge', bc_edge_maps)
    q('boundary_mesh', 'boundary_mesh', bc_property)

    # stand-alone extractor
    def ex():
        if 'ex' not in state:
            state['ex'] = extract_boundary_of_volume(m)
        return state['ex']
    # 'positively oriented' in the library's own sense (volume.py: det(pA-pD, pB-pD, pC-pD) > 0 for a cell (A,B,C,D)),
    # which is the opposite sign of det(v1-v0, v2-v0, v3-v0)
    all_positive = all(s < 0 for s in sp.signs)

    def ex_surface(sig):
        def thunk():
            s, m2b, b2m = ex()
            try:
                fv = [tuple(b2m[x] for x in f) for f in s.faces]
            except KeyError as e_:
                return (sig, 'surface face uses vertex %s unknown to the surface->volume map' % e_) if sig == 'faces' else None
            pb = surface_problems(sp, fv, all_positive and not explicit_faces)
            return (sig, 'extract_boundary_of_volume: ' + pb[sig] + (' -- all cells satisfy det(pA-pD,pB-pD,pC-pD) > 0' if sig == 'orientation' else '')) if sig in pb else None
        return thunk
    for sig in ('faces', 'closed') + (('orientation',) if all_positive and not explicit_faces else ()):
        q('extract_boundary_of_volume.' + sig, 'extract_boundary_of_volume(mesh)', ex_surface(sig))

    def ex_maps():
        s, m2b, b2m = ex()
        err = inverse_problem('vertices', m2b, b2m, bv, range(len(s.vertices)))
        if err is None:
            for i in range(len(s.vertices)):
                if not np.array_equal(np.asarray(s.vertices[i], float), sp.P[b2m[i]]):
                    err = 'surface vertex %d is at %r but maps to volume vertex %d at %r' % (i, list(s.vertices[i]), b2m[i], sp.P[b2m[i]].tolist())
                    break
        return ('maps', 'extract_boundary_of_volume ' + err) if err else None
    q('extract_boundary_of_volume.vertex_maps', 'extract_boundary_of_volume(mesh) maps', ex_maps)
    return qs


# ------------------------------------------------------------------------------------------------ running

def raise_sig(e):
    """exception type + innermost named library function on the traceback: identifies the defect whatever query met it"""
    import traceback
    where = '?'
    for fr in traceback.extract_tb(e.__traceback__):
        if '/mouette/' in fr.filename and not fr.name.startswith('<'):
            where = fr.name
            if fr.name.startswith(('_compute_', '_sort_', '_extract_')):
                ABANDON[0] = True       # escaped from a lazy table construction: the mesh object is left half-initialised
    return 'raise:%s@%s' % (type(e).__name__, where)


ABANDON = [False]


def call(fn, label):
    try:
        r = fn()
    except Exception as e:
        return (raise_sig(e), '%s raised %s: %s' % (label, type(e).__name__, e))
    return r


def run_case(d):
    """d: descriptor with mesh, V, C, F, E, lists, sort, first, seed (+ clause when first).  -> list of failing descriptors"""
    old = config.sort_neighborhoods
    config.sort_neighborhoods = bool(d['sort'])
    fails = []
    base = {k: d[k] for k in ('mesh', 'V', 'C', 'F', 'E', 'lists', 'sort', 'first', 'seed')}
    if d.get('clear'):
        base['clear'] = True

    def record(clause, label, r):
        f = dict(base)
        f.update(clause=clause, query=label, sig=r[0], error=r[1])
        fails.append(f)
    try:
        sp = Spec(d['V'], d['C'])
        try:
            m = build(d['V'], d['C'], d['F'], d['E'], d['lists'])
        except Exception as e:
            record('construction', 'VolumeMesh(raw)', (raise_sig(e), 'VolumeMesh(raw) raised %s: %s' % (type(e).__name__, e)))
            return fails
        qs = queries(m, sp, bool(d['sort']), bool(d['F']))
        if not d['first']:
            order = list(range(len(qs)))
            random.Random(d['seed']).shuffle(order)
            ABANDON[0] = False
            for k in order:
                r = call(qs[k][2], qs[k][1])
                if r:
                    record(qs[k][0], qs[k][1], r)
                    if ABANDON[0]:
                        return fails        # answers of a half-initialised object are not judged
            if d.get('clear'):
                # history: reset the lazily built tables, then ask everything again in another order
                r = call(lambda: m.connectivity.clear(), 'connectivity.clear()')
                if r:
                    record('clear', 'connectivity.clear()', r)
                qs = queries(m, sp, bool(d['sort']), bool(d['F']))
                random.Random(d['seed'] + 1).shuffle(order)
                for k in order:
                    r = call(qs[k][2], qs[k][1])
                    if r:
                        record(qs[k][0], qs[k][1] + ' after connectivity.clear()', (r[0], r[1] + ' (after connectivity.clear())'))
                        if ABANDON[0]:
                            return fails
        else:
            clauses = []
            for cl, _, _ in qs:
                if cl not in clauses:
                    clauses.append(cl)
            if d.get('clause'):
                clauses = [cl for cl in clauses if cl == d['clause']]
            for cl in clauses:
                m2 = build(d['V'], d['C'], d['F'], d['E'], d['lists'])
                q2 = [x for x in queries(m2, sp, bool(d['sort']), bool(d['F'])) if x[0] == cl]
                r = call(q2[0][2], q2[0][1])          # the very first request on this mesh
                if r:
                    record(cl, q2[0][1], r)
                    continue
                for x in q2[1:]:
                    r = call(x[2], x[1])
                    if r:
                        record(cl, x[1], r)
                        break
    finally:
        config.sort_neighborhoods = old
    return fails


def strip(cs):
    return json.dumps({k: v for k, v in cs.items() if k != 'error'}, sort_keys=True)


def family(seed, thorough):
    rnd = random.Random(seed)
    for name, P, C, small in base_meshes(seed, thorough):
        for vname, P2, C2, F, E, lists in variants(name, P, C, small, rnd, thorough):
            d = {'mesh': name + '/' + vname, 'V': [list(p) for p in P2], 'C': [list(c) for c in C2],
                 'F': [list(f) for f in F] if F else None, 'E': [list(e) for e in E] if E else None, 'lists': lists, 'seed': seed}
            for sort_flag in (True, False):
                yield dict(d, sort=sort_flag, first=False)
                if vname in ('renum_mixed0', 'explicit0') and sort_flag:
                    yield dict(d, sort=sort_flag, first=False, clear=True)
                if len(C2) <= 48 and (vname in ('pos', 'renum_mixed0', 'explicit0') or (thorough and not vname.startswith('order'))) and (sort_flag or vname == 'pos'):
                    yield dict(d, sort=sort_flag, first=True)


def main():
    req = read_request()
    seed = int(req.get('seed', 0) or 0)
    thorough = req.get('tier') == 'thorough'
    if req['mode'] == 'replay':
        cs = req.get('case') or {}
        fails = run_case(cs)
        same = [f for f in fails if strip(f) == strip(cs)] or [f for f in fails if (f['clause'], f['sig']) == (cs.get('clause'), cs.get('sig'))]
        respond(failing=same[0] if same else None, cases=1)
    known = req.get('known') or []
    known_keys = {strip(k) for k in known}
    known_hit, covered, covered_raise = [], set(), set()
    for k in known:
        try:
            fails = run_case(k)
        except Exception:
            fails = []
        if any(strip(f) == strip(k) for f in fails):
            known_hit.append(k)
            covered.add((k.get('clause'), k.get('sig')))
            covered_raise.add(k.get('sig'))
    n = 0
    skipped = 0
    bud = Budget(270 if thorough else 50)
    for d in family(seed, thorough):
        n += 1
        for f in run_case(d):
            if strip(f) in known_keys or (f['clause'], f['sig']) in covered or (f['sig'].startswith('raise:') and f['sig'] in covered_raise):
                skipped += 1
                continue
            respond(failing=f, cases=n, known_hit=known_hit, note='%d failures attributed to known cases' % skipped)
        if bud.over():
            respond(failing=None, cases=n, known_hit=known_hit, note='time budget reached; %d failures attributed to known cases' % skipped)
    respond(failing=None, cases=n, known_hit=known_hit, note='%d failures attributed to known cases' % skipped)


main()
