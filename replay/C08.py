"""C08 native oracle: discrete differential operators satisfy their defining identities.

Every operator of mouette.operators is evaluated with every option on a deterministic family of small
meshes (triangulated surfaces with/without border, several loops / components, obtuse and right-angled
triangles, closed surfaces, quad / mixed surfaces for the combinatorial operators, tetrahedral meshes,
polylines) and compared with matrices assembled here from the raw vertex / face / cell lists:

 * stiffness matrix  K = sum_T area_T * grad(phi_i).grad(phi_j)   (hat-function gradients, no cotangents)
 * face areas, incident-area vertex masses, edge masses, cell volumes
 * D - A, adjacency, incidence from the edge list; dual graphs from shared edges / shared faces

Each case is (mesh, prelude, check).  Preludes: 'fresh' (new mesh object for every check), 'warm' (one mesh
object; every operator has been called once with every option before the checks start, and the checks then
run one after the other on that same object), 'angles' (the corner-angle attribute exists before the call,
so that cotangents are derived from the stored angles)."""
import itertools, random, math, json
import numpy as np
import scipy.sparse as sp
from replay.common import *
from replay.meshcheck import analyse
import mouette as M
from mouette import operators as OP
from mouette.processing import SurfaceConnectionFaces, FlatConnectionFaces

RT = 1e-8       # relative tolerance (w.r.t. the largest expected magnitude) for matrix comparisons


# ----------------------------------------------------------------------------------------------------------
# mesh construction
# ----------------------------------------------------------------------------------------------------------

def build(desc):
    raw = M.mesh.RawMeshData()
    raw.vertices += [M.Vec(float(p[0]), float(p[1]), float(p[2])) for p in desc['vertices']]
    if desc['kind'] == 'surface':
        raw.faces += [tuple(int(x) for x in f) for f in desc['faces']]
        return M.mesh.SurfaceMesh(raw)
    if desc['kind'] == 'volume':
        raw.cells += [tuple(int(x) for x in c) for c in desc['cells']]
        return M.mesh.VolumeMesh(raw)
    raw.edges += [tuple(int(x) for x in e) for e in desc['edges']]
    return M.mesh.PolyLine(raw)


def _pts(a):
    return [[float(x) for x in p] for p in a]


def surf_desc(name, P, F, planar=False):
    return {'mesh': name, 'kind': 'surface', 'vertices': _pts(P), 'faces': [[int(x) for x in f] for f in F], 'planar': bool(planar), 'seed': 0}


def grid_faces(nu, nv, tri=True, flip=False):
    F = []
    for i in range(nu - 1):
        for j in range(nv - 1):
            a, b, c, d = i * nv + j, (i + 1) * nv + j, (i + 1) * nv + j + 1, i * nv + j + 1      # counter-clockwise in (x=i, y=j)
            if not tri:
                F.append((a, b, c, d))
            elif (i + j) % 2 == 0:
                F += [(a, b, c), (a, c, d)]
            else:
                F += [(a, b, d), (b, c, d)]
    if flip:
        F = [tuple(reversed(f)) for f in F]
    return F


def grid_pts(nu, nv, rnd, jxy=0.0, jz=0.0, sx=1.0, sy=1.0):
    return [(sx * i + rnd.uniform(-jxy, jxy), sy * j + rnd.uniform(-jxy, jxy), rnd.uniform(-jz, jz) if jz else 0.0) for i in range(nu) for j in range(nv)]


def surfaces(seed, thorough):
    """members whose name carries the seed depend on it; all the others are fixed (their 'seed' field stays 0)"""
    rnd = random.Random(1000 + seed)
    fix = random.Random(4242)
    yield surf_desc('tri1', [(0, 0, 0), (2.0, 0.3, 0.1), (0.4, 1.1, 0.7)], [(0, 1, 2)])
    yield surf_desc('tri2_obtuse', [(0, 0, 0), (3.0, 0, 0), (1.4, 0.5, 0.2), (1.6, -2.0, 0.5)], [(0, 1, 2), (1, 0, 3)])
    # fan around an interior vertex, very unequal radii -> obtuse corners, negative cotangents
    ang, rad = [0.0, 0.4, 2.0, 3.5, 5.0], [2.0, 0.6, 1.5, 0.7, 1.8]
    P = [(0.1, -0.05, 0.2)] + [(r * math.cos(a), r * math.sin(a), 0.1 * k) for k, (a, r) in enumerate(zip(ang, rad))]
    yield surf_desc('fan5', P, [(0, 1 + k, 1 + (k + 1) % 5) for k in range(5)])
    # exact right-angled grid (cotangent 0 opposite every diagonal), planar, both orientations
    yield surf_desc('rightgrid3x3', grid_pts(3, 3, fix), grid_faces(3, 3), planar=True)
    yield surf_desc('rightgrid3x4_cw', grid_pts(3, 4, fix), grid_faces(3, 4, flip=True), planar=True)
    yield surf_desc('planar_stretch4x3', [(x + 0.1 * j, y - 0.05 * i, 0.0) for i, x in enumerate([0.0, 0.7, 1.9, 3.0]) for j, y in enumerate([0.0, 1.3, 2.0])],
                    grid_faces(4, 3), planar=True)
    for (nu, nv) in ((3, 4), (2, 6), (5, 3)) + (((6, 7), (4, 4)) if thorough else ()):
        yield dict(surf_desc('grid%dx%d_j%d' % (nu, nv, seed), grid_pts(nu, nv, rnd, 0.3, 0.4, 1.0, 1.3), grid_faces(nu, nv)), seed=seed)
    # annulus: two border loops
    n = 6
    th = [2 * math.pi * i / n + 0.2 * math.sin(2 * i) for i in range(n)]
    P = [((1 + 0.1 * math.cos(3 * i)) * math.cos(t), (1 + 0.1 * math.cos(3 * i)) * math.sin(t), 0.3 * math.cos(t)) for i, t in enumerate(th)]
    P += [((2.3 + 0.2 * math.sin(i)) * math.cos(t + 0.1), (2.3 + 0.2 * math.sin(i)) * math.sin(t + 0.1), 0.3 * math.sin(2 * t)) for i, t in enumerate(th)]
    F = []
    for i in range(n):
        a, b, c, d = i, n + i, n + (i + 1) % n, (i + 1) % n
        F += [(a, b, c), (a, c, d)]
    yield surf_desc('annulus6', P, F)
    # two components (jittered patch + far away single triangle)
    P = grid_pts(3, 3, fix, 0.25, 0.3) + [(10, 0, 0), (11.5, 0.2, 0), (10.3, 0.9, 1.0)]
    yield surf_desc('two_components', P, grid_faces(3, 3) + [(9, 10, 11)])
    # planar, two components with opposite orientations
    P = grid_pts(2, 3, fix, 0.2) + [(5, 0, 0), (6.5, 0.2, 0), (5.3, 0.9, 0), (6.6, 1.4, 0)]
    yield surf_desc('planar_opposite_components', P, grid_faces(2, 3) + [(6, 8, 7), (7, 8, 9)], planar=True)
    # closed surfaces
    yield surf_desc('tetra_closed', [(0, 0, 0), (1.3, 0, 0.1), (0.2, 1.1, 0), (0.3, 0.2, 0.9)], [(0, 2, 1), (0, 1, 3), (1, 2, 3), (0, 3, 2)])
    yield surf_desc('octa_closed', [(1.2, 0, 0.1), (-0.9, 0.1, 0), (0, 1.1, 0), (0.1, -1.3, 0), (0, 0.1, 0.8), (0.1, 0, -1.4)],
                    [(0, 2, 4), (2, 1, 4), (1, 3, 4), (3, 0, 4), (2, 0, 5), (1, 2, 5), (3, 1, 5), (0, 3, 5)])
    nu, nv = 3, 4
    P, F = [], []
    for i in range(nu):
        for j in range(nv):
            u, v = 2 * math.pi * i / nu + 0.1 * j, 2 * math.pi * j / nv
            R = 2 + 0.7 * math.cos(v)
            P.append((R * math.cos(u), R * math.sin(u), 0.7 * math.sin(v) + 0.05 * i))
    for i in range(nu):
        for j in range(nv):
            a, b, c, d = i * nv + j, ((i + 1) % nu) * nv + j, ((i + 1) % nu) * nv + (j + 1) % nv, i * nv + (j + 1) % nv
            F += [(a, b, c), (a, c, d)]
    yield surf_desc('torus3x4', P, F)
    # non triangular surfaces (combinatorial operators only)
    yield surf_desc('quads3x4', grid_pts(3, 4, fix, 0.2, 0.2), grid_faces(3, 4, tri=False))
    yield surf_desc('mixed_345', [(0, 0, 0), (1, 0, 0), (1, 1, 0.2), (0, 1, 0), (2, 0.5, 0.1), (2.2, 1.6, 0), (1.2, 2.2, 0.3), (0.2, 1.9, 0)],
                    [(0, 1, 2, 3), (1, 4, 2), (2, 4, 5, 6, 7), (3, 2, 7)])
    if thorough:
        from scipy.spatial import Delaunay
        rs = np.random.RandomState(77 + seed)
        for k, npt in enumerate((9, 14, 22, 30)):
            while True:
                pts = rs.rand(npt, 2) * [2.0, 1.0]
                tri = Delaunay(pts).simplices
                ar = [0.5 * ((pts[b] - pts[a])[0] * (pts[c] - pts[a])[1] - (pts[b] - pts[a])[1] * (pts[c] - pts[a])[0]) for a, b, c in tri]
                if min(abs(x) for x in ar) > 2e-3:
                    break
            F = [(int(a), int(b), int(c)) if s > 0 else (int(a), int(c), int(b)) for (a, b, c), s in zip(tri, ar)]
            yield dict(surf_desc('delaunay%d_s%d' % (npt, seed), [(x, y, 0.3 * math.sin(3 * x) + 0.2 * y * y) for x, y in pts], F), seed=seed)
            if k == 1:
                yield dict(surf_desc('delaunay%d_planar_s%d' % (npt, seed), [(x, y, 0.0) for x, y in pts], F, planar=True), seed=seed)


def kuhn(n, rnd, jit):
    idx = lambda i, j, k: (i * (n + 1) + j) * (n + 1) + k
    P = [(i + rnd.uniform(-jit, jit), j + rnd.uniform(-jit, jit), 1.2 * k + rnd.uniform(-jit, jit)) for i in range(n + 1) for j in range(n + 1) for k in range(n + 1)]
    C = []
    for i in range(n):
        for j in range(n):
            for k in range(n):
                for perm in itertools.permutations(range(3)):
                    p = [i, j, k]
                    vs = [idx(*p)]
                    for ax in perm:
                        p = list(p)
                        p[ax] += 1
                        vs.append(idx(*p))
                    C.append(tuple(vs))
    return P, C


def volumes(seed, thorough):
    rnd = random.Random(2000 + seed)
    vd = lambda name, P, C, sd=0: {'mesh': name, 'kind': 'volume', 'vertices': _pts(P), 'cells': [[int(x) for x in c] for c in C], 'seed': sd}
    T = [(0, 0, 0), (1.3, 0, 0.1), (0.2, 1.1, 0), (0.3, 0.2, 0.9)]
    yield vd('tet1', T, [(0, 1, 2, 3)])
    yield vd('tet1_flipped', T, [(1, 0, 2, 3)])
    yield vd('tet2', T + [(0.9, 0.8, -1.1)], [(0, 1, 2, 3), (0, 2, 1, 4)])
    # flat tet: obtuse dihedral angles
    yield vd('tet_flat', [(0, 0, 0), (2, 0, 0), (1, 1.5, 0), (1, 0.5, 0.25), (1, 0.6, -0.8)], [(0, 1, 2, 3), (0, 2, 1, 4)])
    c = lambda i, j, k: i * 4 + j * 2 + k
    P = [(i * 1.0, j * 1.1, k * 0.8) for i in range(2) for j in range(2) for k in range(2)]
    yield vd('cube5', P, [(c(0, 0, 0), c(1, 1, 0), c(1, 0, 1), c(0, 1, 1)), (c(1, 0, 0), c(0, 0, 0), c(1, 1, 0), c(1, 0, 1)), (c(0, 1, 0), c(0, 0, 0), c(1, 1, 0), c(0, 1, 1)),
                      (c(0, 0, 1), c(0, 0, 0), c(1, 0, 1), c(0, 1, 1)), (c(1, 1, 1), c(1, 1, 0), c(1, 0, 1), c(0, 1, 1))])
    P, C = kuhn(1, rnd, 0.2)
    yield vd('kuhn1_j%d' % seed, P, C, seed)
    P, C = kuhn(2, rnd, 0.0)
    yield vd('kuhn2', P, C)
    if thorough:
        P, C = kuhn(2, rnd, 0.2)
        yield vd('kuhn2_j%d' % seed, P, C, seed)


def polylines(seed, thorough):
    rnd = random.Random(3000 + seed)
    pd = lambda name, P, E, sd=0: {'mesh': name, 'kind': 'polyline', 'vertices': _pts(P), 'edges': [[int(x) for x in e] for e in E], 'seed': sd}
    fix = random.Random(555)
    yield pd('single_edge', [(0, 0, 0), (0.3, 0.4, 1.2)], [(0, 1)])
    yield pd('chain_mixed_orient', [(0, 0, 0), (1, 0, 0), (1, 3, 0), (2, 3, 0), (2.25, 3, 0), (7, 3, 1)], [(1, 0), (1, 2), (3, 2), (3, 4), (5, 4)])
    yield pd('cycle5', [(math.cos(k), 2 * math.sin(k), 0.1 * k) for k in range(5)], [(k, (k + 1) % 5) for k in range(5)])
    yield pd('branched_chords', [(fix.uniform(0, 3), fix.uniform(0, 3), fix.uniform(0, 1)) for _ in range(7)], [(0, 1), (0, 2), (0, 3), (3, 4), (4, 5), (5, 3), (6, 0), (2, 6)])
    yield pd('two_comp_isolated', [(0, 0, 0), (1, 0, 0), (2, 0.5, 0), (5, 5, 5), (6, 5, 5), (9, 9, 9)], [(0, 1), (1, 2), (4, 3)])
    if thorough:
        for g in range(6):
            n = rnd.randint(5, 9)
            E = [(i, i + 1) for i in range(n - 1)] + [(i, j) for i in range(n) for j in range(i + 2, n) if rnd.random() < 0.35]
            rnd.shuffle(E)
            yield pd('randgraph%d_s%d' % (g, seed), [(rnd.uniform(0, 3), rnd.uniform(0, 3), rnd.uniform(0, 3)) for _ in range(n)], E, seed)


# ----------------------------------------------------------------------------------------------------------
# independent reference quantities
# ----------------------------------------------------------------------------------------------------------

class Ref:
    """everything the checks need, computed from the raw lists only"""

    def __init__(self, desc, mesh):
        self.desc = desc
        self.kind = desc['kind']
        self.P = np.array(desc['vertices'], float)
        self.nV = len(self.P)
        self.E = [tuple(int(x) for x in e) for e in mesh.edges]        # the library's edge numbering (raw container)
        self.nE = len(self.E)
        self.rnd = random.Random(desc.get('seed', 0) * 7919 + len(desc['vertices']))
        self.custom = {e: self.rnd.choice([0.5, 1.0, 2.0, 0.0, -1.5, self.rnd.uniform(0.1, 4.0)]) for e in range(self.nE)}
        if self.kind == 'surface':
            self.F = [tuple(f) for f in desc['faces']]
            self.nF = len(self.F)
            self.tri = all(len(f) == 3 for f in self.F)
            if self.tri:
                self._triangles()
        if self.kind == 'volume':
            self.C = [tuple(c) for c in desc['cells']]
            self._tets()

    # -- premise: the mesh object stores what was given, and its edge list is the set of element edges
    def premise(self, mesh):
        Pm = np.array([[float(x) for x in v] for v in mesh.vertices])
        if Pm.shape != self.P.shape or not np.array_equal(Pm, self.P):
            return 'mesh.vertices differ from the input points'
        if self.kind == 'surface':
            if [tuple(int(x) for x in f) for f in mesh.faces] != self.F:
                return 'mesh.faces differ from the input faces'
            exp = {(min(f[i], f[(i + 1) % len(f)]), max(f[i], f[(i + 1) % len(f)])) for f in self.F for i in range(len(f))}
        elif self.kind == 'volume':
            if [tuple(int(x) for x in c) for c in mesh.cells] != self.C:
                return 'mesh.cells differ from the input cells'
            exp = {(min(a, b), max(a, b)) for c in self.C for a, b in itertools.combinations(c, 2)}
        else:
            exp = {(min(a, b), max(a, b)) for a, b in self.desc['edges']}
        got = [(min(a, b), max(a, b)) for a, b in self.E]
        if len(set(got)) != len(got) or set(got) != exp:
            return 'mesh.edges is not exactly the set of element edges (%d listed, %d distinct, %d expected)' % (len(got), len(set(got)), len(exp))
        return None

    def _triangles(self):
        P, F = self.P, self.F
        self.area = np.zeros(self.nF)
        self.nrm = np.zeros((self.nF, 3))
        self.gphi = np.zeros((self.nF, 3, 3))        # gradient of the hat function of local vertex k in triangle T
        self.cot = np.zeros((self.nF, 3))            # cotangent of the corner at local vertex k
        K = np.zeros((self.nV, self.nV))
        Ku = np.zeros((self.nV, self.nV))
        for T, (a, b, c) in enumerate(F):
            pa, pb, pc = P[a], P[b], P[c]
            n = np.cross(pb - pa, pc - pa)
            A2 = np.linalg.norm(n)
            nh = n / A2
            self.area[T], self.nrm[T] = A2 / 2, nh
            g = np.array([np.cross(nh, pc - pb), np.cross(nh, pa - pc), np.cross(nh, pb - pa)]) / A2
            self.gphi[T] = g
            Kt = (A2 / 2) * g @ g.T
            for i, vi in enumerate((a, b, c)):
                for j, vj in enumerate((a, b, c)):
                    K[vi, vj] += Kt[i, j]
            for k, (o, u, v) in enumerate(((pa, pb, pc), (pb, pc, pa), (pc, pa, pb))):
                self.cot[T, k] = np.dot(u - o, v - o) / np.linalg.norm(np.cross(u - o, v - o))
            for (i, j) in ((a, b), (b, c), (c, a)):
                Ku[i, i] += 0.5
                Ku[j, j] += 0.5
                Ku[i, j] -= 0.5
                Ku[j, i] -= 0.5
        self.K, self.Ku = K, Ku
        # edge -> [(face, local index of the opposite vertex)]
        self.e2f = {}
        for T, f in enumerate(F):
            for k in range(3):
                u, v = f[(k + 1) % 3], f[(k + 2) % 3]
                self.e2f.setdefault((min(u, v), max(u, v)), []).append((T, k))

    def _tets(self):
        P = self.P
        self.vol = np.array([abs(np.linalg.det(np.array([P[a] - P[d], P[b] - P[d], P[c] - P[d]]))) / 6 for a, b, c, d in self.C])
        K = np.zeros((self.nV, self.nV))
        Kabs = np.zeros((self.nV, self.nV))
        for ic, c in enumerate(self.C):
            Mx = np.hstack([np.ones((4, 1)), P[list(c)]])
            G = np.linalg.inv(Mx)[1:, :]           # column i = gradient of the hat function of local vertex i
            Kt = self.vol[ic] * G.T @ G
            for i in range(4):
                for j in range(4):
                    K[c[i], c[j]] += Kt[i, j]
                    if i != j:
                        Kabs[c[i], c[j]] -= abs(Kt[i, j])
                        Kabs[c[i], c[i]] += abs(Kt[i, j])
        self.Kvol, self.Kvol_abs = K, Kabs

    def graph(self):
        A = np.zeros((self.nV, self.nV))
        for a, b in self.E:
            A[a, b] = A[b, a] = 1
        return np.diag(A.sum(1)) - A


# ----------------------------------------------------------------------------------------------------------
# comparison helpers
# ----------------------------------------------------------------------------------------------------------

def dense(X):
    return X.toarray() if sp.issparse(X) else np.asarray(X)


def cmp_mat(name, got, exp, rt=RT):
    got = dense(got)
    exp = np.asarray(exp)
    if got.shape != exp.shape:
        return '%s: shape %r, expected %r' % (name, got.shape, exp.shape)
    if not np.all(np.isfinite(got)):
        return '%s: non finite entries' % name
    d = np.abs(got - exp)
    tol = rt * (1 + np.abs(exp).max()) if exp.size else 0
    if d.size and d.max() > tol:
        i = np.unravel_index(np.argmax(d), d.shape)
        return '%s: entry %r is %r, expected %r (max abs deviation %.3g, tolerance %.3g)' % (name, tuple(int(x) for x in i), complex(got[i]) if np.iscomplexobj(got) else float(got[i]),
                                                                                             float(np.real(exp[i])) if not np.iscomplexobj(exp) else complex(exp[i]), d.max(), tol)
    return None


def sym_rowsum(name, X, n):
    D = dense(X)
    if D.shape != (n, n):
        return '%s: shape %r, expected %r' % (name, D.shape, (n, n))
    if not np.all(np.isfinite(D)):
        return '%s: non finite entries' % name
    sc = 1 + np.abs(D).max()
    if np.abs(D - D.T).max() > 1e-10 * sc:
        i = np.unravel_index(np.argmax(np.abs(D - D.T)), D.shape)
        return '%s: not symmetric, M[%d,%d]=%r but M[%d,%d]=%r' % (name, i[0], i[1], complex(D[i]) if np.iscomplexobj(D) else float(D[i]), i[1], i[0], complex(D[i[1], i[0]]) if np.iscomplexobj(D) else float(D[i[1], i[0]]))
    rs = np.abs(D.sum(1))
    if rs.max() > 1e-9 * sc:
        return '%s: row %d sums to %r, expected 0 (largest entry %.3g)' % (name, int(np.argmax(rs)), float(np.real(D.sum(1)[np.argmax(rs)])), sc - 1)
    return None


def diag_check(name, X, expd, fmt=None):
    """X must be the diagonal matrix diag(expd), entries positive"""
    if fmt is not None and getattr(X, 'format', None) != fmt:
        return '%s: sparse format %r, requested %r' % (name, getattr(X, 'format', None), fmt)
    D = dense(X)
    n = len(expd)
    if D.shape != (n, n):
        return '%s: shape %r, expected %r' % (name, D.shape, (n, n))
    off = D - np.diag(np.diag(D))
    if np.any(off != 0):
        return '%s: not diagonal (%d off-diagonal entries)' % (name, int(np.count_nonzero(off)))
    d = np.diag(D)
    if not np.all(np.isfinite(d)) or not np.all(d > 0):
        return '%s: diagonal is not positive: min %r' % (name, float(np.nanmin(d)))
    bad = np.abs(d - expd) > RT * np.abs(expd)
    if np.any(bad):
        i = int(np.argmax(np.abs(d - expd) / np.abs(expd)))
        return '%s: entry %d is %r, expected %r' % (name, i, float(d[i]), float(expd[i]))
    return None


# ----------------------------------------------------------------------------------------------------------
# checks.  Each takes (mesh, ref) and returns None or an error string
# ----------------------------------------------------------------------------------------------------------

def ck_premise(m, r):
    return r.premise(m)


def ck_lap_cotan(m, r):
    L = OP.laplacian(m)
    return sym_rowsum('laplacian(cotan=True)', L, r.nV) or cmp_mat('laplacian(cotan=True) vs stiffness matrix', L, r.K)


def ck_lap_uniform(m, r):
    L = OP.laplacian(m, cotan=False)
    return sym_rowsum('laplacian(cotan=False)', L, r.nV) or cmp_mat('laplacian(cotan=False) vs per-triangle assembly with unit cotangents', L, r.Ku)


def _basis(conn, r):
    X = np.zeros((r.nF, 3))
    Y = np.zeros((r.nF, 3))
    for T in range(r.nF):
        x, y = conn.base(T)
        X[T], Y[T] = np.asarray(x, float), np.asarray(y, float)
    for T in range(r.nF):
        n = r.nrm[T]
        vals = [np.dot(X[T], X[T]) - 1, np.dot(Y[T], Y[T]) - 1, np.dot(X[T], Y[T]), np.dot(X[T], n), np.dot(Y[T], n), np.dot(np.cross(X[T], Y[T]), n) - 1]
        if max(abs(v) for v in vals) > 1e-9:
            return None, None, 'face basis of face %d is not an orthonormal direct basis of the face plane: |X|^2-1, |Y|^2-1, X.Y, X.n, Y.n, (XxY).n-1 = %r' % (T, [round(float(v), 9) for v in vals])
    return X, Y, None


def _grad(m, r, flat, as_complex):
    nm = 'gradient(%s, as_complex=%s)' % ('FlatConnectionFaces' if flat else 'SurfaceConnectionFaces', as_complex)
    conn = FlatConnectionFaces(m) if flat else SurfaceConnectionFaces(m)
    X, Y, err = _basis(conn, r)
    if err:
        return nm + ': ' + err
    G = OP.gradient(m, conn, as_complex=as_complex)
    shape = (r.nF, r.nV) if as_complex else (2 * r.nF, r.nV)
    if G.shape != shape:
        return '%s: shape %r, expected %r' % (nm, G.shape, shape)
    G = G.toarray()
    if as_complex != np.iscomplexobj(G):
        return '%s: dtype %s' % (nm, G.dtype)
    Gc = G if as_complex else G[0::2] + 1j * G[1::2]
    for T, f in enumerate(r.F):
        others = [v for v in range(r.nV) if v not in f and Gc[T, v] != 0]
        if others:
            return '%s: row of face %d has entries at vertices %r that are not in the face %r' % (nm, T, others, f)
    # Re(G* A G) == stiffness (real form: G^T diag(A,A) G)
    if as_complex:
        GAG = (G.conj().T @ np.diag(r.area) @ G).real
    else:
        GAG = G.T @ np.diag(np.repeat(r.area, 2)) @ G
    err = cmp_mat('Re(G* A G) with %s vs stiffness matrix' % nm, GAG, r.K)
    if err:
        return err
    # affine functions
    rnd = random.Random(r.desc.get('seed', 0) + 17)
    for a, b in [((1.0, 0.0, 0.0), 0.0), ((0.0, 1.0, 0.0), 2.0), ((0.0, 0.0, 1.0), -1.0), (tuple(rnd.uniform(-2, 2) for _ in range(3)), rnd.uniform(-3, 3))]:
        a = np.array(a)
        f = r.P @ a + b
        g = Gc @ f
        for T in range(r.nF):
            at = a - np.dot(a, r.nrm[T]) * r.nrm[T]
            g3 = g[T].real * X[T] + g[T].imag * Y[T]
            if np.linalg.norm(g3 - at) > 1e-8 * (1 + np.linalg.norm(a)) * (1 + np.abs(r.P).max() / math.sqrt(r.area[T])):
                return '%s: gradient of f(p)=%r.p%+g in face %d is %r (3D: %r), expected the tangential part %r of the slope i.e. %r in the face basis' % (
                    nm, a.tolist(), b, T, complex(g[T]), np.round(g3, 8).tolist(), np.round(at, 8).tolist(), complex(np.dot(at, X[T]), np.dot(at, Y[T])))
    return None


def ck_grad_sc_complex(m, r):
    return _grad(m, r, False, True)


def ck_grad_sc_real(m, r):
    return _grad(m, r, False, False)


def ck_grad_flat_complex(m, r):
    return _grad(m, r, True, True)


def ck_grad_flat_real(m, r):
    return _grad(m, r, True, False)


def ck_mass_vertices(m, r):
    base = np.zeros(r.nV)
    for T, f in enumerate(r.F):
        for v in f:
            base[v] += r.area[T]
    tot = r.area.sum()
    fmts = {(False, False): (None, 'csr', 'coo'), (True, False): (None, 'dia'), (False, True): (None, 'lil'), (True, True): (None, 'csc')}
    for inv in (False, True):
        for sq in (False, True):
            for fmt in fmts[(inv, sq)]:
                nm = 'area_weight_matrix(inverse=%s, sqrt=%s%s)' % (inv, sq, '' if fmt is None else ', format=%r' % fmt)
                A = OP.area_weight_matrix(m, inverse=inv, sqrt=sq) if fmt is None else OP.area_weight_matrix(m, inverse=inv, sqrt=sq, format=fmt)
                exp = np.sqrt(base) if sq else base
                exp = 1 / exp if inv else exp
                err = diag_check(nm, A, exp, fmt or 'csc')
                if err:
                    return err
                d = dense(A).diagonal()
                back = (1 / d if inv else d) ** (2 if sq else 1)
                if abs(back.sum() - 3 * tot) > RT * 3 * tot:
                    return '%s: vertex masses sum to %r, expected 3 * total area = %r' % (nm, float(back.sum()), 3 * tot)
    return None


def ck_mass_faces(m, r):
    tot = r.area.sum()
    for inv in (False, True):
        for fmt in (None, 'csr') if not inv else (None, 'dia'):
            nm = 'area_weight_matrix_faces(inverse=%s%s)' % (inv, '' if fmt is None else ', format=%r' % fmt)
            A = OP.area_weight_matrix_faces(m, inverse=inv) if fmt is None else OP.area_weight_matrix_faces(m, inverse=inv, format=fmt)
            err = diag_check(nm, A, 1 / r.area if inv else r.area, fmt or 'csc')
            if err:
                return err
            d = dense(A).diagonal()
            s = (1 / d if inv else d).sum()
            if abs(s - tot) > RT * tot:
                return '%s: face masses sum to %r, expected the total area %r' % (nm, float(s), tot)
    return None


def ck_mass_edges(m, r):
    base = np.array([sum(r.area[T] for T, _ in r.e2f[(min(a, b), max(a, b))]) / 3 for a, b in r.E])
    tot = r.area.sum()
    for inv in (False, True):
        nm = 'area_weight_matrix_edges(inverse=%s)' % inv
        A = OP.area_weight_matrix_edges(m, inverse=inv)
        err = diag_check(nm, A, 1 / base if inv else base, 'csc')
        if err:
            return err
        d = dense(A).diagonal()
        s = (1 / d if inv else d).sum()
        if abs(s - tot) > RT * tot:
            return '%s: edge masses sum to %r, expected the total area %r' % (nm, float(s), tot)
    return None


def ck_graph_laplacian(m, r):
    L = OP.graph_laplacian(m)
    return sym_rowsum('graph_laplacian', L, r.nV) or cmp_mat('graph_laplacian vs degree - adjacency', L, r.graph(), 1e-12)


def _adjacency(m, r, mode):
    nm = 'adjacency_matrix(weights=%s)' % ('custom dict' if mode == 'custom' else repr(mode))
    if mode == 'one':
        w = [1.0] * r.nE
        A = OP.adjacency_matrix(m)
        A2 = OP.adjacency_matrix(m, weights='one')
        if (dense(A) != dense(A2)).any():
            return nm + ': default differs from weights="one"'
    elif mode == 'length':
        w = [float(np.linalg.norm(r.P[a] - r.P[b])) for a, b in r.E]
        A = OP.adjacency_matrix(m, weights='length')
    else:
        w = [r.custom[e] for e in range(r.nE)]
        A = OP.adjacency_matrix(m, weights=dict(r.custom))
    exp = np.zeros((r.nV, r.nV))
    for (a, b), x in zip(r.E, w):
        exp[a, b] = exp[b, a] = x
    err = cmp_mat(nm, A, exp, 1e-12)
    if err:
        return err
    if not sp.issparse(A):
        return nm + ': result is not a sparse matrix'
    C = A.tocoo() if A.format != 'coo' else A
    ent = sorted(zip((int(i) for i in C.row), (int(j) for j in C.col)))
    want = sorted([(a, b) for a, b in r.E] + [(b, a) for a, b in r.E])
    if ent != want:
        return '%s: stored entries are not exactly one per (vertex, neighbour) incidence: %d stored, %d distinct, %d expected' % (nm, len(ent), len(set(ent)), len(want))
    return None


def ck_adjacency_one(m, r):
    return _adjacency(m, r, 'one')


def ck_adjacency_length(m, r):
    return _adjacency(m, r, 'length')


def ck_adjacency_custom(m, r):
    return _adjacency(m, r, 'custom')


def ck_v2e(m, r):
    for oriented in (False, True):
        nm = 'vertex_to_edge_operator(oriented=%s)' % oriented
        B = OP.vertex_to_edge_operator(m, oriented=oriented) if oriented else OP.vertex_to_edge_operator(m)
        exp = np.zeros((r.nV, r.nE))
        for e, (a, b) in enumerate(r.E):
            exp[a, e] = -1 if oriented else 1
            exp[b, e] = 1
        err = cmp_mat(nm, B, exp, 1e-12)
        if err:
            return err
        if sp.issparse(B) and B.nnz != 2 * r.nE:
            return '%s: %d stored entries, expected one per incidence = %d' % (nm, B.nnz, 2 * r.nE)
        if oriented and r.nE:
            # divergence-free: columns sum to zero; B B^T is the graph Laplacian
            err = cmp_mat('B B^T for oriented vertex_to_edge_operator vs degree - adjacency', dense(B) @ dense(B).T, r.graph(), 1e-12)
            if err:
                return err
    return None


def _v2f_expected(r):
    exp = np.zeros((r.nV, r.nF))
    for T, f in enumerate(r.F):
        for v in f:
            exp[v, T] = 1.0 / len(f)
    return exp


def ck_v2f_layout(m, r):
    """documented: 'Matrix M of size |V| x |F| where M[v,f] = 1/len(f)'"""
    B = OP.vertex_to_face_operator(m)
    exp = _v2f_expected(r)
    if B.shape != (r.nV, r.nF):
        return 'vertex_to_face_operator: shape %r, documented |V| x |F| = %r' % (B.shape, (r.nV, r.nF))
    if cmp_mat('', B, exp, 1e-12) is not None and cmp_mat('', dense(B).T, exp, 1e-12) is None:
        return 'vertex_to_face_operator: entries are stored as M[f,v] (|F| x |V|), documented M[v,f] (|V| x |F|)'
    return None


def ck_v2f_entries(m, r):
    """values and one entry per incidence; the layout (M or its transpose) is judged by ck_v2f_layout only"""
    B = OP.vertex_to_face_operator(m)
    exp = _v2f_expected(r)
    D = dense(B)
    err = cmp_mat('vertex_to_face_operator (M[v,f] = 1/len(f))', D, exp, 1e-12)
    if err and D.shape == (r.nF, r.nV):
        err = cmp_mat('vertex_to_face_operator (transposed: M[f,v] = 1/len(f))', D.T, exp, 1e-12)
    if err:
        return err
    if sp.issparse(B) and B.nnz != sum(len(f) for f in r.F):
        return 'vertex_to_face_operator: %d stored entries, expected one per incidence = %d' % (B.nnz, sum(len(f) for f in r.F))
    return None


def _interior_edges(r):
    return [(e, r.e2f[(min(a, b), max(a, b))]) for e, (a, b) in enumerate(r.E) if len(r.e2f[(min(a, b), max(a, b))]) == 2]


def ck_dual_uniform(m, r):
    L = OP.laplacian_triangles(m, cotan=False)
    exp = np.zeros((r.nF, r.nF))
    for e, ((T1, _), (T2, _)) in _interior_edges(r):
        exp[T1, T1] += 1
        exp[T2, T2] += 1
        exp[T1, T2] -= 1
        exp[T2, T1] -= 1
    return sym_rowsum('laplacian_triangles(cotan=False)', L, r.nF) or cmp_mat('laplacian_triangles(cotan=False) vs Laplacian of the dual graph', L, exp, 1e-12)


def ck_dual_cotan(m, r):
    L = OP.laplacian_triangles(m)
    err = sym_rowsum('laplacian_triangles(cotan=True)', L, r.nF)
    if err:
        return err
    D = dense(L)
    pat = np.eye(r.nF, dtype=bool)
    for e, ((T1, k1), (T2, k2)) in _interior_edges(r):
        pat[T1, T2] = pat[T2, T1] = True
        s = r.cot[T1, k1] + r.cot[T2, k2]
        w = 1e8 if abs(s) < 1e-8 else 1 / abs(s)
        if abs(s) > 1e-6 and abs(abs(D[T1, T2]) - w) > 1e-7 * w:
            return 'laplacian_triangles(cotan=True): |L[%d,%d]| = %r, expected 1/|cot a + cot b| = %r for the shared edge %d' % (T1, T2, float(abs(D[T1, T2])), w, e)
    if np.any((D != 0) & ~pat):
        i = np.argwhere((D != 0) & ~pat)[0]
        return 'laplacian_triangles(cotan=True): entry (%d,%d) = %r between faces that share no edge' % (i[0], i[1], float(D[i[0], i[1]]))
    return None


def ck_edge_diagonal(m, r):
    """diagonal, the two options are inverse of each other, magnitudes |cot a + cot b| and its inverse
    (which of the two is called 'inverse' is not judged: see final notes)"""
    Di = OP.cotan_edge_diagonal(m)
    Dt = OP.cotan_edge_diagonal(m, inverse=True)
    Df = OP.cotan_edge_diagonal(m, inverse=False)
    for nm, X in (('cotan_edge_diagonal()', Di), ('cotan_edge_diagonal(inverse=True)', Dt), ('cotan_edge_diagonal(inverse=False)', Df)):
        Z = dense(X)
        if Z.shape != (r.nE, r.nE):
            return '%s: shape %r, expected %r' % (nm, Z.shape, (r.nE, r.nE))
        if np.any(Z - np.diag(np.diag(Z)) != 0) or not np.all(np.isfinite(Z)):
            return '%s: not a finite diagonal matrix' % nm
    if (dense(Di) != dense(Dt)).any():
        return 'cotan_edge_diagonal: default differs from inverse=True'
    a, b = dense(Dt).diagonal(), dense(Df).diagonal()
    for e, (u, v) in enumerate(r.E):
        s = sum(r.cot[T, k] for T, k in r.e2f[(min(u, v), max(u, v))])
        if abs(s) < 1e-6:
            continue
        lo, hi = sorted((abs(s), 1 / abs(s)))
        got = sorted((abs(a[e]), abs(b[e])))
        if abs(got[0] - lo) > 1e-7 * lo or abs(got[1] - hi) > 1e-7 * hi or abs(a[e] * b[e] - 1) > 1e-7:
            return 'cotan_edge_diagonal: edge %d %r: inverse=True gives %r, inverse=False gives %r; sum of opposite cotangents is %r' % (e, (u, v), float(a[e]), float(b[e]), float(s))
    return None


def ck_lap_edges(m, r):
    for cotan in (True, False):
        nm = 'laplacian_edges(cotan=%s)' % cotan
        L = OP.laplacian_edges(m, cotan=cotan) if not cotan else OP.laplacian_edges(m)
        err = sym_rowsum(nm, L, r.nE)
        if err:
            return err
        eid = {(min(a, b), max(a, b)): e for e, (a, b) in enumerate(r.E)}
        exp = np.zeros((r.nE, r.nE))
        for T, f in enumerate(r.F):
            # Crouzeix-Raviart basis of the edge opposite to local vertex k is 1 - 2 phi_k
            es = [eid[(min(f[(k + 1) % 3], f[(k + 2) % 3]), max(f[(k + 1) % 3], f[(k + 2) % 3]))] for k in range(3)]
            if cotan:
                Kt = 4 * r.area[T] * r.gphi[T] @ r.gphi[T].T
            else:
                Kt = np.array([[4., -2, -2], [-2, 4, -2], [-2, -2, 4]])
            for i in range(3):
                for j in range(3):
                    exp[es[i], es[j]] += Kt[i, j]
        err = cmp_mat(nm + ' vs per-triangle edge-based (Crouzeix-Raviart) stiffness', L, exp)
        if err:
            return err
    return None


def _vol_mass(m, r, cells):
    base = np.zeros(r.nV)
    for ic, c in enumerate(r.C):
        for v in c:
            base[v] += r.vol[ic]
    tot = r.vol.sum()
    fn, b, mult, label = (OP.volume_weight_matrix_cells, r.vol, 1, 'cell') if cells else (OP.volume_weight_matrix, base, 4, 'vertex')
    fmts = {(False, False): (None, 'csr'), (True, False): (None, 'dia'), (False, True): (None, 'coo'), (True, True): (None, 'lil')}
    for inv in (False, True):
        for sq in (False, True):
            for fmt in fmts[(inv, sq)]:
                kw = {} if fmt is None else {'format': fmt}
                nm = '%s(inverse=%s, sqrt=%s%s)' % (fn.__name__, inv, sq, '' if fmt is None else ', format=%r' % fmt)
                A = fn(m, inverse=inv, sqrt=sq, **kw)
                exp = np.sqrt(b) if sq else b
                exp = 1 / exp if inv else exp
                err = diag_check(nm, A, exp, fmt or 'csc')
                if err:
                    return err
                d = dense(A).diagonal()
                back = (1 / d if inv else d) ** (2 if sq else 1)
                if abs(back.sum() - mult * tot) > RT * mult * tot:
                    return '%s: %s masses sum to %r, expected %d * total volume = %r' % (nm, label, float(back.sum()), mult, mult * tot)
    return None


def ck_vol_mass_vertices(m, r):
    return _vol_mass(m, r, False)


def ck_vol_mass_cells(m, r):
    return _vol_mass(m, r, True)


NOTES = []


def ck_vol_laplacian(m, r):
    L = OP.volume_laplacian(m)
    err = sym_rowsum('volume_laplacian', L, r.nV)
    if err:
        return err
    D = dense(L)
    pat = np.eye(r.nV, dtype=bool)
    for a, b in r.E:
        pat[a, b] = pat[b, a] = True
    if np.any((D != 0) & ~pat):
        i = np.argwhere((D != 0) & ~pat)[0]
        return 'volume_laplacian: entry (%d,%d) = %r between vertices that share no edge' % (i[0], i[1], float(D[i[0], i[1]]))
    # not part of the statement (recorded as a note only): comparison with the linear finite element stiffness matrix
    if cmp_mat('', D, r.Kvol) is not None:
        same_abs = cmp_mat('', D, r.Kvol_abs) is None
        note = 'volume_laplacian differs from the P1 stiffness matrix on %s (max dev %.3g)%s' % (
            r.desc['mesh'], float(np.abs(D - r.Kvol).max()), '; it equals the assembly with |cot| of each dihedral angle' if same_abs else '')
        if note not in NOTES:
            NOTES.append(note)
    return None


def ck_lap_tets(m, r):
    L = OP.laplacian_tetrahedra(m)
    n = len(r.C)
    exp = np.zeros((n, n))
    for i in range(n):
        for j in range(i + 1, n):
            if len(set(r.C[i]) & set(r.C[j])) == 3:
                exp[i, i] += 1
                exp[j, j] += 1
                exp[i, j] -= 1
                exp[j, i] -= 1
    return sym_rowsum('laplacian_tetrahedra', L, n) or cmp_mat('laplacian_tetrahedra vs Laplacian of the cell adjacency graph', L, exp, 1e-12)


GRAPH_CHECKS = [('premise', ck_premise), ('graph_laplacian', ck_graph_laplacian), ('adjacency_one', ck_adjacency_one), ('adjacency_length', ck_adjacency_length),
                ('adjacency_custom', ck_adjacency_custom), ('vertex_to_edge', ck_v2e)]
FACE_CHECKS = [('vertex_to_face_layout', ck_v2f_layout), ('vertex_to_face_entries', ck_v2f_entries)]
LAYOUT_MESHES = ('tri2_obtuse', 'rightgrid3x4_cw', 'mixed_345')     # the layout does not depend on the mesh: judged on three members (one with |V| = |F|)
TRI_CHECKS = [('laplacian_cotan', ck_lap_cotan), ('laplacian_uniform', ck_lap_uniform), ('gradient_complex', ck_grad_sc_complex), ('gradient_real', ck_grad_sc_real),
              ('mass_vertices', ck_mass_vertices), ('mass_faces', ck_mass_faces), ('mass_edges', ck_mass_edges),
              ('dual_uniform', ck_dual_uniform), ('dual_cotan', ck_dual_cotan), ('edge_diagonal', ck_edge_diagonal), ('laplacian_edges', ck_lap_edges)]
FLAT_CHECKS = [('gradient_flat_complex', ck_grad_flat_complex), ('gradient_flat_real', ck_grad_flat_real)]
VOL_CHECKS = [('volume_mass_vertices', ck_vol_mass_vertices), ('volume_mass_cells', ck_vol_mass_cells), ('volume_laplacian', ck_vol_laplacian), ('laplacian_tetrahedra', ck_lap_tets)]
COT_CHECKS = {'laplacian_cotan', 'dual_cotan', 'edge_diagonal', 'laplacian_edges', 'gradient_complex', 'mass_faces'}
LIBNAME = {'graph_laplacian': 'graph_laplacian', 'adjacency_one': 'adjacency_matrix', 'adjacency_length': 'adjacency_matrix', 'adjacency_custom': 'adjacency_matrix',
           'vertex_to_edge': 'vertex_to_edge_operator', 'vertex_to_face_layout': 'vertex_to_face_operator', 'vertex_to_face_entries': 'vertex_to_face_operator',
           'laplacian_cotan': 'laplacian', 'laplacian_uniform': 'laplacian', 'gradient_complex': 'gradient', 'gradient_real': 'gradient', 'gradient_flat_complex': 'gradient',
           'gradient_flat_real': 'gradient', 'mass_vertices': 'area_weight_matrix', 'mass_faces': 'area_weight_matrix_faces', 'mass_edges': 'area_weight_matrix_edges',
           'dual_uniform': 'laplacian_triangles', 'dual_cotan': 'laplacian_triangles', 'edge_diagonal': 'cotan_edge_diagonal', 'laplacian_edges': 'laplacian_edges',
           'volume_mass_vertices': 'volume_weight_matrix', 'volume_mass_cells': 'volume_weight_matrix_cells', 'volume_laplacian': 'volume_laplacian', 'laplacian_tetrahedra': 'laplacian_tetrahedra'}


def checks_for(desc):
    cs = list(GRAPH_CHECKS)
    if desc['kind'] == 'surface':
        cs += FACE_CHECKS
        if all(len(f) == 3 for f in desc['faces']):
            cs += TRI_CHECKS
            if desc.get('planar'):
                cs += FLAT_CHECKS
    elif desc['kind'] == 'volume':
        cs += VOL_CHECKS
    return cs


def warm(m, desc):
    """call every operator once with every option (results discarded)"""
    calls = [lambda: OP.graph_laplacian(m), lambda: OP.adjacency_matrix(m, 'length'), lambda: OP.vertex_to_edge_operator(m, True)]
    if desc['kind'] == 'surface':
        calls += [lambda: OP.vertex_to_face_operator(m)]
        if all(len(f) == 3 for f in desc['faces']):
            calls += [lambda: OP.area_weight_matrix_faces(m, inverse=True), lambda: OP.area_weight_matrix_faces(m), lambda: OP.area_weight_matrix(m, inverse=True, sqrt=True),
                      lambda: OP.area_weight_matrix(m, sqrt=True), lambda: OP.area_weight_matrix(m, inverse=True), lambda: OP.area_weight_matrix_edges(m, inverse=True),
                      lambda: OP.cotan_edge_diagonal(m, inverse=True), lambda: OP.cotan_edge_diagonal(m, inverse=False), lambda: OP.laplacian(m), lambda: OP.laplacian(m, cotan=False),
                      lambda: OP.laplacian_triangles(m), lambda: OP.laplacian_edges(m), lambda: OP.gradient(m, SurfaceConnectionFaces(m)),
                      lambda: OP.gradient(m, SurfaceConnectionFaces(m), as_complex=False), lambda: OP.area_weight_matrix_faces(m, inverse=True, format='dia')]
    elif desc['kind'] == 'volume':
        calls += [lambda: OP.volume_weight_matrix_cells(m, inverse=True), lambda: OP.volume_weight_matrix_cells(m, sqrt=True), lambda: OP.volume_weight_matrix_cells(m, inverse=True, sqrt=True),
                  lambda: OP.volume_weight_matrix(m, inverse=True, sqrt=True), lambda: OP.volume_laplacian(m), lambda: OP.laplacian_tetrahedra(m),
                  lambda: OP.volume_weight_matrix_cells(m, inverse=True, format='dia')]
    for c in calls:
        try:
            c()
        except Exception:
            pass


def run_check(fn, m, r):
    try:
        return fn(m, r)
    except Exception as e:
        import traceback
        tb = traceback.extract_tb(e.__traceback__)
        lib = [t for t in tb if '/mouette/' in t.filename] or list(tb)
        where = '%s:%d' % ('/'.join(lib[-1].filename.split('/')[-2:]), lib[-1].lineno) if lib else '?'
        return 'raised %s: %s (at %s)' % (type(e).__name__, e, where)


def key(case):
    return json.dumps({k: v for k, v in case.items() if k != 'error'}, sort_keys=True, default=str)


class Runner:
    def __init__(self, known, only_check=None, focus=None):
        self.known = {key(k): k for k in known}
        self.known_hit = []
        self.cases = 0
        self.only = only_check
        self.focus = focus

    def group(self, desc, prelude):
        """-> failing case dict or None"""
        cs = checks_for(desc)
        if prelude == 'angles':
            if not (desc['kind'] == 'surface' and all(len(f) == 3 for f in desc['faces'])):
                return None
            cs = [c for c in cs if c[0] in COT_CHECKS]
        if not self.only and (prelude != 'fresh' or desc['mesh'] not in LAYOUT_MESHES):
            cs = [c for c in cs if c[0] != 'vertex_to_face_layout']
        if self.focus:
            cs = [c for c in cs if LIBNAME.get(c[0]) == self.focus or (c[0] == 'premise' and prelude == 'fresh')]
        m = r = None
        if prelude == 'warm':
            m = build(desc)
            warm(m, desc)
            r = Ref(desc, m)
        for name, fn in cs:
            if prelude != 'warm':
                if self.only and name != self.only:
                    continue
                m = build(desc)
                if prelude == 'angles':
                    M.attributes.corner_angles(m)
                r = Ref(desc, m)
            self.cases += 1
            err = run_check(fn, m, r)
            if self.only and name != self.only:
                continue
            if err:
                case = dict(desc)
                case.update({'prelude': prelude, 'check': name})
                if key(case) in self.known:
                    self.known_hit.append(self.known[key(case)])
                    continue
                case['error'] = err
                return case
        return None


def main():
    req = read_request()
    seed = int(req.get('seed', 0) or 0)
    thorough = req.get('tier') == 'thorough'
    mode = req.get('mode', 'bounded')
    if mode == 'replay':
        case = dict(req.get('case') or {})
        desc = {k: v for k, v in case.items() if k not in ('error', 'prelude', 'check')}
        run = Runner([], only_check=case.get('check'))
        f = run.group(desc, case.get('prelude', 'fresh'))
        respond(failing=f, cases=run.cases, known_hit=[], note='; '.join(NOTES) or None)
    focus = None
    if mode == 'search' and req.get('function'):
        focus = str(req['function']).split('.')[-1]
        if focus not in LIBNAME.values():
            focus = None
    run = Runner(req.get('known') or [], focus=focus)
    seeds = tuple(seed + k for k in range(8 if thorough else 2))
    done = set()
    for sd in seeds:
        for desc in itertools.chain(surfaces(sd, thorough), volumes(sd, thorough), polylines(sd, thorough)):
            if desc['mesh'] in done:          # seed independent members run once
                continue
            done.add(desc['mesh'])
            for prelude in ('fresh', 'warm', 'angles'):
                f = run.group(desc, prelude)
                if f:
                    respond(failing=f, cases=run.cases, known_hit=run.known_hit, note='; '.join(NOTES) or None)
    respond(failing=None, cases=run.cases, known_hit=run.known_hit, note='; '.join(NOTES) or None)


if __name__ == '__main__':
    main()
