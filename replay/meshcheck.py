"""independent inspection of a face list (used by several native oracles): manifoldness, orientation,
Euler characteristic, border loops, components -- computed from the raw face list only."""
from collections import defaultdict


def analyse(nV, faces):
    """-> dict(problems=[...], chi, n_border_loops, n_components, E)"""
    problems = []
    directed = defaultdict(int)
    und = defaultdict(int)
    used = set()
    seen_faces = set()
    for f in faces:
        f = tuple(int(x) for x in f)
        if any(v < 0 or v >= nV for v in f):
            problems.append('index out of range in face %r (nV=%d)' % (f, nV))
            continue
        if len(set(f)) != len(f) or len(f) < 3:
            problems.append('degenerate face %r' % (f,))
        key = tuple(sorted(f))
        if key in seen_faces:
            problems.append('repeated face %r' % (f,))
        seen_faces.add(key)
        used.update(f)
        for i in range(len(f)):
            a, b = f[i], f[(i + 1) % len(f)]
            directed[(a, b)] += 1
            und[(min(a, b), max(a, b))] += 1
    if problems:
        return dict(problems=problems, chi=None, n_border_loops=None, n_components=None, E=None)
    for e, c in directed.items():
        if c > 1:
            problems.append('directed edge %r used %d times (orientation / manifoldness)' % (e, c))
    for e, c in und.items():
        if c > 2:
            problems.append('edge %r in %d faces' % (e, c))
    unused = [v for v in range(nV) if v not in used]
    if unused:
        problems.append('unused vertices %r' % (unused[:8],))
    border = {e for e in directed if (e[1], e[0]) not in directed}
    succ = defaultdict(list)
    for a, b in border:
        succ[a].append(b)
    for a, l in succ.items():
        if len(l) > 1:
            problems.append('non-manifold border vertex %d' % a)
    # border loops
    loops = 0
    seenb = set()
    for a, b in border:
        if (a, b) in seenb:
            continue
        loops += 1
        cur = (a, b)
        guard = 0
        while cur not in seenb and guard < 10 * len(border) + 10:
            seenb.add(cur)
            nxt = succ.get(cur[1], [])
            if not nxt:
                problems.append('open border chain at %d' % cur[1])
                break
            cur = (cur[1], nxt[0])
            guard += 1
    # umbrella condition: faces around each vertex form one fan
    # (checked through the number of border edges at a vertex <= 1 outgoing, done above) + components
    parent = list(range(nV))

    def find(x):
        while parent[x] != x:
            parent[x] = parent[parent[x]]
            x = parent[x]
        return x
    for a, b in und:
        ra, rb = find(a), find(b)
        if ra != rb:
            parent[ra] = rb
    comps = len({find(v) for v in used})
    # vertex umbrella: corners at v linked through shared edges must form a single group
    inc = defaultdict(list)
    for fi, f in enumerate(faces):
        for i in range(len(f)):
            inc[f[i]].append((fi, f[i - 1], f[(i + 1) % len(f)]))
    for v, lst in inc.items():
        if len(lst) <= 1:
            continue
        grp = list(range(len(lst)))

        def fnd(x):
            while grp[x] != x:
                x = grp[x]
            return x
        for i in range(len(lst)):
            for j in range(i + 1, len(lst)):
                if {lst[i][1], lst[i][2]} & {lst[j][1], lst[j][2]}:
                    a, b = fnd(i), fnd(j)
                    if a != b:
                        grp[a] = b
        if len({fnd(i) for i in range(len(lst))}) > 1:
            problems.append('vertex %d is not an umbrella (pinched)' % v)
    E = len(und)
    chi = len(used) - E + len(faces)
    return dict(problems=problems, chi=chi, n_border_loops=loops, n_components=comps, E=E)
