"""C04 native oracle: saving then loading a mesh is lossless within each format's vocabulary.

Four kinds of cases (field "check" of a case descriptor):
  roundtrip : build mesh -> mouette.mesh.save -> mouette.mesh.load -> compare with the projection of the mesh on the
              format's vocabulary (coordinates bit-exact, elements per kind/arity with vertex order, inexpressible kinds
              absent, class implied by the content)
  reader    : build mesh -> mouette.mesh.save -> parse the file with an INDEPENDENT minimal reader of the format written
              here from the format definitions -> same comparison at file level
  writer    : write the projection of the mesh with an INDEPENDENT minimal writer (several legal layouts per format)
              -> mouette.mesh.load -> compare with what was written
  attr      : geogram_ascii only: attributes (container x type x arity x storage) come back with name, type, arity, values

All expected values are computed from the explicit vertex / edge / face / cell lists of the case, never through the io code.

Vocabulary used as the specification (kind -> formats that must give it back):
  edges: obj (unless config.export_edges_in_obj is off), mesh, geogram_ascii, off (2-vertex elements) | faces: obj / off /
  geogram_ascii any arity, mesh 3 and 4, stl 3 (float32 triangle soup) | cells: mesh and geogram_ascii 4 and 8, tet 4 (8 may
  come back unchanged or not at all) | xyz: vertices only.  Faces of cells and edges of faces that the loader derives again
  are accepted (and required when the completion switches are on); element order is compared per kind and arity.
Family: ~27 fixed topologies (point clouds incl. empty, polylines with duplicates / isolated vertices, triangle, quad, mixed,
  polygon surfaces, non-manifold fan, duplicate vertices, explicit (hard / dangling) edges, tets, hexes, tet+hex) x 7 formats,
  coordinate sweeps (17-digit, denormal, DBL_MAX, -0.0, float32-range, seeded random over 50 decades), seeded random
  topologies, export switches (export_edges_in_obj, complete_edges_from_faces, ignore_elements, upper-case extension,
  normals / uv attributes that change the obj and xyz layouts), 2-3 layouts per format for the independent writer,
  geogram attributes on all 7 containers x {bool,int,float} x arity {1,2,3} x {sparse,dense} (+ str, complex, hard_edges).
Loads of .stl files run in a forked child because stl_reader aborts the interpreter on some files.
Extra (non-protocol) request field "all": true -> do not stop at the first failure, return every failing case in "all_failures".
"""
import os, sys, math, struct, tempfile, shutil, atexit, pickle, random, itertools
import numpy as np
from replay.common import *
import mouette as M

TMP = tempfile.mkdtemp(prefix='c04_')
_MAIN_PID = os.getpid()


def _cleanup():
    if os.getpid() == _MAIN_PID:
        shutil.rmtree(TMP, ignore_errors=True)


atexit.register(_cleanup)

FORMATS = ['obj', 'mesh', 'geogram_ascii', 'off', 'tet', 'xyz', 'stl']
NOT_AN_ID = 4294967295

# ----------------------------------------------------------------------------------------------------------------------
# input family
# ----------------------------------------------------------------------------------------------------------------------
NASTY = [0.1 + 0.2, 1.0 / 3.0, -math.pi * 1e5, 1e-300, 5e-324, 1.7976931348623157e308, -0.0, 1e23, 1e22,
         123456789.12345679, float(np.nextafter(1.0, 2.0)), -2.2250738585072014e-308, 1e16 + 2, 0.1, -1e-5, 1e-7,
         -1.7976931348623157e308, 2.0 ** 53 + 2, 1.1 * 1.1, -7.0]
F32 = [0.1, -1.0 / 3.0, 1e-30, 3.0e38, -2.5, 1e-50, 16777217.0, 0.30000000000000004, -123.456, 7.0]


def coords(n, kind, seed=0):
    """n points, deterministic. kinds: nice, nasty, f32, random"""
    if kind == 'nice':
        return [[float(i % 3) + 0.25 * (i // 3), float((i // 3) % 3) - 0.5 * (i % 2), 0.125 * i * (-1) ** i] for i in range(n)]
    if kind == 'nasty':
        return [[NASTY[(3 * i + k) % len(NASTY)] for k in range(3)] for i in range(n)]
    if kind == 'f32':
        return [[F32[(3 * i + k) % len(F32)] + (i // 3) for k in range(3)] for i in range(n)]
    rnd = random.Random(1000 * seed + n)
    return [[rnd.uniform(-1, 1) * 10.0 ** rnd.randint(-25, 25) for _ in range(3)] for _ in range(n)]


CUBE = [[0., 0., 0.], [1., 0., 0.], [1., 1., 0.], [0., 1., 0.], [0., 0., 1.], [1., 0., 1.], [1., 1., 1.], [0., 1., 1.]]


def kuhn():
    cells = []
    idx = lambda p: p[0] + 2 * p[1] + 4 * p[2]
    for perm in itertools.permutations(range(3)):
        p = [0, 0, 0]
        c = [idx(p)]
        for ax in perm:
            p[ax] = 1
            c.append(idx(p))
        cells.append(c)
    V = [[float(i & 1), float((i >> 1) & 1), float((i >> 2) & 1)] for i in range(8)]
    return V, cells


def topologies(thorough):
    """name -> (nV or explicit V, E, F, C). Minimal members first."""
    T = []
    T.append(('pc0', 0, [], [], []))
    T.append(('pc1', 1, [], [], []))
    T.append(('pc5', 5, [], [], []))
    T.append(('chain4', 4, [[0, 1], [2, 1], [2, 3]], [], []))
    T.append(('cycle3dup', 3, [[0, 1], [1, 2], [2, 0], [1, 0]], [], []))
    T.append(('pl_2comp_isolated', 5, [[0, 1], [3, 4]], [], []))
    T.append(('tri1', 3, [], [[0, 1, 2]], []))
    T.append(('tri2', 4, [], [[0, 1, 2], [0, 2, 3]], []))
    T.append(('tri_2comp_isolated', 8, [], [[0, 1, 2], [2, 1, 3], [5, 6, 7]], []))
    T.append(('tri2_planar', [[0., 0., 0.], [1.5, 0., 0.], [1.25, 1., 0.], [-0.1, 1., 0.]], [], [[0, 1, 2], [0, 2, 3]], []))
    T.append(('tri2_dupverts', [[0., 0., 0.], [1., 0., 0.25], [1., 1., 0.], [1., 0., 0.25]], [], [[0, 1, 2], [0, 2, 3]], []))
    T.append(('tri_fan_nonmanifold', 5, [], [[0, 1, 2], [0, 1, 3], [1, 0, 4]], []))
    T.append(('tet_surface', 4, [], [[0, 2, 1], [0, 1, 3], [1, 2, 3], [2, 0, 3]], []))
    T.append(('tri_hard', 5, [[0, 2], [3, 4]], [[0, 1, 2], [0, 2, 3]], []))
    T.append(('quad1', 4, [], [[0, 1, 2, 3]], []))
    T.append(('quad2', 6, [], [[0, 1, 4, 3], [1, 2, 5, 4]], []))
    T.append(('mixed_tri_quad', 8, [], [[0, 1, 4, 3], [3, 4, 6], [4, 7, 6], [4, 5, 7], [1, 2, 5, 4]], []))
    T.append(('penta_tri', 6, [], [[0, 1, 2, 3, 4], [1, 5, 2]], []))
    T.append(('hexagon', 6, [], [[0, 1, 2, 3, 4, 5]], []))
    T.append(('poly3456', 10, [], [[0, 1, 2], [0, 2, 3, 4], [0, 4, 5, 6, 7], [0, 7, 8, 9, 1, 3]], []))
    T.append(('tet1', 4, [], [], [[0, 1, 2, 3]]))
    T.append(('tet2', 5, [], [], [[0, 1, 2, 4], [0, 2, 3, 4]]))
    T.append(('tet_hard_edge', 6, [[0, 1], [4, 5]], [], [[0, 1, 2, 3]]))
    T.append(('tet_plus_face', 7, [], [[4, 5, 6]], [[0, 1, 2, 3]]))
    T.append(('hex1', CUBE, [], [], [[0, 1, 2, 3, 4, 5, 6, 7]]))
    V2 = CUBE + [[2., 0., 0.], [2., 1., 0.], [2., 0., 1.], [2., 1., 1.]]
    T.append(('hex2', V2, [], [], [[0, 1, 2, 3, 4, 5, 6, 7], [1, 8, 9, 2, 5, 10, 11, 6]]))
    T.append(('tethex', CUBE + [[0.5, 0.5, 2.]], [], [], [[0, 1, 2, 3, 4, 5, 6, 7], [4, 5, 6, 8]]))
    kv, kc = kuhn()
    T.append(('kuhn6', kv, [], [], kc))
    if thorough:
        # quad grid with unequal resolutions, triangle fan, longer chain
        nu, nv = 3, 5
        F = [[i * nv + j, i * nv + j + 1, (i + 1) * nv + j + 1, (i + 1) * nv + j] for i in range(nu - 1) for j in range(nv - 1)]
        T.append(('quadgrid3x5', nu * nv, [], F, []))
        T.append(('trigrid3x5', nu * nv, [[0, 6]], [t for q in F for t in ([q[0], q[1], q[2]], [q[0], q[2], q[3]])], []))
        T.append(('fan7', 8, [], [[0, i, i % 7 + 1] for i in range(1, 8)], []))
        T.append(('chain12', 12, [[i, i + 1] for i in range(11)], [], []))
        T.append(('tets_shared_edge', 6, [], [], [[0, 1, 2, 3], [0, 1, 3, 4], [0, 1, 4, 5]]))
    return T


def random_topologies(seed, count):
    """small random meshes: polylines, triangle / quad / polygon soups with explicit extra edges, strips of tetrahedra"""
    rnd = random.Random(7919 * seed + 17)
    for k in range(count):
        kind = ('polyline', 'tri', 'quad', 'poly', 'tets', 'pc')[k % 6]
        nv = rnd.randint(6, 9)
        E, F, C = [], [], []
        if kind == 'polyline':
            E = [rnd.sample(range(nv), 2) for _ in range(rnd.randint(1, 7))]
        elif kind in ('tri', 'quad', 'poly'):
            for _ in range(rnd.randint(1, 5)):
                n = 3 if kind == 'tri' else 4 if kind == 'quad' else rnd.randint(3, 6)
                F.append(rnd.sample(range(nv), n))
            fe = set()
            for f in F:
                fe |= face_edges([f])
            seen = set()
            for _ in range(rnd.randint(0, 3)):
                e = tuple(sorted(rnd.sample(range(nv), 2)))
                if e not in seen:
                    seen.add(e)
                    E.append(list(e))
            if len(set(tuple(sorted(f)) for f in F)) != len(F):
                F = F[:1]
        elif kind == 'tets':
            C = [[i, i + 1, i + 2, i + 3] if i % 2 == 0 else [i + 1, i, i + 2, i + 3] for i in range(nv - 3)][:rnd.randint(1, 4)]
        yield ('rand_%s_%d_%d' % (kind, seed, k), nv, E, F, C)


def make_mesh_desc(name, nv_or_V, E, F, C, ckind='nice', seed=0):
    if isinstance(nv_or_V, int):
        V = coords(nv_or_V, ckind, seed)
    elif ckind == 'nice':
        V = [list(map(float, p)) for p in nv_or_V]
    else:
        base = coords(len(nv_or_V), ckind, seed)
        V = base
    return {'mesh': name, 'coords': ckind, 'V': V, 'E': [list(e) for e in E], 'F': [list(f) for f in F], 'C': [list(c) for c in C]}


# ----------------------------------------------------------------------------------------------------------------------
# helpers: building, capturing, forking
# ----------------------------------------------------------------------------------------------------------------------
DEFAULT_OPTS = {'export_edges_in_obj': True, 'complete_edges_from_faces': True, 'complete_faces_from_cells': True, 'ignore_elements': None, 'upper_ext': False,
                'decorate': None}     # decorate: 'normals' | 'uv_vertices' | 'uv_corners' -> attributes that switch the obj / xyz exporters to other layouts


def full_opts(o):
    d = dict(DEFAULT_OPTS)
    d.update(o or {})
    return d


class Config:
    def __init__(self, opts):
        self.o = full_opts(opts)

    def __enter__(self):
        self.saved = (M.config.export_edges_in_obj, M.config.complete_edges_from_faces, M.config.complete_faces_from_cells)
        M.config.export_edges_in_obj = self.o['export_edges_in_obj']
        M.config.complete_edges_from_faces = self.o['complete_edges_from_faces']
        M.config.complete_faces_from_cells = self.o['complete_faces_from_cells']

    def __exit__(self, *a):
        M.config.export_edges_in_obj, M.config.complete_edges_from_faces, M.config.complete_faces_from_cells = self.saved


def build(md):
    raw = M.mesh.RawMeshData()
    raw.vertices += [M.Vec(float(p[0]), float(p[1]), float(p[2])) for p in md['V']]
    raw.edges += [tuple(e) for e in md['E']]
    raw.faces += [tuple(f) for f in md['F']]
    raw.cells += [tuple(c) for c in md['C']]
    if md['C']:
        return M.mesh.VolumeMesh(raw)
    if md['F']:
        return M.mesh.SurfaceMesh(raw)
    if md['E']:
        return M.mesh.PolyLine(raw)
    return M.mesh.PointCloud(raw)


def capture(m):
    """plain-python snapshot of a mesh object: class name, V, E, F, C"""
    V = [[float(c) for c in v] for v in m.vertices]
    E = [tuple(int(x) for x in e) for e in m.edges] if hasattr(m, 'edges') else []
    F = [tuple(int(x) for x in f) for f in m.faces] if hasattr(m, 'faces') else []
    C = [tuple(int(x) for x in c) for c in m.cells] if hasattr(m, 'cells') else []
    FC = [(int(a), int(b)) for a, b in zip(m.face_corners._elem, m.face_corners._adj)] if hasattr(m, 'face_corners') else None
    CC = [(int(a), int(b)) for a, b in zip(m.cell_corners._elem, m.cell_corners._adj)] if hasattr(m, 'cell_corners') else None
    return {'cls': type(m).__name__, 'V': V, 'E': E, 'F': F, 'C': C, 'FC': FC, 'CC': CC}


def corners_consistent(got, what):
    """the corner containers of a loaded object must describe the same faces / cells as the element containers"""
    if got.get('FC') is not None:
        want = [(v, i) for i, f in enumerate(got['F']) for v in f]
        if got['FC'] != want:
            return '%s: face corners %r do not match the faces %r (expected corners %r)' % (what, got['FC'][:8], got['F'][:3], want[:8])
    if got.get('CC') is not None:
        want = [(v, i) for i, c in enumerate(got['C']) for v in c]
        if got['CC'] != want:
            return '%s: cell corners %r do not match the cells %r (expected corners %r)' % (what, got['CC'][:8], got['C'][:3], want[:8])
    return None


def forked(fn):
    """run fn() in a forked child; -> ('ok', value) | ('exc', text) | ('abort', text)"""
    sys.stdout.flush()
    r, w = os.pipe()
    pid = os.fork()
    if pid == 0:
        os.close(r)
        try:
            devnull = os.open(os.devnull, os.O_WRONLY)
            os.dup2(devnull, 2)
            try:
                out = ('ok', fn())
            except BaseException as e:
                out = ('exc', '%s: %s' % (type(e).__name__, e))
            os.write(w, pickle.dumps(out))
        finally:
            os._exit(0)
    os.close(w)
    buf = b''
    while True:
        b = os.read(r, 1 << 16)
        if not b:
            break
        buf += b
    os.close(r)
    _, st = os.waitpid(pid, 0)
    if not buf:
        return ('abort', 'the interpreter was aborted (wait status %d, signal %d)' % (st, st & 0x7f))
    return pickle.loads(buf)


def load_captured(path, fmt):
    """-> (snapshot or None, error string or None)"""
    if fmt == 'stl':
        st, val = forked(lambda: capture(M.mesh.load(path)))
        if st == 'ok':
            return val, None
        return None, 'load ' + ('raised ' if st == 'exc' else '') + val
    try:
        return capture(M.mesh.load(path)), None
    except Exception as e:
        return None, 'load raised %s: %s' % (type(e).__name__, e)


def bits(x):
    return struct.pack('<d', float(x))


def same_coords(A, B):
    """bit-exact comparison of two lists of 3-vectors; -> None or message"""
    if len(A) != len(B):
        return '%d vertices, expected %d' % (len(A), len(B))
    for i, (a, b) in enumerate(zip(A, B)):
        if len(a) != 3:
            return 'vertex %d has %d coordinates' % (i, len(a))
        for k in range(3):
            if bits(a[k]) != bits(b[k]):
                return 'vertex %d coordinate %d is %r, expected %r (not bit-identical)' % (i, k, a[k], b[k])
    return None


def norm_edges(E):
    return [tuple(sorted((int(a), int(b)))) for a, b in E]


def face_edges(F):
    s = set()
    for f in F:
        for i in range(len(f)):
            s.add(tuple(sorted((f[i], f[(i + 1) % len(f)]))))
    return s


HEX_FACES = [(0, 1, 2, 3), (4, 5, 6, 7), (0, 3, 7, 4), (0, 1, 5, 4), (1, 2, 6, 5), (2, 3, 7, 6)]


def cell_face_sets(C):
    """vertex sets of the facets of tets / hexes (derived faces)"""
    out = set()
    for c in C:
        if len(c) == 4:
            for tr in itertools.combinations(c, 3):
                out.add(tuple(sorted(tr)))
        elif len(c) == 8:
            for hf in HEX_FACES:
                out.add(tuple(sorted(c[i] for i in hf)))
    return out


def by_arity(L):
    d = {}
    for x in L:
        d.setdefault(len(x), []).append(tuple(x))
    return d


# ----------------------------------------------------------------------------------------------------------------------
# vocabulary of the formats and the projection check
# ----------------------------------------------------------------------------------------------------------------------
def vocabulary(fmt, opts):
    ign = set(opts['ignore_elements'] or [])
    edges = fmt in ('obj', 'mesh', 'geogram_ascii', 'off') and not (fmt == 'obj' and not opts['export_edges_in_obj']) and 'edges' not in ign
    if 'faces' in ign:
        face = lambda n: False
    else:
        face = {'obj': lambda n: n >= 3, 'geogram_ascii': lambda n: n >= 3, 'off': lambda n: n >= 3, 'mesh': lambda n: n in (3, 4),
                'stl': lambda n: n == 3}.get(fmt, lambda n: False)
    if 'cells' in ign:
        cmust = cmay = lambda n: False
    else:
        cmust = {'mesh': lambda n: n in (4, 8), 'geogram_ascii': lambda n: n in (4, 8), 'tet': lambda n: n == 4}.get(fmt, lambda n: False)
        cmay = (lambda n: n == 8) if fmt == 'tet' else (lambda n: False)
    return edges, face, cmust, cmay


def compare(orig, explicit_E, got, fmt, opts, what):
    """orig: snapshot of the mesh that was saved (or of the data written by the independent writer);
    got: snapshot of what came back (loaded object or independent parse, got['cls'] may be None for a parse).
    -> None or error message"""
    edges_ok, face_ok, cmust, cmay = vocabulary(fmt, opts)
    ign = set(opts['ignore_elements'] or [])
    is_file = got.get('cls') is None
    # (a) coordinates
    err = same_coords(got['V'], orig['V'])
    if err:
        return '%s: coordinates: %s' % (what, err)
    nV = len(orig['V'])
    for kind in ('E', 'F', 'C'):
        for el in got[kind]:
            if any((not isinstance(v, int)) or v < 0 or v >= nV for v in el):
                return '%s: element %r of kind %s has an index outside [0,%d)' % (what, el, kind, nV)
    # (b,c) cells
    oc, gc = by_arity(orig['C']), by_arity(got['C'])
    exp_cells = []
    for n in sorted(set(oc) | set(gc)):
        o, g = oc.get(n, []), gc.get(n, [])
        if cmust(n):
            if g != o:
                return '%s: %d-vertex cells are %r, expected %r (same cells, same vertex order)' % (what, n, g[:6], o[:6])
            exp_cells += o
        elif cmay(n):
            if g and g != o:
                return '%s: %d-vertex cells are %r, expected %r or none' % (what, n, g[:6], o[:6])
            exp_cells += g
        elif g:
            return '%s: %d cell(s) with %d vertices %r came back although %s cannot express them / they were not saved (saved mesh had %d such cells)' % (
                what, len(g), n, g[:4], fmt, len(o))
    # faces
    of, gf = by_arity(orig['F']), by_arity(got['F'])
    faces_written = any(face_ok(n) for n in (3, 4, 5))
    exp_faces = []
    if faces_written:
        for n in sorted(set(of) | set(gf)):
            o, g = of.get(n, []), gf.get(n, [])
            if face_ok(n):
                if g != o:
                    return '%s: %d-vertex faces are %r, expected %r (same faces, same vertex order)' % (what, n, g[:6], o[:6])
                exp_faces += o
            elif g:
                return '%s: %d face(s) with %d vertices %r came back although %s cannot express them (saved mesh had %d such faces)' % (
                    what, len(g), n, g[:4], fmt, len(o))
    else:
        derived = cell_face_sets(exp_cells) if (opts['complete_faces_from_cells'] and not is_file) else set()
        g = sorted(tuple(sorted(f)) for f in got['F'])
        if g != sorted(derived):
            return '%s: faces %r came back although %s; only the %d facets of the loaded cells may be present' % (
                what, [f for f in got['F'] if tuple(sorted(f)) not in derived][:4] or got['F'][:4],
                'faces were ignored on save' if 'faces' in ign else fmt + ' cannot express faces', len(derived))
        exp_faces = list(got['F'])
    # edges
    ge = norm_edges(got['E'])
    if any(a == b for a, b in ge):
        return '%s: degenerate edge in %r' % (what, ge[:6])
    derivedE = face_edges(exp_faces) if (opts['complete_edges_from_faces'] and not is_file) else set()
    expl = set(norm_edges(explicit_E))
    pure_polyline = not orig['F'] and not orig['C']
    if edges_ok:
        if is_file:
            # the file must contain the explicit edges and may contain other edges of the mesh
            if not (expl <= set(ge) <= set(norm_edges(orig['E']))) or len(ge) != len(set(ge)) and not pure_polyline:
                return '%s: edges in the file are %r; expected the explicit edges %r (+ possibly other mesh edges)' % (what, ge[:8], sorted(expl)[:8])
            if pure_polyline and ge != norm_edges(orig['E']):
                return '%s: edges in the file are %r, expected %r' % (what, ge[:8], norm_edges(orig['E'])[:8])
        elif pure_polyline:
            if ge != norm_edges(orig['E']):
                return '%s: edges are %r, expected %r' % (what, ge[:8], norm_edges(orig['E'])[:8])
        else:
            lo, hi = expl | derivedE, expl | derivedE
            if 'faces' in ign or 'cells' in ign:
                hi = hi | set(norm_edges(orig['E']))     # edges of ignored faces are still edges of the mesh: either reading is accepted
            if not (lo <= set(ge) <= hi) or len(ge) != len(set(ge)):
                return '%s: edges are %r, expected explicit edges + edges of the faces = %r' % (what, sorted(ge)[:10], sorted(lo)[:10])
    else:
        if set(ge) != derivedE or len(ge) != len(set(ge)):
            extra = sorted(set(ge) - derivedE)
            return '%s: edges %r came back although %s; only the %d edges of the loaded faces may be present' % (
                what, extra[:6] or sorted(ge)[:6], 'edges were not exported' if fmt in ('obj', 'mesh', 'geogram_ascii', 'off') else fmt + ' cannot express edges', len(derivedE))
    # (d) class
    if not is_file:
        want = 'VolumeMesh' if exp_cells else 'SurfaceMesh' if exp_faces else 'PolyLine' if (ge and edges_ok) else 'PointCloud'
        if got['cls'] != want:
            return '%s: loaded object is a %s, its content implies %s' % (what, got['cls'], want)
        return corners_consistent(got, what)
    return None


def compare_stl(orig, got, what):
    """triangle soup comparison in single precision"""
    tris = [f for f in orig['F'] if len(f) == 3]
    other = [f for f in orig['F'] if len(f) != 3]
    if any(len(f) != 3 for f in got['F']) or got['C']:
        return '%s: non-triangle elements %r' % (what, ([f for f in got['F'] if len(f) != 3] + got['C'])[:4])
    if len(got['F']) != len(tris):
        return '%s: %d triangles came back, the mesh has %d triangles (and %d other faces which STL cannot express and which must not be turned into triangles)' % (
            what, len(got['F']), len(tris), len(other))
    OV = np.array(orig['V'], dtype=np.float64).reshape(-1, 3)
    with np.errstate(all='ignore'):
        OV32 = OV.astype(np.float32)
    GV = np.array(got['V'], dtype=np.float64).reshape(-1, 3)
    for i, (fo, fg) in enumerate(zip(tris, got['F'])):
        a = OV32[list(fo)].astype(np.float64)
        b = GV[list(fg)]
        if a.shape != b.shape or not np.array_equal(a, b):
            return '%s: triangle %d has corners %r, expected (float32 of the saved corners) %r' % (what, i, b.tolist(), a.tolist())
    want = 'SurfaceMesh' if tris else 'PointCloud'
    if got.get('cls') is not None and got['cls'] != want:
        return '%s: loaded object is a %s, its content implies %s' % (what, got['cls'], want)
    return corners_consistent(got, what)


# ----------------------------------------------------------------------------------------------------------------------
# independent readers (written from the format definitions)
# ----------------------------------------------------------------------------------------------------------------------
class FormatError(Exception):
    pass


def rd_obj(path):
    V, E, F = [], [], []
    for line in open(path):
        t = line.split('#')[0].split()
        if not t:
            continue
        if t[0] == 'v':
            V.append([float(x) for x in t[1:4]])
        elif t[0] == 'l':
            ids = [int(x.split('/')[0]) for x in t[1:]]
            ids = [i - 1 if i > 0 else len(V) + i for i in ids]
            if len(ids) < 2:
                raise FormatError('l statement with %d vertices' % len(ids))
            E += [(ids[i], ids[i + 1]) for i in range(len(ids) - 1)]
        elif t[0] == 'f':
            ids = [int(x.split('/')[0]) for x in t[1:]]
            if len(ids) < 3:
                raise FormatError('f statement with %d vertices' % len(ids))
            F.append(tuple(i - 1 if i > 0 else len(V) + i for i in ids))
        elif t[0] in ('vn', 'vt', 'vp', 'o', 'g', 's', 'usemtl', 'mtllib'):
            pass
        else:
            raise FormatError('unknown OBJ statement %r' % t[0])
    return {'cls': None, 'V': V, 'E': E, 'F': F, 'C': []}


def rd_off(path):
    lines = [l.split('#')[0].split() for l in open(path)]
    lines = [l for l in lines if l]
    if not lines or lines[0] != ['OFF']:
        raise FormatError('missing OFF header')
    try:
        nv, nf, ne = (int(x) for x in lines[1])
    except Exception:
        raise FormatError('bad counts line %r' % lines[1])
    body = lines[2:]
    if len(body) != nv + nf:
        raise FormatError('header announces %d vertices + %d faces but the body has %d lines' % (nv, nf, len(body)))
    V = [[float(x) for x in l[:3]] for l in body[:nv]]
    E, F = [], []
    for l in body[nv:]:
        n = int(l[0])
        if len(l) < n + 1:
            raise FormatError('face line %r too short' % l)
        ids = tuple(int(x) for x in l[1:n + 1])
        if n == 2:
            E.append(ids)
        elif n >= 3:
            F.append(ids)
        else:
            raise FormatError('face with %d vertices' % n)
    return {'cls': None, 'V': V, 'E': E, 'F': F, 'C': []}


MEDIT_BLOCKS = {'Vertices': 3, 'Edges': 2, 'Triangles': 3, 'Quadrilaterals': 4, 'Tetrahedra': 4, 'Hexahedra': 8}


def rd_medit(path):
    toks = []
    for l in open(path):
        toks += l.split('#')[0].split()
    i = 0
    out = {'cls': None, 'V': [], 'E': [], 'F': [], 'C': []}
    seen_header = False
    dim = 3
    while i < len(toks):
        t = toks[i]
        if t == 'MeshVersionFormatted':
            seen_header = True
            i += 2
        elif t == 'Dimension':
            if toks[i + 1] not in ('2', '3'):
                raise FormatError('Dimension %s' % toks[i + 1])
            dim = int(toks[i + 1])
            i += 2
        elif t == 'End':
            break
        elif t in MEDIT_BLOCKS:
            k = MEDIT_BLOCKS[t] if t != 'Vertices' else dim
            try:
                n = int(toks[i + 1])
            except Exception:
                raise FormatError('block %s without a count' % t)
            i += 2
            need = n * (k + 1)
            chunk = toks[i:i + need]
            if len(chunk) < need:
                raise FormatError('block %s truncated' % t)
            for j in range(n):
                row = chunk[j * (k + 1):(j + 1) * (k + 1)]
                try:
                    if t == 'Vertices':
                        out['V'].append(([float(x) for x in row[:dim]] + [0.0])[:3])
                        int(row[dim])
                    else:
                        ids = tuple(int(x) - 1 for x in row[:k])
                        int(row[k])
                        out['E' if t == 'Edges' else 'F' if t in ('Triangles', 'Quadrilaterals') else 'C'].append(ids)
                except ValueError:
                    raise FormatError('block %s: bad row %r' % (t, row))
            i += need
        else:
            raise FormatError('unknown medit keyword %r' % t)
    if not seen_header:
        raise FormatError('MeshVersionFormatted missing')
    return out


GEO_CELL_NV = {0: 4, 1: 8, 2: 6, 3: 5, 4: 4}


def rd_geogram(path, only_attrs=False):
    """-> snapshot + 'attrs': {(set, name): (type, dim, values)}.
    only_attrs: a malformed [ATTR] chunk is recorded in 'bad' and skipped (up to the next chunk header) instead of rejecting the file"""
    lines = [l.strip() for l in open(path)]
    if lines and lines[-1] == '':
        lines = lines[:-1]
    if any(l == '' for l in lines) and not only_attrs:
        raise FormatError('empty line inside the file')
    i = 0
    sizes, attrs, bad = {}, {}, {}

    def unq(s):
        if len(s) >= 2 and s[0] == '"' and s[-1] == '"':
            return s[1:-1]
        raise FormatError('expected a quoted string, got %r' % s)
    if lines[:3] != ['[HEAD]', '"GEOGRAM"', '"1.0"']:
        raise FormatError('bad [HEAD] chunk %r' % lines[:3])
    i = 3
    while i < len(lines):
        if lines[i] == '[ATTS]':
            name = unq(lines[i + 1])
            sizes[name] = int(lines[i + 2])
            i += 3
        elif lines[i] == '[ATTR]' and only_attrs:
            j = i + 1
            while j < len(lines) and not lines[j].startswith('['):
                j += 1
            try:
                aset, name, typ = unq(lines[i + 1]), unq(lines[i + 2]), unq(lines[i + 3])
                esz, dim = int(lines[i + 4]), int(lines[i + 5])
                vals = lines[i + 6:j]
                if aset not in sizes or len(vals) != sizes[aset] * dim:
                    raise FormatError('%d values for %r x %d' % (len(vals), sizes.get(aset), dim))
                vals = [float(v) for v in vals] if typ in ('double', 'float') else [int(v) for v in vals]
                attrs[(aset, name)] = (typ, dim, vals)
            except (FormatError, ValueError, IndexError) as e:
                bad[(lines[i + 1].strip('"'), lines[i + 2].strip('"'))] = str(e)
            i = j
        elif lines[i] == '[ATTR]':
            aset, name, typ = unq(lines[i + 1]), unq(lines[i + 2]), unq(lines[i + 3])
            try:
                esz, dim = int(lines[i + 4]), int(lines[i + 5])
            except ValueError:
                raise FormatError('attribute %s/%s: element size / dimension are %r %r' % (aset, name, lines[i + 4], lines[i + 5]))
            if aset not in sizes:
                raise FormatError('attribute %r in attribute set %r which was not declared by an [ATTS] chunk' % (name, aset))
            n = sizes[aset] * dim
            vals = lines[i + 6:i + 6 + n]
            if len(vals) < n or any(v.startswith('[') for v in vals):
                raise FormatError('attribute %s/%s: fewer than %d x %d values' % (aset, name, sizes[aset], dim))
            try:
                if typ in ('double', 'float'):
                    vals = [float(v) for v in vals]
                elif typ in ('index_t', 'int', 'signed_index_t', 'char', 'bool'):
                    vals = [int(v) for v in vals]
                else:
                    raise FormatError('attribute %s/%s has unknown type %r' % (aset, name, typ))
            except ValueError as e:
                raise FormatError('attribute %s/%s: bad value (%s)' % (aset, name, e))
            attrs[(aset, name)] = (typ, dim, vals)
            i += 6 + n
            if i < len(lines) and not lines[i].startswith('['):
                raise FormatError('attribute %s/%s: more than %d x %d values (next line %r)' % (aset, name, sizes[aset], dim, lines[i]))
        else:
            raise FormatError('unexpected line %r' % lines[i])
    out = {'cls': None, 'V': [], 'E': [], 'F': [], 'C': [], 'attrs': attrs, 'sizes': sizes, 'bad': bad}
    if only_attrs:
        return out
    P = 'GEO::Mesh::'
    pt = attrs.get((P + 'vertices', 'point'))
    if pt:
        if pt[1] != 3:
            raise FormatError('point dimension %d' % pt[1])
        out['V'] = [pt[2][3 * k:3 * k + 3] for k in range(sizes[P + 'vertices'])]
    ev = attrs.get((P + 'edges', P + 'edges::edge_vertex'))
    if sizes.get(P + 'edges', 0):
        if not ev:
            raise FormatError('edges without edge_vertex')
        out['E'] = [tuple(ev[2][2 * k:2 * k + 2]) for k in range(sizes[P + 'edges'])]
    nf = sizes.get(P + 'facets', 0)
    if nf:
        cv = attrs.get((P + 'facet_corners', P + 'facet_corners::corner_vertex'))
        if not cv:
            raise FormatError('facets without corner_vertex')
        nc = sizes[P + 'facet_corners']
        fp = attrs.get((P + 'facets', P + 'facets::facet_ptr'))
        ptr = (fp[2] if fp else [3 * k for k in range(nf)]) + [None]
        ptr[-1] = nc if fp else 3 * nf
        if ptr[-1] != nc:
            raise FormatError('%d facets without facet_ptr (i.e. triangles) but %d facet corners' % (nf, nc))
        out['F'] = [tuple(cv[2][ptr[k]:ptr[k + 1]]) for k in range(nf)]
    ncell = sizes.get(P + 'cells', 0)
    if ncell:
        cv = attrs.get((P + 'cell_corners', P + 'cell_corners::corner_vertex'))
        if not cv:
            raise FormatError('cells without corner_vertex')
        nc = sizes[P + 'cell_corners']
        cp = attrs.get((P + 'cells', P + 'cells::cell_ptr'))
        ct = attrs.get((P + 'cells', P + 'cells::cell_type'))
        if cp:
            ptr = list(cp[2]) + [nc]
        else:
            ptr = [4 * k for k in range(ncell + 1)]
            if ptr[-1] != nc:
                raise FormatError('%d cells without cell_ptr (i.e. tetrahedra) but %d cell corners' % (ncell, nc))
        out['C'] = [tuple(cv[2][ptr[k]:ptr[k + 1]]) for k in range(ncell)]
        if ct:
            for k in range(ncell):
                if GEO_CELL_NV.get(ct[2][k]) != len(out['C'][k]):
                    raise FormatError('cell %d: type %d but %d corners' % (k, ct[2][k], len(out['C'][k])))
    return out


def rd_tet(path):
    lines = [l.split() for l in open(path)]
    lines = [l for l in lines if l]
    try:
        nv, nt = int(lines[0][0]), int(lines[1][0])
    except Exception:
        raise FormatError('bad header %r' % lines[:2])
    if lines[0][1:] != ['vertices'] or lines[1][1:] not in (['tets'], ['cells']):
        raise FormatError('bad header %r' % lines[:2])
    body = lines[2:]
    if len(body) != nv + nt:
        raise FormatError('%d lines for %d vertices + %d cells' % (len(body), nv, nt))
    V = [[float(x) for x in l[:3]] for l in body[:nv]]
    C = []
    for l in body[nv:]:
        n = int(l[0])
        if len(l) != n + 1:
            raise FormatError('cell line %r' % l)
        C.append(tuple(int(x) for x in l[1:]))
    return {'cls': None, 'V': V, 'E': [], 'F': [], 'C': C}


def rd_xyz(path):
    V = []
    for l in open(path):
        t = l.split()
        if not t:
            continue
        if len(t) not in (3, 6):
            raise FormatError('line with %d numbers' % len(t))
        V.append([float(x) for x in t[:3]])
    return {'cls': None, 'V': V, 'E': [], 'F': [], 'C': []}


def rd_stl(path):
    data = open(path, 'rb').read()
    if len(data) < 84:
        raise FormatError('file shorter than the 84-byte header')
    n = struct.unpack('<I', data[80:84])[0]
    if len(data) != 84 + 50 * n:
        raise FormatError('%d triangles announced, file size %d != %d' % (n, len(data), 84 + 50 * n))
    V, F = [], []
    for k in range(n):
        rec = struct.unpack('<12fH', data[84 + 50 * k:134 + 50 * k])
        for j in range(3):
            V.append([float(x) for x in rec[3 + 3 * j:6 + 3 * j]])
        F.append((3 * k, 3 * k + 1, 3 * k + 2))
    return {'cls': None, 'V': V, 'E': [], 'F': F, 'C': []}


READERS = {'obj': rd_obj, 'off': rd_off, 'mesh': rd_medit, 'geogram_ascii': rd_geogram, 'tet': rd_tet, 'xyz': rd_xyz, 'stl': rd_stl}


# ----------------------------------------------------------------------------------------------------------------------
# independent writers: data = projection of the case on the format, several legal layouts
# ----------------------------------------------------------------------------------------------------------------------
def r(x):
    return repr(float(x))


def wr_obj(path, V, E, F, C, variant):
    with open(path, 'w') as f:
        if variant == 'rich':
            f.write('# written by an independent writer\nmtllib none.mtl\no thing\n\n')
        for p in V:
            f.write('v %s %s %s\n' % (r(p[0]), r(p[1]), r(p[2])))
        if variant == 'rich':
            for p in V:
                f.write('vt 0.5 0.25\n')
            f.write('vn 0.0 0.0 1.0\ng grp\nusemtl m\ns off\n')
        if variant == 'polyline' and E:
            # maximal chains written as a single "l" statement (legal OBJ)
            chains, cur = [], list(E[0])
            for a, b in E[1:]:
                if a == cur[-1]:
                    cur.append(b)
                else:
                    chains.append(cur)
                    cur = [a, b]
            chains.append(cur)
            for ch in chains:
                f.write('l ' + ' '.join(str(i + 1) for i in ch) + '\n')
        else:
            for a, b in E:
                f.write('l %d %d\n' % (a + 1, b + 1))
        for fc in F:
            if variant == 'rich':
                f.write('f ' + ' '.join('%d/%d/1' % (i + 1, i + 1) for i in fc) + '\n')
            else:
                f.write('f ' + ' '.join(str(i + 1) for i in fc) + '\n')


def wr_off(path, V, E, F, C, variant):
    with open(path, 'w') as f:
        f.write('OFF\n')
        elems = [list(e) for e in E] + [list(fc) for fc in F]
        f.write('%d %d %d\n' % (len(V), len(elems), 0))
        if variant == 'spaced':
            f.write('\n')
        for p in V:
            f.write(('  ' if variant == 'spaced' else '') + '%s %s %s\n' % (r(p[0]), r(p[1]), r(p[2])))
        if variant == 'spaced':
            f.write('\n')
        for el in elems:
            f.write('%d  %s%s\n' % (len(el), ' '.join(str(i) for i in el), ' 255 0 0' if variant == 'spaced' else ''))


def wr_medit(path, V, E, F, C, variant):
    blocks = []
    tri, quad = [x for x in F if len(x) == 3], [x for x in F if len(x) == 4]
    tet, hx = [x for x in C if len(x) == 4], [x for x in C if len(x) == 8]
    for name, L in (('Edges', E), ('Triangles', tri), ('Quadrilaterals', quad), ('Tetrahedra', tet), ('Hexahedra', hx)):
        if L:
            blocks.append((name, L))
    if variant == 'reordered':
        blocks = blocks[::-1]
    if variant == 'dim2':
        with open(path, 'w') as f:
            f.write('MeshVersionFormatted 2\nDimension 2\nVertices\n%d\n' % len(V))
            for k, p in enumerate(V):
                f.write('%s %s %d\n' % (r(p[0]), r(p[1]), 7))
            for name, L in blocks:
                f.write('%s\n%d\n' % (name, len(L)))
                for el in L:
                    f.write(' '.join(str(i + 1) for i in el) + ' 0\n')
            f.write('End\n')
        return
    with open(path, 'w') as f:
        if variant == 'reordered':
            f.write(' MeshVersionFormatted 2\n\n Dimension\n 3\n\n')
        else:
            f.write('MeshVersionFormatted 2\nDimension 3\n')
        f.write('Vertices\n%d\n' % len(V))
        for k, p in enumerate(V):
            f.write('%s %s %s %d\n' % (r(p[0]), r(p[1]), r(p[2]), 0 if variant != 'reordered' else k % 3))
        for name, L in blocks:
            f.write(('\n ' if variant == 'reordered' else '') + '%s\n%d\n' % (name, len(L)))
            for k, el in enumerate(L):
                f.write(' '.join(str(i + 1) for i in el) + ' %d\n' % (0 if variant != 'reordered' else 7 + k))
        f.write('\nEnd\n')


def wr_geogram(path, V, E, F, C, variant):
    P = 'GEO::Mesh::'
    out = ['[HEAD]', '"GEOGRAM"', '"1.0"']

    def atts(s, n):
        out.extend(['[ATTS]', '"%s%s"' % (P, s), str(n)])

    def attr(s, name, typ, esz, dim, vals):
        out.extend(['[ATTR]', '"%s%s"' % (P, s), '"%s"' % name, '"%s"' % typ, str(esz), str(dim)])
        out.extend(vals)
    atts('vertices', len(V))
    attr('vertices', 'point', 'double', 8, 3, [r(c) for p in V for c in p])
    if E:
        atts('edges', len(E))
        attr('edges', P + 'edges::edge_vertex', 'index_t', 4, 2, [str(i) for e in E for i in e])
    if F:
        atts('facets', len(F))
        if any(len(x) != 3 for x in F):
            ptr, acc = [], 0
            for x in F:
                ptr.append(acc)
                acc += len(x)
            attr('facets', P + 'facets::facet_ptr', 'index_t', 4, 1, [str(i) for i in ptr])
        nc = sum(len(x) for x in F)
        atts('facet_corners', nc)
        attr('facet_corners', P + 'facet_corners::corner_vertex', 'index_t', 4, 1, [str(i) for x in F for i in x])
        if variant == 'full':
            attr('facet_corners', P + 'facet_corners::corner_adjacent_facet', 'index_t', 4, 1, [str(NOT_AN_ID)] * nc)
    if C:
        atts('cells', len(C))
        if any(len(x) != 4 for x in C):
            if variant == 'full':
                attr('cells', P + 'cells::cell_type', 'char', 1, 1, [str({4: 0, 8: 1}[len(x)]) for x in C])
            ptr, acc = [], 0
            for x in C:
                ptr.append(acc)
                acc += len(x)
            attr('cells', P + 'cells::cell_ptr', 'index_t', 4, 1, [str(i) for i in ptr])
        nc = sum(len(x) for x in C)
        atts('cell_corners', nc)
        attr('cell_corners', P + 'cell_corners::corner_vertex', 'index_t', 4, 1, [str(i) for x in C for i in x])
        if variant == 'full':
            nfac = sum({4: 4, 8: 6}[len(x)] for x in C)
            atts('cell_facets', nfac)
            attr('cell_facets', P + 'cell_facets::adjacent_cell', 'index_t', 4, 1, [str(NOT_AN_ID)] * nfac)
    with open(path, 'w') as f:
        f.write('\n'.join(out) + '\n')


def wr_tet(path, V, E, F, C, variant):
    with open(path, 'w') as f:
        f.write('%d vertices\n%d tets\n' % (len(V), len(C)))
        for p in V:
            f.write('%s %s %s\n' % (r(p[0]), r(p[1]), r(p[2])))
        for c in C:
            f.write('%d %s\n' % (len(c), ' '.join(str(i) for i in c)))


def wr_xyz(path, V, E, F, C, variant):
    with open(path, 'w') as f:
        for p in V:
            f.write('%s %s %s%s\n' % (r(p[0]), r(p[1]), r(p[2]), ' 0.0 0.6 -0.8' if variant == 'normals' else ''))
        if variant == 'blank_end':
            f.write('\n')


def wr_stl(path, V, E, F, C, variant):
    tris = [x for x in F if len(x) == 3]
    if variant == 'ascii':
        with open(path, 'w') as f:
            f.write('solid oracle\n')
            for t in tris:
                f.write('  facet normal 0.0 0.0 1.0\n    outer loop\n')
                for i in t:
                    f.write('      vertex %s %s %s\n' % (r(V[i][0]), r(V[i][1]), r(V[i][2])))
                f.write('    endloop\n  endfacet\n')
            f.write('endsolid oracle\n')
    else:
        with open(path, 'wb') as f:
            f.write(struct.pack('<80sI', b'binary stl from an independent writer', len(tris)))
            for t in tris:
                f.write(struct.pack('<12fH', 0.0, 0.6, 0.8, *[c for i in t for c in V[i]], 0))


WRITERS = {'obj': (wr_obj, ['plain', 'rich', 'polyline']), 'off': (wr_off, ['plain', 'spaced']), 'mesh': (wr_medit, ['plain', 'reordered', 'dim2']),
           'geogram_ascii': (wr_geogram, ['plain', 'full']), 'tet': (wr_tet, ['plain']), 'xyz': (wr_xyz, ['plain', 'normals', 'blank_end']),
           'stl': (wr_stl, ['binary', 'ascii'])}


# ----------------------------------------------------------------------------------------------------------------------
# the four checks
# ----------------------------------------------------------------------------------------------------------------------
_counter = [0]


def tmp_path(fmt, opts):
    _counter[0] += 1
    ext = fmt.upper() if opts['upper_ext'] else fmt
    return os.path.join(TMP, 'm%d.%s' % (_counter[0], ext))


def save_case(case):
    """builds + saves; -> (orig snapshot, path, error)"""
    opts = full_opts(case.get('opts'))
    fmt = case['fmt']
    try:
        m = build(case)
        if opts['decorate'] == 'normals':
            a = m.vertices.create_attribute('normals', float, 3)
            for i in range(len(m.vertices)):
                a[i] = [0.6, -0.8, 0.1 * i]
        elif opts['decorate'] == 'uv_vertices':
            a = m.vertices.create_attribute('uv_coords', float, 2)
            for i in range(len(m.vertices)):
                a[i] = [0.25 * i, 1.0 / (i + 1)]
        elif opts['decorate'] == 'uv_corners':
            a = m.face_corners.create_attribute('uv_coords', float, 2)
            for i in range(len(m.face_corners)):
                a[i] = [0.125 * i, 1.0 / (i + 3)]
    except Exception as e:
        return None, None, 'ORACLE: could not build the mesh: %s: %s' % (type(e).__name__, e)
    orig = capture(m)
    path = tmp_path(fmt, opts)
    try:
        if opts['ignore_elements'] is None:
            M.mesh.save(m, path)
        else:
            M.mesh.save(m, path, ignore_elements=set(opts['ignore_elements']))
    except Exception as e:
        return orig, path, 'save raised %s: %s' % (type(e).__name__, e)
    if not os.path.exists(path):
        return orig, path, 'save wrote no file'
    return orig, path, None


def stl_expressible(V):
    return all(abs(c) < 3.0e38 for p in V for c in p)


def check_roundtrip(case):
    opts = full_opts(case.get('opts'))
    fmt = case['fmt']
    with Config(opts):
        orig, path, err = save_case(case)
        if err:
            return err
        got, err = load_captured(path, fmt)
        if err:
            return err
    if fmt == 'stl':
        return compare_stl(orig, got, 'after save+load')
    return compare(orig, case['E'], got, fmt, opts, 'after save+load')


def check_reader(case):
    opts = full_opts(case.get('opts'))
    fmt = case['fmt']
    with Config(opts):
        orig, path, err = save_case(case)
    if err:
        return err
    try:
        got = READERS[fmt](path)
    except FormatError as e:
        return 'an independent %s reader rejects the file written by mouette: %s' % (fmt, e)
    except (ValueError, IndexError) as e:
        return 'an independent %s reader cannot parse the file written by mouette: %s: %s' % (fmt, type(e).__name__, e)
    if fmt == 'stl':
        return compare_stl(orig, got, 'file read by an independent reader')
    return compare(orig, case['E'], got, fmt, opts, 'file read by an independent reader')


def project(case, fmt):
    """what an independent writer would put in a file of this format"""
    opts = full_opts(None)
    edges_ok, face_ok, cmust, cmay = vocabulary(fmt, opts)
    E = norm_edges(case['E']) if edges_ok else []
    F = [tuple(f) for f in case['F'] if face_ok(len(f))]
    C = [tuple(c) for c in case['C'] if cmust(len(c))]
    return E, F, C


def check_writer(case):
    fmt, variant = case['fmt'], case['variant']
    opts = full_opts(None)
    E, F, C = project(case, fmt)
    V = case['V']
    path = tmp_path(fmt, opts)
    WRITERS[fmt][0](path, V, E, F, C, variant)
    # sanity: the independent reader must read the independent file back (guards the oracle itself)
    if not (fmt == 'stl' and variant == 'ascii'):
        try:
            back = READERS[fmt](path)
            ok = back['E'] == [tuple(e) for e in E] or fmt == 'obj' and variant == 'polyline' and norm_edges(back['E']) == E
            if not (same_coords(back['V'], V if fmt != 'stl' else back['V']) is None and ok and by_arity(back['F']) == by_arity(F if fmt != 'stl' else back['F'])
                    and by_arity(back['C']) == by_arity(C)):
                return 'ORACLE: independent reader and writer disagree on %s/%s' % (fmt, variant)
        except FormatError as e:
            return 'ORACLE: independent reader rejects independent file: %s' % e
    got, err = load_captured(path, fmt)
    if err:
        return 'file from an independent writer (%s layout): %s' % (variant, err)
    what = 'file from an independent writer (%s layout)' % variant
    if fmt == 'stl':
        if variant == 'ascii':
            # ascii STL keeps double precision text: corners must be exactly the numbers written
            tris = F
            if len(got['F']) != len(tris):
                return '%s: %d triangles loaded, %d written' % (what, len(got['F']), len(tris))
            for i, (fo, fg) in enumerate(zip(tris, got['F'])):
                a = [V[k] for k in fo]
                b = [got['V'][k] for k in fg]
                if same_coords(b, a):
                    return '%s: triangle %d has corners %r, written %r' % (what, i, b, a)
            want = 'SurfaceMesh' if tris else 'PointCloud'
            return None if got['cls'] == want else '%s: loaded object is a %s, its content implies %s' % (what, got['cls'], want)
        return compare_stl({'V': V, 'F': F}, got, what)
    # expected loaded content: the written elements; the loader may append the facets of the written cells to the faces
    orig = {'V': V, 'E': list(E), 'F': list(F), 'C': list(C)}
    if by_arity(got['C']) != by_arity(C):
        return '%s: cells are %r, written %r' % (what, got['C'][:6], list(C)[:6])
    if C and vocabulary(fmt, opts)[1](3):
        written = set(tuple(sorted(f)) for f in F)
        derived = cell_face_sets(C)
        extra = [f for f in got['F'] if tuple(sorted(f)) not in written]
        keys = [tuple(sorted(f)) for f in extra]
        if len(set(keys)) != len(keys) or set(keys) != derived - written:
            return '%s: faces %r are neither written faces nor (exactly) the facets of the written cells' % (what, extra[:6])
        orig['F'] = list(F) + extra
    return compare(orig, E, got, fmt, opts, what)


ATTR_CONTAINERS = ['vertices', 'edges', 'faces', 'face_corners', 'cells', 'cell_corners', 'cell_faces']
PY_TYPES = {'bool': bool, 'int': int, 'float': float, 'complex': complex, 'str': str}


def attr_values(typ, arity, n, seed):
    """sparse dict index -> value (value or list), deterministic; includes explicit default values"""
    rnd = random.Random(seed)
    pool = {'bool': [True, False, True], 'int': [0, 1, -2, 2147483647, -2147483648, 7],
            'float': [0.0, 0.1 + 0.2, -1e-300, 1.0 / 3.0, 1.7976931348623157e308, -0.0, 5e-324, 2.5],
            'complex': [1 + 2j, -0.5j], 'str': ['hello', 'a b']}[typ]
    vals = {}
    for i in range(n):
        if n > 2 and i % 3 == 1:
            continue        # left at the default value
        if arity == 1:
            vals[i] = pool[rnd.randrange(len(pool))]
        else:
            vals[i] = [pool[rnd.randrange(len(pool))] for _ in range(arity)]
    return vals


def check_attr(case):
    opts = full_opts(None)
    spec = case['attrs']          # list of dicts container,name,type,arity,dense
    try:
        m = build(case)
    except Exception as e:
        return 'ORACLE: could not build the mesh: %s' % e
    expected = []
    for k, a in enumerate(spec):
        if not hasattr(m, a['container']):
            return 'ORACLE: mesh has no container %s' % a['container']
        cont = getattr(m, a['container'])
        n = len(cont)
        at = cont.create_attribute(a['name'], PY_TYPES[a['type']], a['arity'], dense=a['dense'])
        vals = attr_values(a['type'], a['arity'], n, case.get('seed', 0) * 100 + k)
        for i, v in vals.items():
            at[i] = v
        default = {'bool': False, 'int': 0, 'float': 0.0, 'complex': 0j, 'str': ''}[a['type']]
        full = [vals.get(i, default if a['arity'] == 1 else [default] * a['arity']) for i in range(n)]
        expected.append((a, n, full))
    # the attribute mouette itself maintains on edges
    hard = None
    if hasattr(m, 'edges') and m.edges.has_attribute('hard_edges'):
        he = m.edges.get_attribute('hard_edges')
        hard = [bool(he[i]) for i in range(len(m.edges))]
    path = tmp_path('geogram_ascii', opts)
    try:
        M.mesh.save(m, path)
    except Exception as e:
        return 'save raised %s: %s' % (type(e).__name__, e)
    # independent reader on the attribute chunks
    SETS = {'vertices': 'GEO::Mesh::vertices', 'edges': 'GEO::Mesh::edges', 'faces': 'GEO::Mesh::facets', 'face_corners': 'GEO::Mesh::facet_corners',
            'cells': 'GEO::Mesh::cells', 'cell_corners': 'GEO::Mesh::cell_corners', 'cell_faces': 'GEO::Mesh::cell_facets'}
    GEO_T = {'bool': ('bool',), 'int': ('int', 'index_t', 'signed_index_t'), 'float': ('double',)}
    try:
        parsed = rd_geogram(path, only_attrs=True)
        for a, n, full in expected:
            key = (SETS[a['container']], a['name'])
            if key in parsed['bad']:
                return 'an independent reader cannot read the chunk of attribute %r in the file: %s' % (key, parsed['bad'][key])
            if key not in parsed['attrs']:
                return 'an independent reader finds no attribute %r in the file (chunks: %r)' % (key, sorted(parsed['attrs']) + sorted(parsed['bad']))
            typ, dim, vals = parsed['attrs'][key]
            if typ not in GEO_T.get(a['type'], ()) or dim != a['arity']:
                return 'independent reader: attribute %s has type %s x %d in the file, expected %s x %d' % (a['name'], typ, dim, a['type'], a['arity'])
            flat = [x for v in full for x in (v if a['arity'] > 1 else [v])]
            if len(vals) != len(flat) or any((float(x) != float(y)) if a['type'] == 'float' else (int(x) != int(y)) for x, y in zip(vals, flat)):
                return 'independent reader: attribute %s has values %r in the file, expected %r' % (a['name'], vals[:8], flat[:8])
    except FormatError as e:
        return 'an independent geogram reader rejects the file written by mouette: %s' % e
    try:
        l = M.mesh.load(path)
    except Exception as e:
        return 'load raised %s: %s' % (type(e).__name__, e)
    for a, n, full in expected:
        if not hasattr(l, a['container']):
            return 'loaded %s has no container %s' % (type(l).__name__, a['container'])
        cont = getattr(l, a['container'])
        if len(cont) != n:
            return 'container %s has %d elements after load, %d before' % (a['container'], len(cont), n)
        if not cont.has_attribute(a['name']):
            return 'attribute %s.%s is missing after load (attributes: %r)' % (a['container'], a['name'], list(cont.attributes))
        at = cont.get_attribute(a['name'])
        if at.type.name.lower() != {'str': 'string'}.get(a['type'], a['type']):
            return 'attribute %s.%s has type %s after load, expected %s' % (a['container'], a['name'], at.type.name, a['type'])
        if at.elemsize != a['arity']:
            return 'attribute %s.%s has arity %r after load, expected %d' % (a['container'], a['name'], at.elemsize, a['arity'])
        for i in range(n):
            try:
                v = at[i]
                g = [v] if a['arity'] == 1 else list(v)
            except Exception as e:
                return 'attribute %s.%s[%d] cannot be read after load: %s: %s' % (a['container'], a['name'], i, type(e).__name__, e)
            e_ = [full[i]] if a['arity'] == 1 else list(full[i])
            if len(g) != len(e_):
                return 'attribute %s.%s[%d] is %r after load, expected %r' % (a['container'], a['name'], i, g, e_)
            for x, y in zip(g, e_):
                bad = bool(x != y)      # numerical equality (-0.0 == 0.0): bit-exactness is only claimed for coordinates
                if a['type'] == 'bool' and not isinstance(x, (bool, np.bool_)):
                    bad = True
                if a['type'] == 'int' and isinstance(x, (bool, np.bool_, float, np.floating)):
                    bad = True
                if bad:
                    return 'attribute %s.%s[%d] is %r after load, expected %r' % (a['container'], a['name'], i, g, e_)
    if hard is not None and case.get('check_hard_edges'):
        if not hasattr(l, 'edges') or not l.edges.has_attribute('hard_edges'):
            return 'attribute edges.hard_edges is missing after load'
        he = l.edges.get_attribute('hard_edges')
        got = [bool(he[i]) for i in range(len(l.edges))]
        if got != hard:
            return 'attribute edges.hard_edges is %r after load, was %r when saved (edges %r)' % (got, hard, [tuple(e) for e in l.edges])
    return None


CHECKS = {'roundtrip': check_roundtrip, 'reader': check_reader, 'writer': check_writer, 'attr': check_attr}


def run_case(case):
    try:
        return CHECKS[case['check']](case)
    except Exception as e:
        import traceback
        return 'ORACLE: internal error %s: %s | %s' % (type(e).__name__, e, traceback.format_exc().splitlines()[-3:])


# ----------------------------------------------------------------------------------------------------------------------
# the family
# ----------------------------------------------------------------------------------------------------------------------
def family(seed, thorough):
    tops = topologies(thorough)
    descs = [make_mesh_desc(n, v, E, F, C, 'nice') for n, v, E, F, C in tops]
    byname = {d['mesh']: d for d in descs}

    def case(md, check, fmt, **kw):
        c = {'check': check, 'fmt': fmt}
        c.update(md)
        c.update(kw)
        return c
    # 1. every topology x every format, default switches: round trip, independent reader
    for md in descs:
        for fmt in FORMATS:
            if fmt == 'stl' and not md['F'] and not md['C'] and md['mesh'] not in ('pc5', 'chain4'):
                continue              # nothing STL can express: two representatives are enough
            yield case(md, 'roundtrip', fmt)
            yield case(md, 'reader', fmt)
    # 2. coordinates: special values and seeded random values on simple topologies
    sweeps = [('pc5', 5, [], [], []), ('tri2', 4, [], [[0, 1, 2], [0, 2, 3]], []), ('chain4', 4, [[0, 1], [2, 1], [2, 3]], [], []), ('tet2', 5, [], [], [[0, 1, 2, 4], [0, 2, 3, 4]])]
    big = ('pc20', 20, [], [], [])
    kinds = [('nasty', 0), ('f32', 0)] + [('random', seed * 10 + k) for k in range(6 if thorough else 2)]
    for n, nv, E, F, C in sweeps + [big]:
        for ck, sd in kinds:
            md = make_mesh_desc(n, nv, E, F, C, ck, sd)
            md['coord_seed'] = sd
            for fmt in FORMATS:
                if fmt == 'stl' and (not stl_expressible(md['V']) or not (F or C)):
                    continue          # binary STL stores float32: out-of-range coordinates are outside the format's vocabulary
                yield case(md, 'roundtrip', fmt)
                yield case(md, 'reader', fmt)
    for k, (n, nv, E, F, C) in enumerate(random_topologies(seed, 36 if thorough else 12)):
        md = make_mesh_desc(n, nv, E, F, C, 'random', seed * 100 + k)
        md['coord_seed'] = seed * 100 + k
        for fmt in FORMATS:
            if fmt == 'stl' and not any(len(f) == 3 for f in F):
                continue
            yield case(md, 'roundtrip', fmt)
    # 3. export switches
    for name in ('chain4', 'tri_hard', 'quad2', 'mixed_tri_quad', 'tet_hard_edge', 'tet_plus_face', 'hex1'):
        md = byname[name]
        # (config.complete_faces_from_cells=False is not in the family: a VolumeMesh cannot even be constructed with it)
        for o in ({'export_edges_in_obj': False}, {'complete_edges_from_faces': False},
                  {'ignore_elements': ['edges']}, {'ignore_elements': ['faces']}, {'ignore_elements': ['cells']}, {'ignore_elements': ['edges', 'faces']},
                  {'upper_ext': True}):
            for fmt in FORMATS:
                if 'export_edges_in_obj' in o and fmt != 'obj':
                    continue
                if fmt in ('xyz', 'stl') and 'upper_ext' not in o:
                    continue
                if o.get('ignore_elements') == ['cells'] and not md['C']:
                    continue
                yield case(md, 'roundtrip', fmt, opts=o)
                if 'upper_ext' not in o:
                    yield case(md, 'reader', fmt, opts=o)
    for name in ('pc5', 'tri2', 'mixed_tri_quad', 'tet2'):
        md = byname[name]
        for dec in ('normals', 'uv_vertices', 'uv_corners'):
            if dec == 'uv_corners' and not md['F'] and not md['C']:
                continue
            for fmt in ('obj', 'xyz', 'mesh', 'off'):
                yield case(md, 'roundtrip', fmt, opts={'decorate': dec})
                yield case(md, 'reader', fmt, opts={'decorate': dec})
    # 4. files from an independent writer
    for md in descs + [make_mesh_desc('tri2', 4, [], [[0, 1, 2], [0, 2, 3]], [], 'nasty'), make_mesh_desc('tet2', 5, [], [], [[0, 1, 2, 4], [0, 2, 3, 4]], 'nasty')]:
        for fmt in FORMATS:
            for variant in WRITERS[fmt][1]:
                if variant == 'polyline' and (md['F'] or md['C'] or not md['E']):
                    continue
                if variant == 'dim2' and (md['mesh'] != 'tri2_planar'):
                    continue          # a "Dimension 2" medit file only makes sense for a planar mesh (z = 0)
                if fmt == 'stl' and variant == 'binary' and not stl_expressible(md['V']):
                    continue
                if fmt == 'stl' and not any(len(f) == 3 for f in md['F']) and md['mesh'] not in ('pc5', 'quad1'):
                    continue          # empty STL files: two representatives are enough
                if fmt == 'xyz' and not (md['mesh'] in ('pc1', 'pc5') or md['coords'] == 'nasty'):
                    continue          # xyz only carries the vertices
                yield case(md, 'writer', fmt, variant=variant)
    # 5. geogram attributes
    bases = {'chain4': ['vertices', 'edges'], 'tri_hard': ['vertices', 'edges', 'faces', 'face_corners'],
             'tet1': ['cells', 'cell_corners', 'cell_faces'], 'tet2': ['vertices', 'cells', 'cell_corners', 'cell_faces']}
    yield case(byname['tri_hard'], 'attr', 'geogram_ascii', attrs=[], check_hard_edges=True)
    yield case(byname['tri2'], 'attr', 'geogram_ascii', attrs=[], check_hard_edges=True)
    for name, conts in bases.items():
        md = byname[name]
        for cont in conts:
            for typ in ('float', 'int', 'bool'):
                for arity in (1, 2, 3):
                    for dense in (False, True):
                        if not thorough and (arity == 2 and dense or name == 'tet2' and (arity == 2 or dense)):
                            continue
                        yield case(md, 'attr', 'geogram_ascii', seed=seed,
                                   attrs=[{'container': cont, 'name': '%s_%s%d%s' % (cont[:2], typ, arity, 'd' if dense else 's'), 'type': typ, 'arity': arity, 'dense': dense}])
        # several attributes at once on several containers
        yield case(md, 'attr', 'geogram_ascii', seed=seed + 1, attrs=[{'container': c, 'name': 'multi_%d_%s' % (k, t), 'type': t, 'arity': 1 + (k % 3), 'dense': bool(k % 2)}
                                                                      for k, (c, t) in enumerate(itertools.product(conts, ('float', 'int', 'bool')))])
    for typ in ('str', 'complex'):
        yield case(byname['tri2'], 'attr', 'geogram_ascii', seed=seed, attrs=[{'container': 'vertices', 'name': 'v_' + typ, 'type': typ, 'arity': 1, 'dense': False}])


def strip(c):
    return {k: v for k, v in c.items() if k != 'error'}


def main():
    req = read_request()
    seed = int(req.get('seed', 0) or 0)
    thorough = req.get('tier') == 'thorough'
    known = [strip(k) for k in (req.get('known') or [])]
    want_all = bool(req.get('all'))
    if req.get('mode') == 'replay':
        c = strip(req.get('case') or {})
        err = run_case(c)
        if err:
            c['error'] = err
            respond(failing=c, cases=1)
        respond(failing=None, cases=1)
    n = 0
    known_hit, allf = [], []
    budget = Budget(270 if thorough else 50)
    for c in family(seed, thorough):
        if budget.over():
            respond(failing=None, cases=n, known_hit=known_hit, note='time budget reached, family truncated', **({'all_failures': allf} if want_all else {}))
        c = json.loads(json.dumps(c))       # canonical JSON form (lists, floats) so that "known" comparison is exact
        n += 1
        err = run_case(c)
        if err:
            if c in known:
                k = dict(c)
                k['error'] = err
                known_hit.append(k)
                continue
            f = dict(c)
            f['error'] = err
            if want_all:
                allf.append(f)
                continue
            respond(failing=f, cases=n, known_hit=known_hit)
    respond(failing=allf[0] if allf else None, cases=n, known_hit=known_hit, **({'all_failures': allf} if want_all else {}))


main()
