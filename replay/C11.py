"""C11 native oracle: k-d tree construction terminates, stores every point once, kNN / radius queries exact."""
import itertools, signal, random
import numpy as np
from replay.common import *
from mouette.spatial import KDTree


class Timeout(Exception):
    pass


def _alarm(signum, frame):
    raise Timeout()


def build(points, leaf, strat, seconds=8):
    signal.signal(signal.SIGALRM, _alarm)
    signal.alarm(seconds)
    try:
        np.random.seed(0)
        return KDTree(points, leaf, strat)
    finally:
        signal.alarm(0)


def point_sets(seed, thorough):
    rnd = np.random.RandomState(seed)
    yield 'lattice2d', np.array([(i, j) for i in range(7) for j in range(7)], float)
    yield 'lattice3d', np.array([(i, j, k) for i in range(4) for j in range(4) for k in range(4)], float)
    yield 'random2d', rnd.rand(60, 2)
    yield 'random3d', rnd.randn(80, 3)
    yield 'line1d', np.linspace(0, 1, 17)[:, None]
    yield 'collinear', np.array([(t, 2 * t, 0.0) for t in np.linspace(-1, 1, 25)])
    yield 'identical30', np.zeros((30, 3)) + 0.5
    yield 'dups', np.array([(0., 0.)] * 7 + [(1., 0.)] * 9 + [(1., 1.)] * 3 + [(0.5, 0.25)])
    yield 'mostly_max', np.array([(1., 1.)] * 12 + [(0., 0.), (0.2, 0.7), (0.9, 0.1)])
    yield 'two', np.array([(0., 0.), (1., 1.)])
    yield 'clustered', np.vstack([rnd.randn(30, 2) * 0.01, rnd.randn(30, 2) * 0.01 + 5])
    if thorough:
        yield 'random5d', rnd.rand(100, 5)


def check(name, P, leaf, strat, seed):
    rnd = np.random.RandomState(seed)
    n, d = P.shape
    try:
        t = build(P, leaf, strat)
    except Timeout:
        return 'construction did not finish within 8 s'
    except Exception as e:
        return 'construction raised %s: %s' % (type(e).__name__, e)
    cnt = np.zeros(n, int)
    for nd in t.nodes:
        if isinstance(nd, KDTree.Leaf):
            for i in nd.points:
                cnt[int(i)] += 1
    if not np.all(cnt == 1):
        return 'points stored %r times in leaves (expected exactly once each)' % sorted(set(cnt.tolist()))
    qs = [P[0], P[-1], P.mean(0), P.min(0) - 1.0, P.max(0) + 0.5, P[rnd.randint(n)] + 0.001] + [rnd.randn(d) * P.std() + P.mean(0) for _ in range(3)]
    for q in qs:
        dist = np.linalg.norm(P - q, axis=1)
        for k in (1, 2, 3, 5, n, n + 3):
            try:
                res = list(t.query(q, k))
            except Exception as e:
                return 'query(k=%d) raised %s: %s' % (k, type(e).__name__, e)
            if len(res) != min(k, n) or len(set(int(i) for i in res)) != len(res):
                return 'query(%r, k=%d) returned %d indices (%d distinct), expected %d' % (q.tolist(), k, len(res), len(set(map(int, res))), min(k, n))
            dr = dist[[int(i) for i in res]]
            exp = np.sort(dist)[:min(k, n)]
            if not np.allclose(dr, exp, atol=1e-12):
                return 'query(%r, k=%d) distances %r, the k smallest are %r' % (q.tolist(), k, np.round(dr, 6).tolist(), np.round(exp, 6).tolist())
        exact = bool(np.all(P == np.round(P)) and np.all(q == np.round(q)))     # ties only where the arithmetic is exact
        for r in (0.0, float(np.sort(dist)[min(3, n - 1)]) * (1 + 1e-9) + 1e-12, 1.0 if exact else 1.0000001, 2.0 if exact else 2.0000001, float(dist.max()) + 1):
            res = sorted(int(i) for i in t.query_radius(q, r))
            exp = sorted(np.nonzero(dist <= r)[0].tolist())
            if not exact and np.any(np.abs(dist - r) < 1e-9 * (1 + r)):
                continue      # a data point within round-off of the radius: not decidable in floats
            if res != exp:
                return 'query_radius(%r, r=%r) returned %r, expected %r' % (q.tolist(), r, res[:12], exp[:12])
    return None


def main():
    req = read_request()
    seed = int(req.get('seed', 0) or 0)
    n = 0
    want = req.get('case') if req['mode'] == 'replay' else None
    for name, P in point_sets(seed, req.get('tier') == 'thorough'):
        for leaf in (1, 2, 5, 10):
            for strat in ('balanced', 'fast', 'random'):
                if want and not (want.get('points') == name and want.get('leaf') == leaf and want.get('strategy') == strat):
                    continue
                n += 1
                err = check(name, P, leaf, strat, seed)
                if err:
                    respond(failing={'points': name, 'leaf': leaf, 'strategy': strat, 'error': err}, cases=n)
    respond(failing=None, cases=n)


main()
