"""C10 native oracle: spanning trees / forests over vertices, faces, cells."""
import random, itertools
from collections import deque
import numpy as np
from replay.common import *
from replay.graphs import *
import mouette as M
from mouette.processing import trees as T


def bfs_reach(n, adj, root):
    dist = {root: 0}
    q = deque([root])
    while q:
        v = q.popleft()
        for u in adj[v]:
            if u not in dist:
                dist[u] = dist[v] + 1
                q.append(u)
    return dist


def components(n, adj):
    seen, comps = set(), []
    for v in range(n):
        if v not in seen:
            d = bfs_reach(n, adj, v)
            comps.append(set(d))
            seen |= set(d)
    return comps


def check_tree(tree, n, adj, root, what, bfs=True):
    """generic clauses: reach, edge count, adjacency, parent/children, traversal, hop distance"""
    reach = bfs_reach(n, adj, root)
    edges = [tuple(e) for e in tree.edges]
    if len(edges) != len(reach) - 1:
        return '%s: %d tree edges for %d reached elements' % (what, len(edges), len(reach))
    for (a, b) in edges:
        if b not in adj[a]:
            return '%s: tree edge (%d,%d) is not an admissible adjacency' % (what, a, b)
        if not a < b:
            return '%s: tree edge %r not stored low index first' % (what, (a, b))
    for v in range(n):
        p = tree.parent[v]
        if v == root:
            if p is not None:
                return '%s: root has a parent' % what
            continue
        if (v in reach) != (p is not None):
            return '%s: element %d reachable=%s but parent=%r' % (what, v, v in reach, p)
        if p is not None:
            if v not in adj[p]:
                return '%s: parent link %d->%d is not an admissible adjacency' % (what, v, p)
            if v not in tree.children[p]:
                return '%s: %d not among the children of its parent %d' % (what, v, p)
            if bfs and reach[v] != reach[p] + 1:
                return '%s: element %d at hop distance %d has parent at %d' % (what, v, reach[v], reach[p])
            if (min(v, p), max(v, p)) not in set(edges):
                return '%s: parent link %d-%d missing from edges' % (what, v, p)
    for p in range(n):
        for c in tree.children[p]:
            if tree.parent[c] != p:
                return '%s: child %d of %d has parent %r' % (what, c, p, tree.parent[c])
        if len(set(tree.children[p])) != len(tree.children[p]):
            return '%s: repeated child' % what
    for order in ('BFS', 'DFS'):
        seen = []
        for node, par in tree.traverse(order):
            if par is not None and par not in seen:
                return '%s: traversal (%s) visits %d before its parent %d' % (what, order, node, par)
            if par != tree.parent[node] and not (node == root and par is None):
                return '%s: traversal reports parent %r for %d' % (what, par, node)
            seen.append(node)
        if sorted(seen) != sorted(reach):
            return '%s: traversal (%s) visits %d elements, reached %d' % (what, order, len(seen), len(reach))
    return None


def vertex_adj(m, avoid_edges=None, avoid_boundary=False):
    n = len(m.vertices)
    adj = {v: set() for v in range(n)}
    border = set()
    if avoid_boundary and hasattr(m, 'faces') and len(m.faces):
        cnt = {}
        for f in m.faces:
            for i in range(len(f)):
                k = (min(f[i], f[(i + 1) % len(f)]), max(f[i], f[(i + 1) % len(f)]))
                cnt[k] = cnt.get(k, 0) + 1
        border = {k for k, c in cnt.items() if c == 1}
    for e, (a, b) in enumerate(m.edges):
        if avoid_edges is not None and e in avoid_edges:
            continue
        if (min(a, b), max(a, b)) in border:
            continue
        adj[a].add(b); adj[b].add(a)
    return adj


def face_adj(m, forbidden=None):
    n = len(m.faces)
    adj = {f: set() for f in range(n)}
    owner = {}
    eid = {tuple(sorted(e)): i for i, e in enumerate(m.edges)}
    for fi, f in enumerate(m.faces):
        for i in range(len(f)):
            k = (min(f[i], f[(i + 1) % len(f)]), max(f[i], f[(i + 1) % len(f)]))
            owner.setdefault(k, []).append(fi)
    for k, fs in owner.items():
        if len(fs) == 2 and not (forbidden and eid[k] in forbidden):
            adj[fs[0]].add(fs[1]); adj[fs[1]].add(fs[0])
    return adj


def cell_adj(m, forbidden=None):
    n = len(m.cells)
    adj = {c: set() for c in range(n)}
    owner = {}
    fid = {tuple(sorted(f)): i for i, f in enumerate(m.faces)}
    for ci, c in enumerate(m.cells):
        for tri in itertools.combinations(c, 3):
            owner.setdefault(tuple(sorted(tri)), []).append(ci)
    for k, cs in owner.items():
        if len(cs) == 2 and not (forbidden and fid.get(k) in forbidden):
            adj[cs[0]].add(cs[1]); adj[cs[1]].add(cs[0])
    return adj


def two_components():
    raw = M.mesh.RawMeshData()
    raw.vertices += [M.Vec(0, 0, 0), M.Vec(1, 0, 0), M.Vec(0, 1, 0), M.Vec(1, 1, 0), M.Vec(5, 0, 0), M.Vec(6, 0, 0), M.Vec(5, 1, 0)]
    raw.faces += [(0, 1, 2), (1, 3, 2), (4, 5, 6)]
    return M.mesh.SurfaceMesh(raw)


def run(seed, thorough):
    rnd = random.Random(seed)
    cases = 0
    surf = [('grid4x4', grid(4, 4, True, 0.2, seed)), ('grid3x5', grid(3, 5, True, 0.2, seed)), ('grid3x4q', grid(3, 4, False, 0.1, seed)), ('two_comp', two_components())]
    lines = [('chain', polyline([(i, 0, 0) for i in range(5)], [(i, i + 1) for i in range(4)])),
             ('forestline', polyline([(i, 0, 0) for i in range(6)], [(0, 1), (1, 2), (3, 4)]))]
    for name, m in surf + lines:
        n = len(m.vertices)
        nE = len(m.edges)
        roots = [0, n - 1, rnd.randrange(n)]
        excl = [None, {0}, {1, nE - 1}, {rnd.randrange(nE) for _ in range(3)}]
        for root in roots:
            for av in excl:
                for ab in ((False, True) if hasattr(m, 'faces') and name != 'two_comp' or name == 'two_comp' else (False,)):
                    if ab and not hasattr(m, 'faces'):
                        continue
                    cases += 1
                    try:
                        t = T.EdgeSpanningTree(m, root, avoid_boundary=ab, avoid_edges=av)()
                        err = check_tree(t, n, vertex_adj(m, av, ab), root, 'EdgeSpanningTree')
                    except Exception as e:
                        err = 'EdgeSpanningTree raised %s: %s' % (type(e).__name__, e)
                    if err:
                        return {'mesh': name, 'kind': 'vertex', 'root': root, 'avoid_edges': sorted(av) if av else None, 'avoid_boundary': ab, 'error': err}, cases
            for ab in (False, True):
                if ab and not hasattr(m, 'faces'):
                    continue
                for wmode in ('one', 'length', 'custom'):
                    cases += 1
                    custom = {e: rnd.choice([1.0, 2.0, 2.0, 5.0, 0.5]) for e in range(nE)}
                    w = wmode if wmode != 'custom' else custom
                    try:
                        t = T.EdgeMinimalSpanningTree(m, root, avoid_boundary=ab, weights=w)()
                        adj = vertex_adj(m, None, ab)
                        comps = components(n, adj)
                        edges = [tuple(e) for e in t.edges]
                        err = None
                        if len(edges) != n - len(comps):
                            err = 'MST edge list has %d edges, a spanning forest of the admissible edges has %d' % (len(edges), n - len(comps))
                        for (a, b) in edges:
                            if b not in adj[a]:
                                err = 'MST edge (%d,%d) is not admissible' % (a, b)
                        if not err:
                            # weight optimality against Kruskal on the same weights
                            def wt(a, b):
                                e = [i for i, (x, y) in enumerate(m.edges) if {x, y} == {a, b}][0]
                                if wmode == 'one':
                                    return 1.0
                                if wmode == 'length':
                                    return float(np.linalg.norm(np.asarray(m.vertices[a]) - np.asarray(m.vertices[b])))
                                return custom[e]
                            allE = sorted(((wt(a, b), a, b) for a in adj for b in adj[a] if a < b))
                            par = list(range(n))

                            def find(x):
                                while par[x] != x:
                                    par[x] = par[par[x]]; x = par[x]
                                return x
                            best = 0.0
                            for ww, a, b in allE:
                                if find(a) != find(b):
                                    par[find(a)] = find(b); best += ww
                            got = sum(wt(a, b) for a, b in edges)
                            if abs(got - best) > 1e-9 * (1 + best):
                                err = 'MST weight %.6f, minimum spanning forest weight %.6f' % (got, best)
                        if not err:
                            # parent / children tables orient the root's component
                            tadj = {v: set() for v in range(n)}
                            for a, b in edges:
                                tadj[a].add(b); tadj[b].add(a)
                            class View:
                                pass
                            v_ = View(); v_.edges = [e for e in edges if e[0] in bfs_reach(n, tadj, root)]; v_.parent = t.parent; v_.children = t.children; v_.traverse = t.traverse
                            err = check_tree(v_, n, tadj, root, 'EdgeMinimalSpanningTree', bfs=False)
                    except Exception as e:
                        err = 'EdgeMinimalSpanningTree raised %s: %s' % (type(e).__name__, e)
                    if err:
                        return {'mesh': name, 'kind': 'mst', 'root': root, 'avoid_boundary': ab, 'weights': wmode, 'custom': custom if wmode == 'custom' else None, 'error': err}, cases
        # forest
        cases += 1
        try:
            fo = T.EdgeSpanningForest(m)()
            adj = vertex_adj(m)
            comps = components(n, adj)
            err = None
            if fo.n_trees != len(comps):
                err = 'forest has %d trees for %d components' % (fo.n_trees, len(comps))
            seen = [node for node, _ in fo.traverse()]
            if not err and sorted(seen) != list(range(n)):
                err = 'forest traversal covers %d elements (with repetitions: %s) of %d' % (len(set(seen)), len(seen) != len(set(seen)), n)
            if not err and len(fo.edges) != n - len(comps):
                err = 'forest has %d edges' % len(fo.edges)
        except Exception as e:
            err = 'EdgeSpanningForest raised %s: %s' % (type(e).__name__, e)
        if err:
            return {'mesh': name, 'kind': 'vertex-forest', 'error': err}, cases
    for name, m in surf:
        nF = len(m.faces); nE = len(m.edges)
        for root in (0, nF - 1, rnd.randrange(nF)):
            for forb in (None, {0}, {rnd.randrange(nE) for _ in range(4)}, set(range(0, nE, 2))):
                cases += 1
                try:
                    t = T.FaceSpanningTree(m, root, forb)()
                    err = check_tree(t, nF, face_adj(m, forb), root, 'FaceSpanningTree')
                except Exception as e:
                    err = 'FaceSpanningTree raised %s: %s' % (type(e).__name__, e)
                if err:
                    return {'mesh': name, 'kind': 'face', 'root': root, 'forbidden_edges': sorted(forb) if forb else None, 'error': err}, cases
        cases += 1
        try:
            fo = T.FaceSpanningForest(m)()
            comps = components(nF, face_adj(m))
            seen = [node for node, _ in fo.traverse()]
            err = None if (fo.n_trees == len(comps) and sorted(seen) == list(range(nF))) else 'face forest: %d trees / %d components, covers %d of %d' % (fo.n_trees, len(comps), len(set(seen)), nF)
        except Exception as e:
            err = 'FaceSpanningForest raised %s: %s' % (type(e).__name__, e)
        if err:
            return {'mesh': name, 'kind': 'face-forest', 'error': err}, cases
    tg = tetgrid(1)
    nC = len(tg.cells); nFc = len(tg.faces)
    for root in range(nC):
        for forb in (None, {rnd.randrange(nFc) for _ in range(3)}):
            cases += 1
            try:
                t = T.CellSpanningTree(tg, root, forb)()
                err = check_tree(t, nC, cell_adj(tg, forb), root, 'CellSpanningTree')
            except Exception as e:
                err = 'CellSpanningTree raised %s: %s' % (type(e).__name__, e)
            if err:
                return {'mesh': 'tetcube', 'kind': 'cell', 'root': root, 'forbidden_faces': sorted(forb) if forb else None, 'error': err}, cases
    cases += 1
    try:
        fo = T.CellSpanningForest(tg)()
        seen = [node for node, _ in fo.traverse()]
        err = None if (fo.n_trees == len(components(nC, cell_adj(tg))) and sorted(seen) == list(range(nC))) else 'cell forest wrong'
    except Exception as e:
        err = 'CellSpanningForest raised %s: %s' % (type(e).__name__, e)
    if err:
        return {'mesh': 'tetcube', 'kind': 'cell-forest', 'error': err}, cases
    return None, cases


def main():
    req = read_request()
    seed = int(req.get('seed', 0) or 0)
    total = 0
    for sd in ((seed, seed + 1, seed + 2) if req.get('tier') == 'thorough' else (seed,)):
        f, c = run(sd, req.get('tier') == 'thorough')
        total += c
        if f:
            f['seed'] = sd
            respond(failing=f, cases=total)
    respond(failing=None, cases=total)


main()
