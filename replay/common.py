"""helpers for the native replay / bounded-search harnesses (run under /venv/bin/python with the REAL mouette)"""
import sys, json, itertools, random, time, warnings
warnings.filterwarnings('ignore')


def read_request():
    data = sys.stdin.read()
    return json.loads(data) if data.strip() else {'mode': 'bounded', 'name': 'all'}


def respond(failing=None, cases=0, note=None, **kw):
    d = {'failing': failing, 'cases': cases}
    if note:
        d['note'] = note
    d.update(kw)
    print(json.dumps(d, default=str))
    sys.exit(0)


class Budget:
    def __init__(self, seconds):
        self.t_end = time.time() + seconds

    def over(self):
        return time.time() > self.t_end
