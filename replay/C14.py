"""C14 native oracle: every generator over a grid of admissible parameters (unequal and minimal
resolutions, radii != 1, centres != 0, both switches) inspected from its raw face list."""
import itertools, math
import numpy as np
from replay.common import *
from replay.meshcheck import analyse
import mouette as M
from mouette.geometry import Vec

P = M.procedural


def chk(name, params, mesh, chi=None, loops=None, nV=None, nF=None, comps=1, surf=None, tol=1e-9):
    faces = [tuple(f) for f in mesh.faces]
    a = analyse(len(mesh.vertices), faces)
    probs = list(a['problems'])
    if not probs:
        if chi is not None and a['chi'] != chi:
            probs.append('Euler characteristic %s, expected %s' % (a['chi'], chi))
        if loops is not None and a['n_border_loops'] != loops:
            probs.append('%s border loops, expected %s' % (a['n_border_loops'], loops))
        if comps is not None and a['n_components'] != comps:
            probs.append('%s components, expected %s' % (a['n_components'], comps))
    if nV is not None and len(mesh.vertices) != nV:
        probs.append('%d vertices, documented %d' % (len(mesh.vertices), nV))
    if nF is not None and len(faces) != nF:
        probs.append('%d faces, documented %d' % (len(faces), nF))
    if surf is not None:
        for i, p in enumerate(mesh.vertices):
            d = surf(np.asarray(p, float))
            if abs(d) > tol * 1e3:
                probs.append('vertex %d = %r off the named surface by %.3g' % (i, list(map(float, p)), d))
                break
    if probs:
        return {'generator': name, 'params': params, 'problems': probs[:4]}
    return None


def cases(thorough):
    R = [(2, 2), (2, 5), (5, 2), (3, 4), (4, 3), (6, 6)] + ([(7, 3), (3, 9)] if thorough else [])
    for nu, nv in R:
        for tri in (False, True):
            yield ('unit_grid', dict(nu=nu, nv=nv, triangulate=tri), lambda nu=nu, nv=nv, tri=tri: chk(
                'unit_grid', dict(nu=nu, nv=nv, triangulate=tri), P.unit_grid(nu, nv, triangulate=tri), chi=1, loops=1,
                nV=nu * nv, nF=(nu - 1) * (nv - 1) * (2 if tri else 1),
                surf=lambda p: max(abs(p[2]), max(0, -p[0], p[0] - 1, -p[1], p[1] - 1))))
    for a, b in [(3, 3), (3, 7), (7, 3), (5, 4), (12, 5)]:
        for tri in (False, True):
            for (Rr, r) in ((1., .3), (2.5, 0.5)):
                yield ('torus', dict(major_segments=a, minor_segments=b, major_radius=Rr, minor_radius=r, triangulate=tri),
                       lambda a=a, b=b, tri=tri, Rr=Rr, r=r: chk('torus', dict(major_segments=a, minor_segments=b, major_radius=Rr, minor_radius=r, triangulate=tri),
                                                                 P.torus(a, b, Rr, r, tri), chi=0, loops=0, nV=a * b, nF=a * b * (2 if tri else 1),
                                                                 surf=lambda p: (math.hypot(p[0], p[1]) - Rr) ** 2 + p[2] ** 2 - r * r))
    for N in (3, 4, 7, 16):
        for caps in (True, False):
            for (p1, p2, rad) in ((Vec(0., 0., 0.), Vec(0., 0., 1.), 1.), (Vec(1., 2., 3.), Vec(-1., 0., 2.), .25), (Vec(0., 0., 0.), Vec(1., 0., 0.), 2.)):
                def f(N=N, caps=caps, p1=p1, p2=p2, rad=rad):
                    ax = np.asarray(p2 - p1, float); L = np.linalg.norm(ax); ax = ax / L

                    def surf(p):
                        t = np.dot(p - np.asarray(p1), ax)
                        dr = np.linalg.norm(p - np.asarray(p1) - t * ax)
                        return min(abs(dr - rad), dr if caps else 1e9) if abs(t) < 1e-9 or abs(t - L) < 1e-9 else 1.0
                    return chk('cylinder', dict(N=N, fill_caps=caps, P1=list(p1), P2=list(p2), radius=rad), P.cylinder(p1, p2, rad, N, caps),
                               chi=2 if caps else 0, loops=0 if caps else 2, nV=2 * N + (2 if caps else 0), nF=4 * N if caps else 2 * N, surf=surf)
                yield ('cylinder', dict(N=N, fill_caps=caps), f)
    for nl, ng in [(3, 3), (3, 7), (4, 5), (6, 4), (8, 8)]:
        for (c, r) in ((Vec(0., 0., 0.), 1.), (Vec(1., -2., .5), 2.5)):
            yield ('sphere_uv', dict(n_lat=nl, n_long=ng, center=list(c), radius=r), lambda nl=nl, ng=ng, c=c, r=r: chk(
                'sphere_uv', dict(n_lat=nl, n_long=ng, center=list(c), radius=r), P.sphere_uv(nl, ng, c, r), chi=2, loops=0,
                surf=lambda p: np.linalg.norm(p - np.asarray(c)) - r))
    for n in (0, 1, 2):
        for (c, r) in ((Vec(0., 0., 0.), 1.), (Vec(1., 1., 1.), .5)):
            yield ('icosphere', dict(n_refine=n, center=list(c), radius=r), lambda n=n, c=c, r=r: chk(
                'icosphere', dict(n_refine=n, center=list(c), radius=r), P.icosphere(n, c, r), chi=2, loops=0, nV=10 * 4 ** n + 2, nF=20 * 4 ** n,
                surf=lambda p: np.linalg.norm(p - np.asarray(c)) - r, tol=1e-7))
    yield ('tetrahedron', {}, lambda: chk('tetrahedron', {}, P.tetrahedron(Vec(0, 0, 0), Vec(1, 0, 0), Vec(0, 1, 0), Vec(0, 0, 1)), chi=2, loops=0, nV=4, nF=4))
    yield ('octahedron', {}, lambda: chk('octahedron', {}, P.octahedron(), chi=2, loops=0, nV=6, nF=8))
    yield ('icosahedron', {}, lambda: chk('icosahedron', {}, P.icosahedron(), chi=2, loops=0, nV=12, nF=20))
    yield ('dodecahedron', {}, lambda: chk('dodecahedron', {}, P.dodecahedron(), chi=2, loops=0, nV=20, nF=12))
    for tri in (False, True):
        yield ('axis_aligned_cube', dict(triangulate=tri), lambda tri=tri: chk('axis_aligned_cube', dict(triangulate=tri), P.axis_aligned_cube(triangulate=tri), chi=2, loops=0, nV=8, nF=12 if tri else 6))
        yield ('quad', dict(triangulate=tri), lambda tri=tri: chk('quad', dict(triangulate=tri), P.quad(Vec(0, 0, 0), Vec(1, 0, 0), Vec(0, 1, 0), triangulate=tri), chi=1, loops=1, nV=4, nF=2 if tri else 1))
    # switches honoured as named: volume=True gives one cell (class VolumeMesh), triangulate=True twelve triangles
    def switches(gen, vol, tri):
        pts = [Vec(0, 0, 0), Vec(1, 0, 0), Vec(0, 1, 0), Vec(0, 0, 1)]
        if gen == 'hexahedron_4pts':
            m = P.hexahedron_4pts(*pts, volume=vol)
        elif gen == 'tetrahedron':
            m = P.tetrahedron(*pts, volume=vol)
        else:
            c = P.axis_aligned_cube()
            m = P.hexahedron(*[Vec(v) for v in c.vertices], triangulate=tri, volume=vol)
        ncell = len(m.cells) if hasattr(m, 'cells') else 0
        probs = []
        if vol and (ncell != 1 or type(m).__name__ != 'VolumeMesh'):
            probs.append('volume=True: %d cells, class %s' % (ncell, type(m).__name__))
        if not vol and ncell != 0:
            probs.append('volume=False: %d cells' % ncell)
        if not vol and gen != 'tetrahedron':
            want = 12 if tri else 6
            if len(m.faces) != want or any(len(f) != (3 if tri else 4) for f in m.faces):
                probs.append('triangulate=%s: %d faces of sizes %s' % (tri, len(m.faces), sorted(set(len(f) for f in m.faces))))
        return {'generator': gen, 'params': dict(volume=vol, triangulate=tri), 'problems': probs} if probs else None
    for gen in ('hexahedron_4pts', 'tetrahedron', 'hexahedron'):
        for vol in (False, True):
            for tri in ((False, True) if gen == 'hexahedron' else (False,)):
                yield (gen, dict(volume=vol, triangulate=tri), lambda gen=gen, vol=vol, tri=tri: switches(gen, vol, tri))
    yield ('triangle', {}, lambda: chk('triangle', {}, P.triangle(Vec(0, 0, 0), Vec(1, 0, 0), Vec(0, 1, 0)), chi=1, loops=1, nV=3, nF=1))
    for nu, nv in [(3, 3), (4, 4), (6, 6)]:
        yield ('unit_triangle', dict(nu=nu, nv=nv), lambda nu=nu, nv=nv: chk('unit_triangle', dict(nu=nu, nv=nv), P.unit_triangle(nu, nv), chi=1, loops=1))
    for N in (3, 5, 10):
        for d in (0.1, 0.3, 2.0, 6.0):
            for op in (False, True):
                def f(N=N, d=d, op=op):
                    m = P.ring(N, d, open=op)
                    r = chk('ring', dict(N=N, defect=d, open=op), m, chi=1, loops=1)
                    if r:
                        return r
                    # apex = vertex 0: angle defect = 2pi - sum of corner angles at the apex
                    tot = 0.0
                    for f_ in m.faces:
                        f_ = list(f_)
                        if 0 in f_:
                            i = f_.index(0)
                            a, b, c = (np.asarray(m.vertices[f_[(i + k) % 3]], float) for k in range(3))
                            u, v = b - a, c - a
                            tot += math.atan2(np.linalg.norm(np.cross(u, v)), float(np.dot(u, v)))
                    if abs((2 * math.pi - tot) - d) > 1e-3:
                        return {'generator': 'ring', 'params': dict(N=N, defect=d, open=op), 'problems': ['apex defect %.5f, requested %.5f' % (2 * math.pi - tot, d)]}
                    return None
                yield ('ring', dict(N=N, defect=d, open=op), f)


def main():
    req = read_request()
    thorough = req.get('tier') == 'thorough'
    if req['mode'] == 'replay':
        case = req.get('case') or {}
        for name, params, f in cases(True):
            if name == case.get('generator') and params == case.get('params'):
                try:
                    r = f()
                except Exception as e:
                    r = {'generator': name, 'params': params, 'problems': ['exception %s: %s' % (type(e).__name__, e)]}
                respond(failing=r, cases=1)
        respond(failing=None, cases=0, note='case not in family')
    only = None
    fn = req.get('function') or ''
    if req['mode'] == 'search' and fn:
        only = fn.split('.')[-1]
    n = 0
    known = set(json.dumps(x, sort_keys=True) for x in req.get('skip', []))
    for name, params, f in cases(thorough):
        if only and name != only:
            continue
        n += 1
        try:
            r = f()
        except Exception as e:
            r = {'generator': name, 'params': params, 'problems': ['exception %s: %s' % (type(e).__name__, e)]}
        if r and json.dumps({'generator': r['generator'], 'params': r['params']}, sort_keys=True) not in known:
            respond(failing=r, cases=n)
    respond(failing=None, cases=n)


main()
