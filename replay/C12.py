"""C12 native oracle: algebraic laws of boxes / primitives and absence of side effects on the real code.
Families: integer lattice boxes/points (ties and degenerate cases hit exactly), seeded random reals."""
import itertools, random, math, copy
import numpy as np
from replay.common import *
import mouette as M
from mouette.geometry import Vec, AABB
from mouette import geometry as geom
from mouette.geometry import rotations
from mouette.utils import maths

TOL = 1e-9


def close(a, b, tol=TOL):
    return abs(a - b) <= tol * (1 + abs(a) + abs(b))


def boxes(dim, lo=0, hi=3):
    rng = range(lo, hi)
    pts = list(itertools.product(rng, repeat=dim))
    for a in pts:
        for b in pts:
            if all(x <= y for x, y in zip(a, b)):
                yield np.array(a, float), np.array(b, float)


def check_box_laws(dim, budget):
    cases = 0
    bl = list(boxes(dim))
    pts = [np.array(p, float) / 2 for p in itertools.product(range(-1, 7), repeat=dim)]
    for (a, b) in bl:
        box = AABB(a.copy(), b.copy())
        for p in pts:
            cases += 1
            p0 = p.copy()
            pr = np.asarray(box.project(p))
            if not (np.all(pr >= a) and np.all(pr <= b)):
                return {'law': 'projection in closed box', 'box': [a.tolist(), b.tolist()], 'pt': p.tolist(), 'got': pr.tolist()}, cases
            clamp = np.minimum(np.maximum(p, a), b)
            if not np.allclose(pr, clamp):
                return {'law': 'projection is the clamp', 'box': [a.tolist(), b.tolist()], 'pt': p.tolist(), 'got': pr.tolist()}, cases
            for which, nrm in (('l2', 2), ('l1', 1), ('linf', np.inf)):
                d = box.distance(p, which)
                if not close(d, np.linalg.norm(p - clamp, nrm)):
                    return {'law': 'distance realised by projection (%s)' % which, 'box': [a.tolist(), b.tolist()], 'pt': p.tolist(), 'got': float(d)}, cases
            inside = bool(np.all(p >= a) and np.all(p <= b))
            if inside and box.distance(p) != 0:
                return {'law': 'contained point at distance 0', 'box': [a.tolist(), b.tolist()], 'pt': p.tolist()}, cases
            if not np.array_equal(p, p0):
                return {'law': 'argument array unchanged', 'fn': 'project/distance', 'pt': p0.tolist()}, cases
        if budget.over():
            break
    for (a, b), (c, d) in itertools.product(bl, bl):
        cases += 1
        b1, b2 = AABB(a.copy(), b.copy()), AABB(c.copy(), d.copy())
        ov_lo, ov_hi = np.maximum(a, c), np.minimum(b, d)
        exp = bool(np.all(ov_lo <= ov_hi))
        got = bool(AABB.do_intersect(b1, b2))
        if got != exp:
            return {'law': 'do_intersect <=> overlap non-negative', 'b1': [a.tolist(), b.tolist()], 'b2': [c.tolist(), d.tolist()], 'got': got}, cases
        it = AABB.intersection(b1, b2)
        if not (np.array_equal(np.asarray(it.mini), ov_lo) and np.array_equal(np.asarray(it.maxi), ov_hi)):
            return {'law': 'intersection = componentwise overlap', 'b1': [a.tolist(), b.tolist()], 'b2': [c.tolist(), d.tolist()]}, cases
        un = AABB.union(b1, b2)
        if not (np.all(np.asarray(un.mini) <= np.minimum(a, c)) and np.all(np.asarray(un.maxi) >= np.maximum(b, d))):
            return {'law': 'union contains both', 'b1': [a.tolist(), b.tolist()], 'b2': [c.tolist(), d.tolist()]}, cases
        if not (np.array_equal(np.asarray(b1.mini), a) and np.array_equal(np.asarray(b2.maxi), d)):
            return {'law': 'operands unchanged by union/intersection'}, cases
        if budget.over():
            break
    return None, cases


def check_no_side_effects():
    """no function changes the arrays passed to it nor numpy's error configuration"""
    cases = 0
    rnd = np.random.RandomState(0)
    e0 = np.geterr()

    def probe(name, f, *arrays):
        nonlocal cases
        cases += 1
        before = [np.array(a, copy=True) for a in arrays]
        try:
            f(*arrays)
        except Exception:
            pass
        for a, b in zip(arrays, before):
            if not np.array_equal(np.asarray(a), b):
                return {'law': 'argument array unchanged', 'fn': name, 'before': b.tolist(), 'after': np.asarray(a).tolist()}
        if np.geterr() != e0:
            st = np.geterr()
            np.seterr(**e0)
            return {'law': "numpy error configuration unchanged", 'fn': name, 'after': st}
        return None
    A, B, C, N = (rnd.randn(3) for _ in range(4))
    z = np.zeros(3)
    fns = [('Vec.normalized', lambda a: Vec.normalized(a), A), ('Vec.normalized(zero)', lambda a: Vec.normalized(a), z),
           ('norm', geom.norm, A), ('dot', geom.dot, A, B), ('cross', geom.cross, A, B), ('distance', geom.distance, A, B),
           ('cotan', geom.cotan, A, B, C), ('cotan(degenerate)', geom.cotan, A, A, C), ('angle_3pts', geom.angle_3pts, A, B, C),
           ('signed_angle_3pts', geom.signed_angle_3pts, A, B, C, N), ('face_basis', geom.face_basis, A, B, C),
           ('triangle_area', geom.triangle_area, A, B, C), ('quad_area', geom.quad_area, A, B, C, N),
           ('circumcenter', geom.circumcenter, A, B, C), ('circumcenter(degenerate)', geom.circumcenter, A, A, B),
           ('project_to_plane', geom.project_to_plane, A, N, B),
           ('rotate_around_axis', lambda a, b: rotations.rotate_around_axis(a, b, 0.7), A, B),
           ('axis_rot_from_z', rotations.axis_rot_from_z, A),
           ('AABB()', lambda a, b: AABB(a, b), A, B),
           ('AABB.pad(float)', lambda a, b: AABB(a, b).pad(1.0), np.minimum(A, B), np.maximum(A, B)),
           ('AABB.pad(array)', lambda a, b, p: AABB(a, b).pad(p), np.minimum(A, B), np.maximum(A, B), np.array([-1., 2., 0.5])),
           ('AABB.pad(wrong dim)', lambda a, b, p: AABB(a, b).pad(p), np.minimum(A, B), np.maximum(A, B), np.array([-1., 2.])),
           ('AABB.of_points', lambda P: AABB.of_points(P, 0.5), rnd.randn(5, 3)),
           ('AABB.project', lambda a, b, p: AABB(a, b).project(p), np.minimum(A, B), np.maximum(A, B), C),
           ('AABB.distance', lambda a, b, p: AABB(a, b).distance(p), np.minimum(A, B), np.maximum(A, B), C),
           ]
    for name, f, *arrs in fns:
        r = probe(name, f, *arrs)
        if r:
            return r, cases
    return None, cases


def check_primitives(seed, budget):
    rnd = random.Random(seed)
    cases = 0

    def rv(k=3, scale=3.0):
        return Vec(*[rnd.choice([0.0, 1.0, -1.0, rnd.uniform(-scale, scale)]) for _ in range(k)])
    for _ in range(4000):
        if budget.over():
            break
        cases += 1
        A, B, C, N = rv(), rv(), rv(), rv()
        cr = geom.cross(A, B)
        ex = np.cross(np.asarray(A), np.asarray(B))
        if not np.allclose(cr, ex):
            return {'law': 'cross', 'A': list(A), 'B': list(B)}, cases
        if not close(geom.det_3x3(A, B, C), float(np.linalg.det(np.array([A, B, C])))):
            return {'law': 'det_3x3', 'A': list(A), 'B': list(B), 'C': list(C)}, cases
        if np.linalg.norm(np.cross(A - B, C - B)) > 1e-6:
            a = geom.angle_3pts(A, B, C)
            if not (0 <= a <= math.pi) or not close(a, geom.angle_3pts(C, B, A)):
                return {'law': 'angle_3pts in [0,pi] and symmetric', 'A': list(A), 'B': list(B), 'C': list(C)}, cases
            ct = geom.cotan(A, B, C)
            if abs(math.tan(a)) > 1e-9 and not close(ct, 1 / math.tan(a), 1e-7):
                return {'law': 'cotan = 1/tan(angle)', 'A': list(A), 'B': list(B), 'C': list(C), 'got': float(ct)}, cases
            cc = geom.circumcenter(A, B, C)
            d = [geom.distance(cc, X) for X in (A, B, C)]
            if not (close(d[0], d[1], 1e-7) and close(d[0], d[2], 1e-7)):
                return {'law': 'circumcenter equidistant', 'A': list(A), 'B': list(B), 'C': list(C)}, cases
            if abs(float(np.dot(np.asarray(cc) - np.asarray(A), np.cross(B - A, C - A)))) > 1e-6 * (1 + np.linalg.norm(np.cross(B - A, C - A))):
                return {'law': 'circumcenter in the plane of the triangle', 'A': list(A), 'B': list(B), 'C': list(C), 'got': list(map(float, cc))}, cases
        S = np.cross(np.asarray(A), np.asarray(B))
        if np.linalg.norm(S) > 1e-6 and abs(float(np.dot(S, N))) > 1e-6:
            s1, s2 = geom.signed_angle_2vec3D(A, B, N), geom.signed_angle_2vec3D(B, A, N)
            if not close(s1, -s2, 1e-9):
                return {'law': 'signed angle antisymmetric', 'V1': list(A), 'V2': list(B), 'N': list(N)}, cases
        if np.linalg.norm(B) > 1e-6:
            t1, t2 = rnd.uniform(-3, 3), rnd.uniform(-3, 3)
            r1 = rotations.rotate_around_axis(A, B, t1)
            if not close(float(np.linalg.norm(r1)), float(np.linalg.norm(A)), 1e-9):
                return {'law': 'rotation is an isometry', 'v': list(A), 'axis': list(B), 'angle': t1}, cases
            if abs(t1) > 1e-9:
                ax = rotations.rotate_around_axis(B, B, t1)
                if not np.allclose(ax, B, atol=1e-9):
                    return {'law': 'rotation fixes its axis', 'axis': list(B), 'angle': t1}, cases
            r12 = rotations.rotate_around_axis(rotations.rotate_around_axis(A, B, t1), B, t2)
            if abs(t1) > 1e-9 and abs(t2) > 1e-9 and abs(t1 + t2) > 1e-9 and not np.allclose(r12, rotations.rotate_around_axis(A, B, t1 + t2), atol=1e-8):
                return {'law': 'rotations about one axis compose additively', 'v': list(A), 'axis': list(B), 'angles': [t1, t2]}, cases
        a = rnd.choice([rnd.uniform(-20, 20), math.pi * rnd.randint(-5, 5), 0.0])
        pa = maths.principal_angle(a)
        k = (pa - a) / (2 * math.pi)
        if not (-math.pi - 1e-12 <= pa <= math.pi + 1e-12) or abs(k - round(k)) > 1e-9:
            return {'law': 'principal_angle congruent mod 2pi in [-pi,pi]', 'a': a, 'got': pa}, cases
        b = rnd.uniform(-20, 20)
        ad = maths.angle_diff(a, b)
        k = (ad - (a - b)) / (2 * math.pi)
        if not (-math.pi - 1e-12 <= ad <= math.pi + 1e-12) or abs(k - round(k)) > 1e-9:
            return {'law': 'angle_diff congruent mod 2pi in [-pi,pi]', 'a': a, 'b': b, 'got': ad}, cases
        n = rnd.randint(1, 6)
        c = complex(math.cos(a), math.sin(a))
        for r in maths.roots(c, n):
            if abs(r ** n - c) > 1e-9:
                return {'law': 'n-th roots raised to n give back the unit input', 'c': [c.real, c.imag], 'n': n}, cases
    return None, cases


def run(name, seed, seconds):
    bud = Budget(seconds)
    total = 0
    if name in ('all', 'box-laws'):
        for dim in (1, 2, 3):
            f, c = check_box_laws(dim, bud)
            total += c
            if f:
                f['dim'] = dim
                return f, total
    if name in ('all', 'side-effects'):
        f, c = check_no_side_effects()
        total += c
        if f:
            return f, total
    if name in ('all', 'primitives'):
        f, c = check_primitives(seed, bud)
        total += c
        if f:
            return f, total
    return None, total


def main():
    req = read_request()
    if req['mode'] == 'replay':
        f, c = run('all', 0, 120)
        case = req.get('case') or {}
        hit = f if (f and f.get('law') == case.get('law') and f.get('fn') == case.get('fn')) else None
        respond(failing=hit, cases=c)
    name = req.get('name', 'all') if req['mode'] == 'bounded' else 'all'
    f, c = run(name, req.get('seed', 0), 200 if req.get('tier') == 'thorough' else 90)
    respond(failing=f, cases=c)


main()
