"""C18 native oracle: surface frame fields (faces / vertices) are unit, border-aligned and topologically consistent.

Every clause is recomputed from the raw vertex / face lists with plain numpy:

 run         the library call itself must not raise
 unit        |z| == 1 on every element
 constraint  constrained elements keep their constraint (value after initialize() is unit and unchanged by optimize());
             faces with exactly one border/feature edge: one branch tangent to that edge (angle measured in the face's own
             orthonormal tangent basis, which is itself checked); vertices: constraint recomputed from the incident feature
             edges (mean of the edge directions ^order in the tangent basis / in the vertex chart), tangent on straight borders
 singular    (faces) 'singuls' at interior vertices is a multiple of 4/order, equals the index recomputed by walking the
             face fan of the vertex (angle defect + matched rotations), all values add up to 4*chi
 laplacian   library connection Laplacian is Hermitian, equals the one rebuilt from the raw mesh (own cotangent weights, own
             parallel transport rebuilt from the tangent bases / the intrinsic angle charts), and for a flat connection on a
             planar mesh equals the scalar Laplacian (library's and mine)
 harmonic    n_smooth = 0 with constrained elements: field == normalised dense solve of L_II z_I = - L_IB z_B (my L)
 invariance  bordered surfaces: same directions (measured against a fixed geometric edge of each element) after a random
             vertex renumbering + rotation of every face's start vertex (1e-6; 5e-3 when the smoothing weight is the library's
             own eigenvalue estimate, which it only computes to 1e-3)

A case = one configuration (mesh family member + parameters + options + seed) x one of the checks above, so that a known
failure of one clause does not hide the other clauses of the same configuration.
Request field 'collect': true (debugging aid) reports every failing case in 'all_failures' instead of stopping at the first.
"""
import os
for _k in ('OMP_NUM_THREADS', 'OPENBLAS_NUM_THREADS', 'MKL_NUM_THREADS'):      # many tiny dense problems: threads only add overhead
    os.environ.setdefault(_k, '1')
import math, cmath
import numpy as np
from replay.common import *
from replay.meshcheck import analyse
import mouette as M
from mouette import framefield as FF
from mouette import operators
from mouette.processing.connection import FlatConnectionVertices, FlatConnectionFaces

import scipy.sparse.linalg as _spl

_eigsh = _spl.eigsh


def _eigsh_seeded(A, *a, **kw):
    """the library estimates its smoothing weight with ARPACK started from an unseeded random vector: fix that vector so that
    every run of this oracle is reproducible (the library code itself is untouched)"""
    if kw.get('v0') is None:
        kw['v0'] = np.random.RandomState(20240518).uniform(-1, 1, A.shape[0])
    return _eigsh(A, *a, **kw)


_spl.eigsh = _eigsh_seeded

PI = math.pi
CHECKS = ('run', 'unit', 'constraint', 'singular', 'laplacian', 'harmonic', 'invariance')


# ----------------------------------------------------------------------------------------------- mesh family
def tri_grid(nu, nv, pos, alt=True, wrap_u=False, wrap_v=False):
    V = [list(map(float, pos(i, j))) for i in range(nu) for j in range(nv)]
    F = []
    for i in range(nu if wrap_u else nu - 1):
        for j in range(nv if wrap_v else nv - 1):
            i1, j1 = (i + 1) % nu, (j + 1) % nv
            a, b, c, d = i * nv + j, i1 * nv + j, i1 * nv + j1, i * nv + j1
            if not alt or (i + j) % 2 == 0:
                F += [[a, b, c], [a, c, d]]
            else:
                F += [[a, b, d], [b, c, d]]
    return V, F


def compact(V, F):
    used = sorted({v for f in F for v in f})
    new = {v: k for k, v in enumerate(used)}
    return [V[v] for v in used], [[new[v] for v in f] for f in F]


def union(parts):
    V, F = [], []
    for (v, f) in parts:
        off = len(V)
        V += v
        F += [[x + off for x in t] for t in f]
    return V, F


def subdivide(V, F):
    V = [list(v) for v in V]
    mid = {}

    def m(a, b):
        k = (min(a, b), max(a, b))
        if k not in mid:
            mid[k] = len(V)
            V.append([(V[a][t] + V[b][t]) / 2 for t in range(3)])
        return mid[k]
    G = []
    for (a, b, c) in F:
        ab, bc, ca = m(a, b), m(b, c), m(c, a)
        G += [[a, ab, ca], [ab, b, bc], [ca, bc, c], [ab, bc, ca]]
    return V, G


def jitter(V, F, amp, rnd, keep_border=True, planar=False):
    if amp == 0:
        return V
    g = Geo(V, F)
    out = []
    for v, p in enumerate(V):
        if keep_border and v in g.bverts:
            out.append(list(p))
        else:
            d = amp * (rnd.rand(3) - 0.5)
            if planar:
                d[2] = 0
            out.append([p[0] + d[0], p[1] + d[1], p[2] + d[2]])
    return out


def build_mesh(name, p, seed):
    """-> V, F, planar"""
    rnd = np.random.RandomState((seed * 7919 + sum(ord(c) for c in name)) % (2 ** 31))
    if name == 'pgrid':          # planar sheared grid; jit: interior jitter; bjit: border vertices jittered too
        nu, nv, sh = p['nu'], p['nv'], p.get('shear', 0.0)
        V, F = tri_grid(nu, nv, lambda i, j: (i, j + sh * i, 0.0), alt=p.get('alt', True))
        V = jitter(V, F, p.get('jit', 0.0), rnd, keep_border=not p.get('bjit', False), planar=True)
        return V, F, True
    if name == 'annulus':
        nr, nt = p['nr'], p['nt']
        V, F = tri_grid(nr, nt, lambda i, k: ((1 + 0.6 * i) * math.cos(2 * PI * k / nt), (1 + 0.6 * i) * math.sin(2 * PI * k / nt) * p.get('ecc', 1.0), 0.0), wrap_v=True)
        V = jitter(V, F, p.get('jit', 0.0), rnd, planar=True)
        return V, F, True
    if name == 'hex':
        R = p['R']
        idx, V, F = {}, [], []
        for q in range(-R, R + 1):
            for r in range(-R, R + 1):
                if abs(q + r) <= R:
                    idx[(q, r)] = len(V)
                    V.append([q + r / 2.0, r * math.sqrt(3) / 2, p.get('dome', 0.0) * (R * R - (q + r / 2.0) ** 2 - 0.75 * r * r)])
        for (q, r) in [(q, r) for q in range(-R - 1, R + 1) for r in range(-R - 1, R + 1)]:
            if (q, r) in idx and (q + 1, r) in idx and (q, r + 1) in idx:
                F.append([idx[(q, r)], idx[(q + 1, r)], idx[(q, r + 1)]])
            if (q + 1, r) in idx and (q + 1, r + 1) in idx and (q, r + 1) in idx:
                F.append([idx[(q + 1, r)], idx[(q + 1, r + 1)], idx[(q, r + 1)]])
        planar = p.get('dome', 0.0) == 0
        V = jitter(V, F, p.get('jit', 0.0), rnd, keep_border=not p.get('bjit', False), planar=planar)
        return V, F, planar
    if name == 'lshape':
        n = p['n']
        V, F = tri_grid(2 * n + 1, 2 * n + 1, lambda i, j: (i, j + 0.2 * i, 0.0), alt=True)
        Fk = []
        for f in F:
            cx = sum(V[v][0] for v in f) / 3
            cy = sum(V[v][1] - 0.2 * V[v][0] for v in f) / 3
            if not (cx > n and cy > n):
                Fk.append(f)
        V, F = compact(V, Fk)
        V = jitter(V, F, p.get('jit', 0.0), rnd, planar=True)
        return V, F, True
    if name == 'twocomp':        # two components of different size, three border loops in total
        V1, F1, _ = build_mesh('pgrid', dict(nu=3, nv=5, shear=0.25, jit=0.3), seed)
        V2, F2, _ = build_mesh('annulus', dict(nr=3, nt=5, jit=0.2), seed)
        V2 = [[x * 0.5 + 8, y * 0.5, z] for x, y, z in V2]
        V, F = union([(V1, F1), (V2, F2)])
        return V, F, True
    if name == 'strip':          # no interior vertex at all
        V, F = tri_grid(p['n'], 2, lambda i, j: (i + 0.3 * j, j, 0.0), alt=True)
        return V, F, True
    if name == 'tri1':
        return [[0, 0, 0], [1, 0, 0], [0.3, 0.8, 0]], [[0, 1, 2]], True
    if name == 'fan':            # one interior vertex, k border faces
        k = p['k']
        V = [[0.1, 0.05, 0.0]] + [[math.cos(2 * PI * t / k), 0.8 * math.sin(2 * PI * t / k + 0.2), 0.0] for t in range(k)]
        F = [[0, 1 + t, 1 + (t + 1) % k] for t in range(k)]
        return V, F, True
    if name == 'ears':           # grid whose two opposite corner faces have TWO border edges
        V, F = tri_grid(p['nu'], p['nv'], lambda i, j: (i, 0.8 * j + 0.3 * i, 0.0), alt=False)
        V = jitter(V, F, p.get('jit', 0.0), rnd, planar=True)
        return V, F, True
    if name == 'saddle':
        nu, nv, amp = p['nu'], p['nv'], p.get('amp', 0.15)
        V, F = tri_grid(nu, nv, lambda i, j: (i, j + 0.2 * i, amp * ((i - nu / 2.0) ** 2 - (j - nv / 2.0) ** 2 + 0.3 * i * j)), alt=True)
        V = jitter(V, F, p.get('jit', 0.0), rnd)
        return V, F, False
    if name == 'fold':           # sheared sheet folded by 'deg' degrees along the interior line i == mid (a feature line when deg >= 61)
        n, a = p['n'], math.radians(p.get('deg', 90))
        mid = n // 2

        def pos(i, j):
            d = i - mid
            q = j + 0.45 * i
            return (i, q, 0.0) if d <= 0 else (mid + d * math.cos(a), q, d * math.sin(a))
        V, F = tri_grid(n, p.get('nv', n), pos, alt=True)
        bend = p.get('bend', 0.0)           # roll the sheet around an axis parallel to x: the crease becomes an arc
        if bend:
            Rr = 1.0 / bend
            V = [[x, (Rr - z) * math.sin(y / Rr), Rr - (Rr - z) * math.cos(y / Rr)] for x, y, z in V]
        return V, F, False
    if name == 'cyl':            # open cylinder, two border loops
        nt, nh = p['nt'], p['nh']
        V, F = tri_grid(nh, nt, lambda i, k: (math.cos(2 * PI * k / nt), math.sin(2 * PI * k / nt), 0.7 * i + 0.1 * math.sin(2 * PI * k / nt + 1)), wrap_v=True)
        # orientation of tri_grid: (i -> z, k -> theta): z x theta points inwards; flip to get outward normals
        F = [[f[0], f[2], f[1]] for f in F]
        V = jitter(V, F, p.get('jit', 0.0), rnd)
        return V, F, False
    if name in ('torus', 'torus_hole'):
        nu, nv = p['nu'], p['nv']
        R, r = 2.0, 0.8

        def pos(i, j):
            u, v = 2 * PI * i / nu + 0.1, 2 * PI * j / nv + 0.2
            return ((R + r * math.cos(v)) * math.cos(u), (R + r * math.cos(v)) * math.sin(u), r * math.sin(v) * p.get('flat', 1.0))
        V, F = tri_grid(nu, nv, pos, alt=False, wrap_u=True, wrap_v=True)
        if name == 'torus_hole':
            F = F[:3] + F[4:]
        V = jitter(V, F, p.get('jit', 0.0), rnd)
        return V, F, False
    if name == 'tetra':
        V = [[1, 1, 1], [1.2, -1, -0.9], [-1, 0.9, -1.1], [-0.8, -1.1, 1.3]]
        F = [[0, 1, 2], [0, 3, 1], [0, 2, 3], [1, 3, 2]]
        F = [[f[0], f[2], f[1]] for f in F]
        for _ in range(p.get('sub', 0)):
            V, F = subdivide(V, F)
        return V, F, False
    if name == 'twotets':
        V1, F1, _ = build_mesh('tetra', dict(sub=1), seed)
        V2, F2, _ = build_mesh('octa', dict(sub=0), seed)
        V2 = [[x * 0.7 + 5, y, z] for x, y, z in V2]
        V, F = union([(V1, F1), (V2, F2)])
        return V, F, False
    if name in ('octa', 'halfocta'):
        V = [[1, 0, 0], [-1, 0, 0], [0, 1.2, 0], [0, -1, 0], [0, 0, 0.9], [0, 0, -1]]
        F = [[0, 2, 4], [2, 1, 4], [1, 3, 4], [3, 0, 4], [2, 0, 5], [1, 2, 5], [3, 1, 5], [0, 3, 5]]
        if name == 'halfocta':
            F = F[:4]
        for _ in range(p.get('sub', 0)):
            V, F = subdivide(V, F)
            if p.get('round', True):
                V = [list(np.array(v) / np.linalg.norm(v) * (1 + 0.15 * v[0])) for v in V]
        V, F = compact(V, F)
        V = jitter(V, F, p.get('jit', 0.0), rnd)
        return V, F, False
    if name == 'icosa':
        t = (1 + math.sqrt(5)) / 2
        V = [[-1, t, 0], [1, t, 0], [-1, -t, 0], [1, -t, 0], [0, -1, t], [0, 1, t], [0, -1, -t], [0, 1, -t], [t, 0, -1], [t, 0, 1], [-t, 0, -1], [-t, 0, 1]]
        F = [[0, 11, 5], [0, 5, 1], [0, 1, 7], [0, 7, 10], [0, 10, 11], [1, 5, 9], [5, 11, 4], [11, 10, 2], [10, 7, 6], [7, 1, 8],
             [3, 9, 4], [3, 4, 2], [3, 2, 6], [3, 6, 8], [3, 8, 9], [4, 9, 5], [2, 4, 11], [6, 2, 10], [8, 6, 7], [9, 8, 1]]
        V = jitter(V, F, p.get('jit', 0.0), rnd)
        return V, F, False
    if name in ('voxels', 'cube'):      # boundary surface of a set of unit voxels, each square split in k x k cells
        cells = {(0, 0, 0)} if name == 'cube' else {(i, j, 0) for i in range(5) for j in range(3)} - {(1, 1, 0), (3, 1, 0)}
        k = p.get('k', 1)
        idx, V, F = {}, [], []

        def vid(pt):
            key = tuple(int(round(c * k)) for c in pt)
            if key not in idx:
                idx[key] = len(V)
                V.append([c / float(k) for c in key])
            return idx[key]
        for c in sorted(cells):
            for ax in range(3):
                for sgn in (-1, 1):
                    nb = list(c)
                    nb[ax] += sgn
                    if tuple(nb) in cells:
                        continue
                    u, w = [(1, 2), (2, 0), (0, 1)][ax]      # u x w = +ax
                    if sgn < 0:
                        u, w = w, u
                    o = np.array(c, float)
                    if sgn > 0:
                        o[ax] += 1
                    eu, ew = np.zeros(3), np.zeros(3)
                    eu[u], ew[w] = 1, 1
                    for a in range(k):
                        for b in range(k):
                            q = [vid(o + (a + da) * eu / k + (b + db) * ew / k) for (da, db) in ((0, 0), (1, 0), (1, 1), (0, 1))]
                            if (a + b) % 2 == 0:
                                F += [[q[0], q[1], q[2]], [q[0], q[2], q[3]]]
                            else:
                                F += [[q[0], q[1], q[3]], [q[1], q[2], q[3]]]
        V = [[x * (1 + 0.1 * y), y * 1.1 + 0.05 * z, z * 0.9] for x, y, z in V] if p.get('skew', True) else V
        return V, F, False
    raise ValueError('unknown mesh family %r' % name)


def permuted(V, F, seed):
    rnd = np.random.RandomState(seed + 12345)
    perm = rnd.permutation(len(V))          # old -> new
    V2 = [None] * len(V)
    for old, new in enumerate(perm):
        V2[new] = list(V[old])
    F2 = []
    for f in F:
        r = rnd.randint(3)
        g = [int(perm[f[(k + r) % 3]]) for k in range(3)]
        F2.append(g)
    return V2, F2, [int(x) for x in perm]


# ----------------------------------------------------------------------------------------------- raw geometry
class Geo:
    def __init__(s, V, F):
        s.V = np.array(V, float)
        s.F = [tuple(int(x) for x in f) for f in F]
        s.nV, s.nF = len(V), len(F)
        s.he = {}
        for fi, f in enumerate(s.F):
            for k in range(3):
                s.he[(f[k], f[(k + 1) % 3])] = fi
        s.edges = sorted({(min(a, b), max(a, b)) for (a, b) in s.he})
        s.border = {e for e in s.edges if ((e[0], e[1]) in s.he) != ((e[1], e[0]) in s.he)}
        s.bverts = {v for e in s.border for v in e}
        s.N = np.zeros((s.nF, 3))
        s.area = np.zeros(s.nF)
        s.ang = np.zeros((s.nF, 3))
        s.total = np.zeros(s.nV)
        for fi, f in enumerate(s.F):
            P = s.V[list(f)]
            n = np.cross(P[1] - P[0], P[2] - P[0])
            s.area[fi] = np.linalg.norm(n) / 2
            s.N[fi] = n / np.linalg.norm(n)
            for k in range(3):
                a, b = P[(k + 1) % 3] - P[k], P[(k + 2) % 3] - P[k]
                s.ang[fi, k] = math.atan2(np.linalg.norm(np.cross(a, b)), float(np.dot(a, b)))
                s.total[f[k]] += s.ang[fi, k]
        s.vfaces = [[] for _ in range(s.nV)]
        for fi, f in enumerate(s.F):
            for k in range(3):
                s.vfaces[f[k]].append((fi, k))
        an = analyse(s.nV, s.F)
        s.problems, s.chi = an['problems'], an['chi']

    def opp_angle(s, fi, a, b):
        f = s.F[fi]
        k = [x for x in range(3) if f[x] not in (a, b)][0]
        return s.ang[fi, k]

    def edge_faces(s, e):
        return [s.he[h] for h in ((e[0], e[1]), (e[1], e[0])) if h in s.he]

    def feature_edges(s, on):
        fe = set(s.border)
        if on:
            for e in s.edges:
                if e not in s.border:
                    t1, t2 = s.edge_faces(e)
                    if float(np.dot(s.N[t1], s.N[t2])) < 0.5:
                        fe.add(e)
        return fe

    def min_feature_margin(s):
        """distance of the dihedral cosines to the crease threshold (families keep well away from it)"""
        m = 1.0
        for e in s.edges:
            if e not in s.border:
                t1, t2 = s.edge_faces(e)
                m = min(m, abs(float(np.dot(s.N[t1], s.N[t2])) - 0.5))
        return m

    def ring_ccw(s, v, start=None):
        """neighbours of v in counter-clockwise order (w.r.t. the face orientation) with the corner angle following each;
        border vertices: starts at the first edge of the fan; interior: at 'start' (or any)"""
        nxt, angof = {}, {}
        prevs = set()
        for (fi, k) in s.vfaces[v]:
            f = s.F[fi]
            a, b = f[(k + 1) % 3], f[(k + 2) % 3]
            nxt[a] = b
            angof[a] = s.ang[fi, k]
            prevs.add(b)
        firsts = [a for a in nxt if a not in prevs]
        if firsts:
            cur = firsts[0]
        else:
            cur = start if start is not None else min(nxt)
        ring, angs = [], []
        while cur is not None and cur not in ring:
            ring.append(cur)
            angs.append(angof.get(cur))
            cur = nxt.get(cur)
        return ring, angs, bool(firsts)


def wrap(a, period=2 * PI):
    """representative of a modulo period in [-period/2, period/2)"""
    return (a + period / 2) % period - period / 2


def make_mesh(V, F):
    raw = M.mesh.RawMeshData()
    raw.vertices += [M.Vec(float(p[0]), float(p[1]), float(p[2])) for p in V]
    raw.faces += [tuple(int(x) for x in f) for f in F]
    return M.mesh.SurfaceMesh(raw)


# ----------------------------------------------------------------------------------------------- library run
class Run:
    def __init__(s, V, F, cfg):
        s.cfg = cfg
        s.geo = Geo(V, F)
        s.faces = cfg['element'] == 'faces'
        s.n = cfg['order']
        s.exc = None
        s.features = bool(cfg['features'] or (cfg['cad'] and not s.faces))     # documented: the CAD correction switches feature detection on
        s.fe = s.geo.feature_edges(s.features)
        s.fverts = {v for e in s.fe for v in e}
        try:
            s.mesh = make_mesh(V, F)
            conn = None
            if cfg['conn'] == 'flat':
                conn = FlatConnectionFaces(s.mesh) if s.faces else FlatConnectionVertices(s.mesh)
            np.random.seed(cfg['seed'] % 65536)
            s.field = FF.SurfaceFrameField(s.mesh, cfg['element'], order=s.n, features=cfg['features'], verbose=False,
                                           n_smooth=cfg['n_smooth'], smooth_attach_weight=cfg['alpha'], use_cotan=cfg['cotan'],
                                           cad_correction=cfg['cad'], smooth_normals=cfg['smooth_normals'], custom_connection=conn)
            s.field.initialize()
            s.var0 = np.array([s.field.var[i] for i in range(len(s.field.var))], dtype=complex)
            s.t0 = None
            if not s.faces and cfg['conn'] != 'flat':
                s.t0 = dict(s.field.conn._transport)
            s.field.run()
            s.var = np.array([s.field.var[i] for i in range(len(s.field.var))], dtype=complex)
            nel = s.geo.nF if s.faces else s.geo.nV
            if len(s.var) != nel:
                raise AssertionError('field has %d values for %d %s' % (len(s.var), nel, cfg['element']))
            if [tuple(f) for f in s.mesh.faces] != s.geo.F:
                raise AssertionError('mesh faces were reordered by the library')
            s.X = np.array([np.array(s.field.conn.base(i)[0], float) for i in range(nel)])
            s.Y = np.array([np.array(s.field.conn.base(i)[1], float) for i in range(nel)])
        except Exception as e:
            s.exc = '%s: %s' % (type(e).__name__, e)

    # -- helpers -------------------------------------------------------------
    def lib_feature_edges(s):
        out = set()
        for e in s.field.feat.feature_edges:
            a, b = s.mesh.edges[e]
            out.add((min(a, b), max(a, b)))
        return out

    def face_angle(s, T, a, b):
        E = s.geo.V[b] - s.geo.V[a]
        return math.atan2(float(np.dot(E, s.Y[T])), float(np.dot(E, s.X[T])))

    def fixed_elements(s):
        if s.faces:
            return sorted({t for e in s.fe for t in s.geo.edge_faces(e)})
        return sorted(s.fverts)

    def check_bases(s):
        g = s.geo
        nel = g.nF if s.faces else g.nV
        for i in range(nel):
            X, Y = s.X[i], s.Y[i]
            if abs(np.linalg.norm(X) - 1) > 1e-9 or abs(np.linalg.norm(Y) - 1) > 1e-9 or abs(np.dot(X, Y)) > 1e-9:
                return 'tangent basis of %s %d is not orthonormal: X=%r Y=%r' % (s.cfg['element'][:-1], i, X.tolist(), Y.tolist())
            if s.faces:
                if abs(np.dot(X, g.N[i])) > 1e-9 or abs(np.dot(Y, g.N[i])) > 1e-9 or np.dot(np.cross(X, Y), g.N[i]) < 0.999:
                    return 'tangent basis of face %d is not a direct basis of the face plane (X x Y . N = %.6f)' % (i, np.dot(np.cross(X, Y), g.N[i]))
        return None

    # -- vertex charts (independent rebuild of the intrinsic parallel transport) ---------------
    def my_vertex_transport(s):
        """-> (dict (u,v) -> angle of edge u->v in the chart of u, None) or (None, message)"""
        g, n = s.geo, s.n
        if s.cfg['conn'] == 'flat':
            t = {}
            for (a, b) in g.he:
                for (u, v) in ((a, b), (b, a)):
                    E = g.V[v] - g.V[u]
                    t[(u, v)] = math.atan2(E[1], E[0])
            return t, None
        t = {}
        for u in range(g.nV):
            X, Y = s.X[u], s.Y[u]
            Nn = np.cross(X, Y)
            ring0, _, open_fan = g.ring_ccw(u)
            # reference edge: the one whose projection on the tangent plane is X
            best, bw = -2, None
            for w in ring0:
                E = g.V[w] - g.V[u]
                E = E - np.dot(E, Nn) * Nn
                c = float(np.dot(E / np.linalg.norm(E), X))
                if c > best:
                    best, bw = c, w
            if best < 1 - 1e-9:
                return None, 'vertex %d: basis X is not the projection of any incident edge (best cosine %.9f)' % (u, best)
            ring, angs, open_fan = g.ring_ccw(u, start=bw)
            if ring[0] != bw:
                return None, 'vertex %d (border): reference edge (%d,%d) of the tangent basis is not the first edge of the face fan (%d,%d)' % (u, u, bw, u, ring[0])
            tot = g.total[u]
            if u in s.fverts:
                x = tot * n / (2 * PI)
                if tot < 2 * PI / n:
                    cands = [1]
                elif abs(x - math.floor(x) - 0.5) < 1e-9:
                    cands = [int(math.floor(x)), int(math.floor(x)) + 1]
                else:
                    cands = [int(round(x))]
                scales = [c * 2 * PI / n / tot for c in cands]
            else:
                scales = [2 * PI / tot]
            sc = scales[0]
            if len(scales) > 1 and s.t0 is not None:       # rounding tie (e.g. straight border, odd order): either neighbour multiple is admissible
                last = ring[-1]
                cum = sum(a for a in angs[:-1] if a is not None) if open_fan else sum(angs[:-1])
                sc = min(scales, key=lambda q: abs(s.t0.get((u, last), 0.0) - cum * q))
            acc = 0.0
            for w, a in zip(ring, angs):
                t[(u, w)] = acc * sc
                if a is not None:
                    acc += a
        return t, None

    def lib_vertex_transport(s, initial=False):
        if s.cfg['conn'] == 'flat' or (initial and s.t0 is None):
            return s.my_vertex_transport()[0]
        src = s.t0 if initial else s.field.conn._transport
        return dict(src)

    # -- my Laplacians ---------------------------------------------------------------------
    def my_face_lap(s, connection=True):
        g, n = s.geo, s.n
        L = np.zeros((g.nF, g.nF), dtype=complex)
        degenerate = False
        for e in g.edges:
            if e in g.border:
                continue
            a, b = e
            T1, T2 = g.he[(a, b)], g.he[(b, a)]
            if s.cfg['cotan']:
                cs = 1 / math.tan(g.opp_angle(T1, a, b)) + 1 / math.tan(g.opp_angle(T2, a, b))
                if abs(cs) < 1e-6:
                    degenerate = True
                    continue
                w = 1 / cs
            else:
                w = 1.0
            if connection:
                r = cmath.rect(1, n * (s.face_angle(T2, a, b) - s.face_angle(T1, a, b)))     # z1 seen from T2 = z1 * r
            else:
                r = 1.0
            L[T1, T1] += w
            L[T2, T2] += w
            L[T2, T1] -= w * r
            L[T1, T2] -= w * np.conj(r)
        return L, degenerate

    def my_vertex_lap(s, t=None):
        g, n = s.geo, s.n
        L = np.zeros((g.nV, g.nV), dtype=complex)
        for fi, f in enumerate(g.F):
            for k in range(3):
                i, j = f[(k + 1) % 3], f[(k + 2) % 3]
                w = 0.5 / math.tan(g.ang[fi, k]) if s.cfg['cotan'] else 0.5
                # a vector of angle x in the chart of i has angle x - t(i,j) + t(j,i) + pi in the chart of j
                r = cmath.rect(1, n * (t[(j, i)] + PI - t[(i, j)])) if t is not None else 1.0
                L[i, i] += w
                L[j, j] += w
                L[j, i] -= w * r
                L[i, j] -= w * np.conj(r)
        return L


def dense(m):
    return np.asarray(m.todense()) if hasattr(m, 'todense') else np.asarray(m)


# ----------------------------------------------------------------------------------------------- checks
def chk_unit(r):
    d = np.abs(np.abs(r.var) - 1)
    i = int(np.argmax(d))
    if not np.all(np.isfinite(r.var)):
        return 'field has non-finite values'
    if d[i] > 1e-9:
        return '|z| = %.6g on %s %d (%d of %d elements are not unit), expected 1' % (abs(r.var[i]), r.cfg['element'][:-1], i, int(np.sum(d > 1e-9)), len(d))
    return None


def chk_constraint(r):
    g, n = r.geo, r.n
    lib_fe = r.lib_feature_edges()
    if lib_fe != r.fe:
        return 'constrained edge set differs from border%s edges: extra %r missing %r' % (' + crease' if r.features else '', sorted(lib_fe - r.fe)[:5], sorted(r.fe - lib_fe)[:5])
    err = r.check_bases() if r.cfg['conn'] != 'flat' else None
    if err:
        return err
    fixed = r.fixed_elements()
    for i in fixed:
        if abs(abs(r.var0[i]) - 1) > 1e-9:
            return 'constraint of %s %d has modulus %.6g after initialize(), expected 1' % (r.cfg['element'][:-1], i, abs(r.var0[i]))
    for i in fixed:
        if abs(r.var[i] - r.var0[i]) > 1e-9:
            return 'constrained %s %d moved from %r to %r during optimize()' % (r.cfg['element'][:-1], i, complex(r.var0[i]), complex(r.var[i]))
    if r.faces:
        for T, f in enumerate(g.F):
            fes = [(f[k], f[(k + 1) % 3]) for k in range(3) if (min(f[k], f[(k + 1) % 3]), max(f[k], f[(k + 1) % 3])) in r.fe]
            if len(fes) != 1:
                continue
            a = r.face_angle(T, *fes[0])
            devs = [abs(wrap(cmath.phase(r.var[T]) - n * (a + kk * PI))) / n for kk in (0, 1)]
            if min(devs) > 1e-7:
                return 'face %d %r has exactly one border/feature edge %r but no branch tangent to it: nearest branch is %.4f deg off (z=%r, edge angle in face basis %.6f)' % (
                    T, f, fes[0], math.degrees(min(devs)), complex(r.var[T]), a)
        return None
    # vertices: recompute the constraint from incident feature edges
    t, msg = r.my_vertex_transport()
    if t is None:
        return 'connection: ' + msg
    flat = r.cfg['conn'] == 'flat'
    inc = {}
    for e in sorted(r.fe):
        inc.setdefault(e[0], []).append(e[1])
        inc.setdefault(e[1], []).append(e[0])
    for v in fixed:
        terms = []
        for w in inc[v]:
            if r.cfg['smooth_normals'] and n % 2 == 0:
                E = g.V[w] - g.V[v]
                c = complex(E[0], E[1]) if flat else complex(np.dot(E, r.X[v]), np.dot(E, r.Y[v]))
                terms.append((c / abs(c)) ** n)
            else:
                terms.append(cmath.rect(1, n * t[(v, w)]))
        # exact cancellations between edges are resolved by edge order in the library: not decidable, skip
        partial = [abs(sum(terms[:k])) for k in range(1, len(terms) + 1)]
        amb = any(abs(a + b) < 1e-6 for i_, a in enumerate(terms) for b in terms[i_ + 1:]) or min(partial) < 1e-6 or abs(sum(terms)) < 1e-6
        S = sum(terms)
        if not amb:
            exp = S / abs(S)
            if abs(r.var[v] - exp) > 1e-7:
                return 'constrained vertex %d: frame %r, expected %r (normalised mean of the %d incident feature edge directions to the power %d)' % (v, complex(r.var[v]), complex(exp), len(terms), n)
        # straight feature line through v on a planar mesh: a branch must be tangent to it
        if len(inc[v]) == 2 and r.planar:
            E1, E2 = g.V[inc[v][0]] - g.V[v], g.V[inc[v][1]] - g.V[v]
            if np.linalg.norm(np.cross(E1, E2)) < 1e-12 * np.linalg.norm(E1) * np.linalg.norm(E2) and np.dot(E1, E2) < 0:
                a = t[(v, inc[v][0])]
                devs = [abs(wrap(cmath.phase(r.var[v]) - n * (a + kk * PI))) / n for kk in (0, 1)]
                if min(devs) > 1e-7:
                    return 'vertex %d lies on a straight border/feature line but no branch of its frame is tangent to it (%.4f deg off, z=%r)' % (v, math.degrees(min(devs)), complex(r.var[v]))
    return None


def chk_singular(r):
    g, n = r.geo, r.n
    if not r.faces:
        return None
    r.field.flag_singularities()
    att = r.mesh.vertices.get_attribute('singuls')
    sing = np.array([float(att[v]) for v in range(g.nV)])
    q = 4.0 / n
    theta = np.array([cmath.phase(z) / n for z in r.var])
    n_zero = 0
    for v in range(g.nV):
        if v in g.bverts:
            continue
        k = sing[v] / q
        if abs(k - round(k)) > 1e-6:
            return "singuls[%d] = %.9f at an interior vertex is not a multiple of 4/order = %.6f" % (v, sing[v], q)
        # independent index: angle defect + matched rotations across the edges of the fan, counter-clockwise
        ring, angs, open_fan = g.ring_ccw(v)
        K = 2 * PI - g.total[v]
        tot, tie = K, False
        m = len(ring)
        for j in range(m):
            u = ring[j]
            Tprev, Tcur = g.he[(u, v)], g.he[(v, u)]      # face before / after the edge (v,u) when turning counter-clockwise around v
            psi_prev = theta[Tprev] - r.face_angle(Tprev, v, u)
            psi_cur = theta[Tcur] - r.face_angle(Tcur, v, u)
            rho = wrap(psi_cur - psi_prev, 2 * PI / n)
            if abs(abs(rho) - PI / n) < 1e-7:
                tie = True
            tot += rho
        exp = tot * 2 / PI if abs(tot) > 1e-3 else 0.0
        if abs(abs(tot) - 1e-3) < 1e-9:
            tie = True
        if not tie and abs(sing[v] - exp) > 1e-6:
            return 'singuls[%d] = %.9f, index recomputed around the vertex fan = %.9f (quantum %.6f)' % (v, sing[v], exp, q)
    S = float(sing.sum())
    tol = 1e-3 * 2 / PI * g.nV + 1e-9
    if abs(S - 4 * g.chi) > tol:
        return "sum of 'singuls' = %.9f, expected 4*chi = %d (chi=%d, order %d)" % (S, 4 * g.chi, g.chi, n)
    return None


def chk_laplacian(r):
    g, n, cot = r.geo, r.n, r.cfg['cotan']
    flat = r.cfg['conn'] == 'flat'
    if r.faces:
        Llib = dense(operators.laplacian_triangles(r.mesh, cotan=cot, connection=r.field.conn, order=n)).astype(complex)
        Lmine, degen = r.my_face_lap(connection=not flat)
        what = 'laplacian_triangles'
    else:
        Llib = dense(operators.laplacian(r.mesh, cotan=cot, connection=r.field.conn, order=n)).astype(complex)
        degen = False
        what = 'laplacian'
    scale = max(1e-30, np.abs(Llib).max())
    d = np.abs(Llib - Llib.conj().T).max() / scale
    if d > 1e-12:
        i, j = np.unravel_index(np.argmax(np.abs(Llib - Llib.conj().T)), Llib.shape)
        return '%s(connection, order=%d) is not Hermitian: L[%d,%d]=%r, L[%d,%d]=%r' % (what, n, i, j, complex(Llib[i, j]), j, i, complex(Llib[j, i]))
    if not r.faces:
        # (a) with the library's transport angles and my weights / assembly
        Lmine = r.my_vertex_lap(r.lib_vertex_transport())
    if not degen:
        d = np.abs(Llib - Lmine).max() / scale
        if d > 1e-9:
            i, j = np.unravel_index(np.argmax(np.abs(Llib - Lmine)), Llib.shape)
            return '%s(cotan=%s, connection, order=%d)[%d,%d] = %r, rebuilt from the raw mesh: %r' % (what, cot, n, i, j, complex(Llib[i, j]), complex(Lmine[i, j]))
    if not r.faces and not flat and not r.cfg['cad']:
        # (b) parallel transport of the vertex connection rebuilt from the corner angles
        err = r.check_bases()
        if err:
            return err
        t, msg = r.my_vertex_transport()
        if t is None:
            return 'connection: ' + msg
        tl = r.lib_vertex_transport()
        for key in sorted(t):
            if abs(wrap(t[key] - tl[key])) > 1e-9:
                return 'connection.transport%r = %.9f, intrinsic angle of that edge in the chart of vertex %d rebuilt from corner angles = %.9f' % (key, tl[key], key[0], t[key])
    if flat or r.planar:
        # flat connection on a planar mesh -> scalar Laplacian
        if r.faces:
            fc = FlatConnectionFaces(r.mesh)
            Lf = dense(operators.laplacian_triangles(r.mesh, cotan=cot, connection=fc, order=n)).astype(complex)
            Ls = dense(operators.laplacian_triangles(r.mesh, cotan=cot)).astype(complex)
            Lm, degen2 = r.my_face_lap(connection=False)
        else:
            fc = FlatConnectionVertices(r.mesh)
            Lf = dense(operators.laplacian(r.mesh, cotan=cot, connection=fc, order=n)).astype(complex)
            Ls = dense(operators.laplacian(r.mesh, cotan=cot)).astype(complex)
            Lm, degen2 = r.my_vertex_lap(None), False
        if np.abs(Lf - Ls).max() / scale > 1e-9:
            i, j = np.unravel_index(np.argmax(np.abs(Lf - Ls)), Lf.shape)
            return '%s with a flat connection (order %d) differs from the scalar Laplacian: [%d,%d] = %r vs %r' % (what, n, i, j, complex(Lf[i, j]), complex(Ls[i, j]))
        if not degen2 and np.abs(Ls - Lm).max() / scale > 1e-9:
            i, j = np.unravel_index(np.argmax(np.abs(Ls - Lm)), Ls.shape)
            return 'scalar %s(cotan=%s)[%d,%d] = %r, rebuilt from the raw mesh: %r' % (what, cot, i, j, complex(Ls[i, j]), complex(Lm[i, j]))
    return None


def chk_harmonic(r):
    g, n = r.geo, r.n
    if r.cfg['n_smooth'] != 0:
        return None
    fixed = r.fixed_elements()
    if not fixed:
        return None
    nel = g.nF if r.faces else g.nV
    fs = set(fixed)
    free = [i for i in range(nel) if i not in fs]
    if not free:
        return None
    flat = r.cfg['conn'] == 'flat'
    if r.faces:
        L, degen = r.my_face_lap(connection=not flat)
        if degen:
            return None          # an interior edge with cot(a)+cot(b) = 0: the dual cotangent weight is undefined
    else:
        L = r.my_vertex_lap(r.lib_vertex_transport())
    LI = L[np.ix_(free, free)]
    LB = L[np.ix_(free, fixed)]
    if np.linalg.cond(LI) > 1e9:
        return None
    zB = r.var0[fixed]
    z = np.linalg.solve(LI, -LB.dot(zB))
    for k, i in enumerate(free):
        if abs(z[k]) < 1e-8:
            continue             # direction undefined (reported by 'unit' if the library leaves 0 there)
        exp = z[k] / abs(z[k])
        tol = 1e-6 / min(1.0, abs(z[k]) * 1e3 + 1e-12) if abs(z[k]) < 1e-3 else 1e-6
        if abs(r.var[i] - exp) > tol:
            return '%s %d: frame %r, normalised harmonic extension of the constraints gives %r (|unnormalised| = %.3g)' % (r.cfg['element'][:-1], i, complex(r.var[i]), complex(exp), abs(z[k]))
    return None


def rel_directions(r, V, F, perm=None):
    """representation of each element's frame relative to a fixed geometric edge of that element;
    elements and edges are named in the ORIGINAL numbering (perm: old vertex id -> new id)"""
    g, n = r.geo, r.n
    out = []
    if r.faces:
        for T in range(g.nF):
            f0 = F[T]                                     # original face: geometric edge f0[0] -> f0[1]
            a, b = (f0[0], f0[1]) if perm is None else (perm[f0[0]], perm[f0[1]])
            out.append(r.var[T] * cmath.rect(1, -n * r.face_angle(T, a, b)))
    else:
        t = r.lib_vertex_transport()
        nb = {}
        for (a, b) in Geo(V, F).edges:
            nb.setdefault(a, []).append(b)
            nb.setdefault(b, []).append(a)
        for v in range(len(V)):
            u = min(nb[v])
            vv, uu = (v, u) if perm is None else (perm[v], perm[u])
            out.append(r.var[vv] * cmath.rect(1, -n * t[(vv, uu)]))
    return np.array(out)


def chk_invariance(r, V, F):
    cfg = r.cfg
    if not r.geo.border or cfg['cad']:
        return None           # CAD correction: the transport is corrected by an iterative QP solver (accuracy 1e-3 by construction)
    # automatic smoothing weight = eigenvalue estimate that the library computes to a relative accuracy of 1e-3 only: loose tolerance
    tol = 5e-3 if (cfg['n_smooth'] > 0 and cfg['alpha'] is None) else 1e-6
    V2, F2, perm = permuted(V, F, cfg['seed'])
    r2 = Run(V2, F2, cfg)
    r2.planar = r.planar
    if r2.exc:
        return 'after renumbering vertices / rotating faces the call raised %s' % r2.exc
    w1 = rel_directions(r, V, F)
    w2 = rel_directions(r2, V, F, perm)
    d = np.abs(w1 - w2)
    i = int(np.argmax(d))
    if d[i] > tol:
        return 'direction of %s %d relative to its reference edge changes after renumbering vertices / rotating face start vertices: z=%r vs %r (%d of %d elements differ by more than %g)' % (
            cfg['element'][:-1], i, complex(w1[i]), complex(w2[i]), int(np.sum(d > tol)), len(d), tol)
    return None


def run_check(r, V, F, check):
    if check == 'run':
        return ('library call raised ' + r.exc) if r.exc else None
    if r.exc:
        return None
    try:
        if check == 'unit':
            return chk_unit(r)
        if check == 'constraint':
            return chk_constraint(r)
        if check == 'singular':
            return chk_singular(r)
        if check == 'laplacian':
            return chk_laplacian(r)
        if check == 'harmonic':
            return chk_harmonic(r)
        if check == 'invariance':
            return chk_invariance(r, V, F)
    except Exception as e:
        import traceback
        tb = traceback.extract_tb(e.__traceback__)[-1]
        return 'check raised %s: %s (%s:%d)' % (type(e).__name__, e, tb.filename.split('/')[-1], tb.lineno)
    return None


# ----------------------------------------------------------------------------------------------- enumeration
ODD_STRAIGHT = [{'features': [False]}, {'features': [True], 'order': [2, 3, 4]}]     # straight crease lines: keep few odd-order cases


def mesh_family(thorough):
    """(family name, parameters, rules); rules: only = list of {key: allowed values} (a configuration is kept if it matches one),
    flat = also run with the library's flat connection, cad = orders for which the CAD correction is also run (vertices)"""
    fam = [
        ('pgrid', dict(nu=5, nv=7, shear=0.3, jit=0.3), dict(flat=True)),          # unequal resolutions, oblique corners, straight borders
        ('pgrid', dict(nu=5, nv=5, shear=0.0, jit=0.35, bjit=True), dict(flat=thorough)),   # nothing aligned
        ('pgrid', dict(nu=5, nv=5, shear=0.0, jit=0.0), dict(only=[{'order': [1, 4], 'features': [False]}], noinv=True)),   # fully symmetric square, right-angled diagonals
        ('annulus', dict(nr=3, nt=7, jit=0.25), {}),                               # two border loops
        ('hex', dict(R=2, jit=0.2), {}),                                           # 120 degree corners
        ('lshape', dict(n=2, jit=0.3), {}),                                        # re-entrant corner
        ('twocomp', dict(), {}),                                                   # two components, three loops
        ('fan', dict(k=5), {}),                                                    # a single interior vertex
        ('strip', dict(n=4), dict(only=[{'order': [3], 'features': [False]}])),                      # no interior vertex, end faces with two border edges
        ('tri1', dict(), dict(only=[{'order': [4], 'n_smooth': [0]}])),            # a single face
        ('ears', dict(nu=3, nv=4, jit=0.2), dict(only=[{'order': [4], 'features': [False]}])),       # faces with two border edges
        ('saddle', dict(nu=5, nv=7, amp=0.12, jit=0.2), dict(cad=[2, 4, 5])),      # curved, bordered
        ('fold', dict(n=5, nv=7, deg=90, bend=0.15), dict(cad=[4])),               # curved crease line reaching the border
        ('fold', dict(n=5, nv=7, deg=90), dict(only=[{'features': [True], 'order': [3, 4]}])),   # straight crease line
        ('hex', dict(R=2, dome=0.35, jit=0.1), {}),                                # curved dome
        ('cyl', dict(nt=9, nh=4, jit=0.1), {}),                                    # curved, two loops
        ('halfocta', dict(sub=1, jit=0.05), {}),                                   # hemisphere
        ('torus_hole', dict(nu=8, nv=7), {}),                                      # genus 1 with one border loop
        ('tetra', dict(sub=0), {}),                                                # closed, all edges are creases
        ('octa', dict(sub=1, jit=0.05), {}),                                       # closed, smooth
        ('icosa', dict(jit=0.1), {}),                                              # closed
        ('cube', dict(k=2), dict(only=ODD_STRAIGHT)),                              # closed with straight crease lines
        ('torus', dict(nu=8, nv=7), {}),                                           # genus 1
        ('voxels', dict(k=1), dict(only=[{'features': [False]}, {'features': [True], 'order': [2, 4]}])),   # genus 2, crease lines
        ('twotets', dict(), dict(only=[{'order': [4], 'n_smooth': [0]}])),         # two closed components
    ]
    if thorough:
        fam += [
            ('pgrid', dict(nu=7, nv=9, shear=0.2, jit=0.3), {}),
            ('pgrid', dict(nu=3, nv=3, shear=0.0, jit=0.0), dict(only=[{'order': [2, 3], 'features': [False]}], noinv=True)),
            ('pgrid', dict(nu=5, nv=7, shear=0.5, jit=0.2, bjit=True), dict(flat=True)),
            ('annulus', dict(nr=2, nt=5, jit=0.0, ecc=0.7), {}),
            ('annulus', dict(nr=4, nt=9, jit=0.2), dict(flat=True)),
            ('hex', dict(R=1, jit=0.15, bjit=True), {}),
            ('hex', dict(R=3, jit=0.25), {}),
            ('lshape', dict(n=3, jit=0.2), {}),
            ('fan', dict(k=3), {}),
            ('fan', dict(k=8), {}),
            ('ears', dict(nu=4, nv=4, jit=0.0), dict(only=[{'order': [5], 'features': [False]}])),
            ('saddle', dict(nu=7, nv=7, amp=0.2, jit=0.2), dict(cad=[3, 4])),
            ('fold', dict(n=5, nv=9, deg=75, bend=0.1), {}),
            ('fold', dict(n=5, nv=5, deg=40, bend=0.1), {}),
            ('cyl', dict(nt=11, nh=3, jit=0.0), {}),
            ('halfocta', dict(sub=2, jit=0.02), {}),
            ('torus_hole', dict(nu=9, nv=8, jit=0.05), {}),
            ('tetra', dict(sub=2), dict(only=ODD_STRAIGHT)),
            ('octa', dict(sub=0), {}),
            ('octa', dict(sub=2, jit=0.02), {}),
            ('cube', dict(k=1), dict(only=ODD_STRAIGHT)),
            ('cube', dict(k=3), dict(only=[{'features': [False]}, {'features': [True], 'order': [2, 4, 6]}])),
            ('torus', dict(nu=9, nv=8, jit=0.05), {}),
            ('voxels', dict(k=2), dict(only=[{'features': [False]}, {'features': [True], 'order': [2, 4]}])),
        ]
    return fam


def option_sets(name, p, rules, planar, closed, seed, mi, thorough):
    """deterministic covering of the option space: every order x element for every mesh, the remaining options rotate"""
    rnd = random.Random(seed * 1000003 + mi)
    out = []

    def cfg_of(element, order, feat, ns, alpha, cot, sn=True, cad=False, conn='default'):
        return dict(mesh=name, params=p, element=element, order=order, features=feat, n_smooth=ns, cotan=cot, alpha=alpha,
                    smooth_normals=sn, cad=cad, conn=conn, seed=seed)
    for element in ('faces', 'vertices'):
        for order in range(1, 7):
            base = [(0, None), (2, None), (3, 0.05)] if thorough else [(0, None), (rnd.choice([1, 2, 3]), rnd.choice([None, 0.05]))]
            for (ns, alpha) in base:
                feats = (False, True) if ns == 0 else (rnd.choice([False, True]),)
                for feat in feats:
                    cots = (True, False) if (thorough and ns == 0) else (rnd.choice([True, False]),)
                    for cot in cots:
                        sn = True if element == 'faces' else rnd.random() < 0.6
                        out.append(cfg_of(element, order, feat, ns, alpha, cot, sn=sn))
            if rules.get('flat') and planar:
                out.append(cfg_of(element, order, False, 0, None, order % 2 == 0, sn=order % 3 != 0, conn='flat'))
                if thorough:
                    out.append(cfg_of(element, order, False, 2, 0.05, order % 2 == 1, sn=order % 3 == 0, conn='flat'))
            if order == 4 and not closed:       # automatic smoothing weight with uniform weights, both elements
                out.append(cfg_of(element, order, False, 2, None, False, sn=True))
            if element == 'vertices' and order in rules.get('cad', []):
                out.append(cfg_of(element, order, order % 2 == 0, 0, None, True, sn=True, cad=True))
                out.append(cfg_of(element, order, True, 2, 0.05, False, sn=order % 2 == 0, cad=True))
    only = rules.get('only')
    if only:
        out = [c for c in out if any(all(c[k] in allowed for k, allowed in rule.items()) for rule in only)]
    return out


def checks_for(cfg):
    cs = ['run', 'unit', 'constraint']
    if cfg['element'] == 'faces':
        cs.append('singular')
    if cfg['n_smooth'] == 0:
        cs += ['laplacian', 'harmonic']
    cs.append('invariance')
    return cs


def strip_err(c):
    return {k: v for k, v in c.items() if k != 'error'}


def main():
    req = read_request()
    mode = req.get('mode', 'bounded')
    seed = int(req.get('seed', 0) or 0)
    thorough = req.get('tier') == 'thorough'
    known = [strip_err(k) for k in (req.get('known') or [])]
    budget = Budget(270 if thorough else 50)
    if mode == 'replay':
        case = strip_err(req['case'])
        cfg = {k: v for k, v in case.items() if k != 'check'}
        V, F, planar = build_mesh(cfg['mesh'], cfg['params'], cfg['seed'])
        r = Run(V, F, cfg)
        r.planar = planar
        err = run_check(r, V, F, case['check'])
        if err:
            respond(failing=dict(case, error=err), cases=1)
        respond(failing=None, cases=1)
    n = 0
    known_hit = []
    note = None
    collect = [] if req.get('collect') else None      # debugging aid: report every failing case instead of stopping at the first
    fam = mesh_family(thorough)
    # interleave: all meshes for one (element, order, options) slot before the next slot, so that a truncated run still covers every mesh
    per_mesh = []
    for mi, (name, p, rules) in enumerate(fam):
        V, F, planar = build_mesh(name, p, seed)
        g = Geo(V, F)
        for _ in range(6):               # keep every dihedral angle clear of the crease threshold: damp the jitter if needed
            if g.problems or g.min_feature_margin() >= 0.03 or not p.get('jit'):
                break
            p = dict(p, jit=p['jit'] / 2)
            V, F, planar = build_mesh(name, p, seed)
            g = Geo(V, F)
        if g.problems:
            respond(failing=None, cases=0, note='oracle bug: family member %s %r is not a valid surface: %r' % (name, p, g.problems[:3]))
        if g.min_feature_margin() < 0.03:
            respond(failing=None, cases=0, note='oracle bug: family member %s %r has a dihedral angle too close to the crease threshold' % (name, p))
        per_mesh.append((V, F, planar, option_sets(name, p, rules, planar, not g.border, seed, mi, thorough), bool(rules.get('noinv'))))
    slot = 0
    while True:
        live = False
        for (V, F, planar, opts, noinv) in per_mesh:
            if slot >= len(opts):
                continue
            live = True
            cfg = opts[slot]
            if budget.over():
                note = 'time budget reached after %d cases' % n
                live = False
                break
            r = Run(V, F, cfg)
            r.planar = planar
            for check in checks_for(cfg):
                if noinv and check == 'invariance':
                    continue     # exactly symmetric mesh: the harmonic field vanishes on some elements (see 'unit'), directions undefined there
                n += 1
                err = run_check(r, V, F, check)
                if err:
                    case = dict(cfg, check=check)
                    if case in known:
                        known_hit.append(dict(case, error=err))
                        continue
                    if collect is not None:
                        collect.append(dict(case, error=err))
                        continue
                    respond(failing=dict(case, error=err), cases=n, known_hit=known_hit)
        if not live:
            break
        slot += 1
    if collect is not None:
        respond(failing=collect[0] if collect else None, cases=n, known_hit=known_hit, note=note, all_failures=collect)
    respond(failing=None, cases=n, known_hit=known_hit, note=note)


main()
