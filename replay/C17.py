"""C17 native oracle: Tutte's embedding is a fold-free planar embedding onto the convex target.

Clauses (each (input, clause) pair is one case; the clause name is part of the case descriptor):
  run          the library does not raise on a triangulated disk
  border       border vertices lie on the target shape (unit circle / unit square / the custom positions),
               at pairwise distinct positions, and in border order (the position along the shape is strictly
               monotone, winding exactly once, when walking the border loop extracted from the raw face list)
  harmonic     every interior vertex is the weighted average of its neighbours (weights recomputed here:
               1 per edge, or (cot a + cot b)/2 from the 3D vertex coordinates)
  orientation  all triangles have the same strict orientation in uv (uniform weights: always; cotangent
               weights: only when every weight of an edge with an interior endpoint is >= 0; square target:
               triangles whose three uv lie on one side of the square are exempt)
  agree        per-corner output == per-vertex output at every corner, flat_mesh == uv for both storages
  reject       (non-disk inputs, chi != 1: annulus, two-holed disk, closed tetrahedron, torus, two components)
               run() raises deliberately (an IndexError/KeyError/TypeError/... or a crash inside numpy/scipy
               while computing on the non-disk does not count as a rejection)
Everything is recomputed from mesh.vertices / mesh.faces with numpy; the library's border extraction,
laplacian and cotangent code is never called by the oracle.
"""
import math, random
import numpy as np
from replay.common import *
from replay.meshcheck import analyse
import mouette as M
from mouette.processing.parametrization import TutteEmbedding

ID_KEYS = ('mesh', 'params', 'mode', 'cotan', 'clause')


def _cross2(a, b):
    return float(a[0] * b[1] - a[1] * b[0])


# ------------------------------------------------------------------ mesh families (explicit V / F lists)
def _permute(V, F, seed):
    """random relabelling of the vertices and rotation / shuffling of the faces (orientation kept)"""
    rnd = random.Random(seed)
    n = len(V)
    perm = list(range(n))
    rnd.shuffle(perm)                       # old -> new
    V2 = [None] * n
    for o, nw in enumerate(perm):
        V2[nw] = V[o]
    F2 = []
    for f in F:
        f = [perm[v] for v in f]
        r = rnd.randrange(3)
        F2.append(tuple(f[r:] + f[:r]))
    rnd.shuffle(F2)
    return V2, F2


def fam_fan(n, lift=0.0, perm=0):
    V = [(0.1, -0.05, lift)] + [(math.cos(2 * math.pi * k / n), math.sin(2 * math.pi * k / n), 0.0) for k in range(n)]
    F = [(0, 1 + k, 1 + (k + 1) % n) for k in range(n)]
    return _permute(V, F, perm) if perm else (V, F)


def fam_polygon(n, perm=0):
    """convex polygon triangulated from vertex 0: no interior vertex, every interior edge joins border vertices"""
    V = [(math.cos(2 * math.pi * k / n), 0.7 * math.sin(2 * math.pi * k / n), 0.0) for k in range(n)]
    F = [(0, k, k + 1) for k in range(1, n - 1)]
    return _permute(V, F, perm) if perm else (V, F)


def fam_grid(nu, nv, jitter=0.0, seed=0, perm=0, ears=0):
    rnd = np.random.RandomState(seed)
    V, F = [], []
    for i in range(nu):
        for j in range(nv):
            V.append((i + jitter * rnd.randn(), 1.3 * j + jitter * rnd.randn(), jitter * rnd.randn()))
    for i in range(nu - 1):
        for j in range(nv - 1):
            a, b, c, d = i * nv + j, (i + 1) * nv + j, (i + 1) * nv + j + 1, i * nv + j + 1
            if (i + j) % 2 == 0:
                F += [(a, b, c), (a, c, d)]
            else:
                F += [(a, b, d), (b, c, d)]
    # ears: a new vertex glued on every `ears`-th border edge -> that edge becomes an interior edge joining border vertices
    if ears:
        und = {}
        for f in F:
            for k in range(3):
                und[(f[k], f[(k + 1) % 3])] = 1
        bord = sorted(e for e in und if (e[1], e[0]) not in und)
        for t, (a, b) in enumerate(bord):
            if t % ears == 0:
                pa, pb = np.array(V[a]), np.array(V[b])
                mid = (pa + pb) / 2
                d = pb - pa
                out = np.array([d[1], -d[0], 0.0])      # right of a->b = outside for ccw faces
                V.append(tuple(mid + 0.4 * out))
                F.append((b, a, len(V) - 1))
    return _permute(V, F, perm) if perm else (V, F)


def _delaunay(npts, seed):
    from scipy.spatial import Delaunay
    rnd = np.random.RandomState(seed)
    P = []
    while len(P) < npts:
        p = rnd.rand(2) * 2 - 1
        if p.dot(p) <= 1:
            P.append(p)
    P = np.array(P)
    tri = Delaunay(P)
    F = []
    for a, b, c in tri.simplices.tolist():
        if _cross2(P[b] - P[a], P[c] - P[a]) < 0:
            b, c = c, b
        F.append((a, b, c))
    used = sorted({v for f in F for v in f})
    assert used == list(range(npts))
    return P, F


def fam_delaunay(npts, seed=0, lift=0.0, carve=0, perm=0):
    """Delaunay triangulation of random points in the unit disk (flat: all cotangent weights >= 0), optionally
    lifted to z = lift*(x^2 - y^2 + x) and with `carve` border triangles removed (non-convex outline, interior
    edges joining border vertices, border vertices of high valence)"""
    P, F = _delaunay(npts, seed)
    rnd = random.Random(seed * 7919 + carve)
    for _ in range(carve):
        d = {}
        for f in F:
            for k in range(3):
                d[(f[k], f[(k + 1) % 3])] = 1
        bverts = {a for (a, b) in d if (b, a) not in d}
        cand = []
        for fi, f in enumerate(F):
            nb = [k for k in range(3) if (f[(k + 1) % 3], f[k]) not in d]
            if len(nb) == 1 and f[(nb[0] + 2) % 3] not in bverts:
                cand.append(fi)
        if not cand:
            break
        F.pop(rnd.choice(cand))
    V = [(float(x), float(y), float(lift * (x * x - y * y + x))) for x, y in P]
    return _permute(V, F, perm) if perm else (V, F)


def fam_cap(rings, sectors, height=0.8, perm=0):
    """spherical-cap like surface: apex + rings (non planar, apex valence = sectors)"""
    V = [(0.0, 0.0, height)]
    for r in range(1, rings + 1):
        rho = r / rings
        for s in range(sectors):
            a = 2 * math.pi * (s + 0.37 * r) / sectors
            V.append((rho * math.cos(a), 0.8 * rho * math.sin(a), height * (1 - rho * rho)))
    idx = lambda r, s: 1 + (r - 1) * sectors + s % sectors
    F = [(0, idx(1, s), idx(1, s + 1)) for s in range(sectors)]
    for r in range(1, rings):
        for s in range(sectors):
            F += [(idx(r, s), idx(r + 1, s), idx(r + 1, s + 1)), (idx(r, s), idx(r + 1, s + 1), idx(r, s + 1))]
    return _permute(V, F, perm) if perm else (V, F)


# non disks
def fam_annulus(sectors=6):
    V = [(math.cos(2 * math.pi * s / sectors), math.sin(2 * math.pi * s / sectors), 0.0) for s in range(sectors)]
    V += [(2 * math.cos(2 * math.pi * s / sectors), 2 * math.sin(2 * math.pi * s / sectors), 0.0) for s in range(sectors)]
    F = []
    for s in range(sectors):
        a, b, c, d = s, (s + 1) % sectors, sectors + (s + 1) % sectors, sectors + s
        F += [(a, d, c), (a, c, b)]
    return V, F


def fam_tetra():
    return [(0, 0, 0), (1, 0, 0), (0, 1, 0), (0, 0, 1)], [(0, 2, 1), (0, 1, 3), (1, 2, 3), (0, 3, 2)]


def fam_two_triangles():
    return [(0, 0, 0), (1, 0, 0), (0, 1, 0), (3, 0, 0), (4, 0, 0), (3, 1, 0)], [(0, 1, 2), (3, 4, 5)]


def fam_two_fans(n=5):
    V1, F1 = fam_fan(n)
    V2 = [(x + 5, y, z) for x, y, z in V1]
    return V1 + V2, F1 + [tuple(v + len(V1) for v in f) for f in F1]


def fam_torus(nu=4, nv=5):
    V, F = [], []
    for i in range(nu):
        for j in range(nv):
            a, b = 2 * math.pi * i / nu, 2 * math.pi * j / nv
            V.append(((2 + math.cos(b)) * math.cos(a), (2 + math.cos(b)) * math.sin(a), math.sin(b)))
    idx = lambda i, j: (i % nu) * nv + j % nv
    for i in range(nu):
        for j in range(nv):
            F += [(idx(i, j), idx(i + 1, j), idx(i + 1, j + 1)), (idx(i, j), idx(i + 1, j + 1), idx(i, j + 1))]
    return V, F


def fam_disk_with_two_holes():
    """5x5 grid with two quads removed: chi = -1"""
    V, F = fam_grid(5, 5)
    kill = set()
    nv = 5
    for (i, j) in ((1, 1), (2, 3)):
        kill.add(frozenset((i * nv + j, (i + 1) * nv + j, (i + 1) * nv + j + 1, i * nv + j + 1)))
    F = [f for f in F if not any(set(f) <= q for q in kill)]
    return V, F


FAMILIES = dict(fan=fam_fan, polygon=fam_polygon, grid=fam_grid, delaunay=fam_delaunay, cap=fam_cap,
                annulus=fam_annulus, tetra=fam_tetra, two_triangles=fam_two_triangles, two_fans=fam_two_fans,
                torus=fam_torus, two_holes=fam_disk_with_two_holes)


def build(fam, params):
    """family member -> (V, F); the generic option flip=1 reverses the orientation of every face"""
    params = dict(params)
    flip = params.pop('flip', 0)
    V, F = FAMILIES[fam](**params)
    if flip:
        F = [(f[0], f[2], f[1]) for f in F]
    return V, F


def disk_family(seed, thorough):
    s = seed
    L = [('polygon', dict(n=3)), ('polygon', dict(n=4)), ('polygon', dict(n=7, perm=s + 1)),
         ('fan', dict(n=3)), ('fan', dict(n=4)), ('fan', dict(n=5, perm=s + 2)), ('fan', dict(n=6, lift=0.5)),
         ('fan', dict(n=7)), ('fan', dict(n=9, perm=s + 3)), ('fan', dict(n=13, lift=1.0)), ('fan', dict(n=30)),
         ('grid', dict(nu=2, nv=5)), ('grid', dict(nu=3, nv=3)), ('grid', dict(nu=4, nv=4, perm=s + 4)),
         ('grid', dict(nu=3, nv=6, jitter=0.15, seed=s)), ('grid', dict(nu=5, nv=4, jitter=0.3, seed=s + 1, perm=s + 5)),
         ('grid', dict(nu=4, nv=4, ears=3)), ('grid', dict(nu=4, nv=5, jitter=0.1, seed=s + 2, ears=1, perm=s + 6)),
         ('grid', dict(nu=6, nv=7, jitter=0.2, seed=s + 3, perm=s + 7)),
         ('delaunay', dict(npts=12, seed=s)), ('delaunay', dict(npts=25, seed=s + 1, perm=s + 8)),
         ('delaunay', dict(npts=30, seed=s + 2, carve=6)), ('delaunay', dict(npts=40, seed=s + 3, carve=14, perm=s + 9)),
         ('delaunay', dict(npts=35, seed=s + 4, lift=0.6, carve=4)), ('delaunay', dict(npts=80, seed=s + 5, carve=10, perm=s + 10)),
         ('fan', dict(n=5, flip=1)), ('grid', dict(nu=4, nv=3, jitter=0.1, seed=s + 4, flip=1, perm=s + 12)),
         ('delaunay', dict(npts=20, seed=s + 6, carve=5, flip=1)), ('grid', dict(nu=3, nv=4, ears=2, flip=1)),
         ('cap', dict(rings=1, sectors=5)), ('cap', dict(rings=2, sectors=7, perm=s + 11)), ('cap', dict(rings=3, sectors=11, height=1.5))]
    rnd = random.Random(seed + 12345)
    for k in range(40 if thorough else 10):
        L.append(('delaunay', dict(npts=rnd.randint(6, 90 if thorough else 45), seed=rnd.randrange(10 ** 6), carve=rnd.choice([0, 2, 5, 12, 25]),
                                    lift=rnd.choice([0.0, 0.0, 0.4, 1.0]), perm=rnd.randrange(1, 10 ** 6), flip=int(k % 3 == 0))))
    for k in range(25 if thorough else 8):
        L.append(('grid', dict(nu=rnd.randint(2, 9 if thorough else 6), nv=rnd.randint(2, 9 if thorough else 6), jitter=rnd.choice([0.0, 0.1, 0.25, 0.35]),
                                seed=rnd.randrange(10 ** 6), ears=rnd.choice([0, 0, 1, 2, 3, 5]), perm=rnd.randrange(0, 10 ** 6), flip=k % 2)))
    if thorough:
        for n in (8, 10, 11, 12, 14, 15, 16, 17, 21):
            L.append(('fan', dict(n=n, perm=rnd.randrange(10 ** 6), lift=rnd.choice([0.0, 0.7]))))
        for k in range(8):
            L.append(('cap', dict(rings=rnd.randint(1, 5), sectors=rnd.randint(3, 17), height=rnd.choice([0.2, 0.8, 2.0]), perm=rnd.randrange(10 ** 6))))
        L.append(('delaunay', dict(npts=300, seed=seed + 77, carve=40, perm=seed + 78)))
    return L


NON_DISKS = [('annulus', dict(sectors=6)), ('annulus', dict(sectors=3)), ('tetra', dict()), ('two_triangles', dict()),
             ('two_fans', dict(n=5)), ('torus', dict(nu=4, nv=5)), ('two_holes', dict())]


def make_mesh(V, F):
    raw = M.mesh.RawMeshData()
    raw.vertices += [M.Vec(float(p[0]), float(p[1]), float(p[2])) for p in V]
    raw.faces += [tuple(int(x) for x in f) for f in F]
    return M.mesh.SurfaceMesh(raw)


# ------------------------------------------------------------------ independent computations
def border_loop(F):
    d = {}
    for f in F:
        for k in range(3):
            d[(f[k], f[(k + 1) % 3])] = 1
    succ = {a: b for (a, b) in d if (b, a) not in d}
    start = min(succ)
    loop = [start]
    while succ[loop[-1]] != start:
        loop.append(succ[loop[-1]])
        assert len(loop) <= len(succ)
    assert len(loop) == len(succ)
    return loop


def edge_weights(P, F, cotan):
    w = {}
    for f in F:
        for k in range(3):
            a, b, c = f[k], f[(k + 1) % 3], f[(k + 2) % 3]      # edge (a,b), opposite corner c
            key = (min(a, b), max(a, b))
            if cotan:
                x, y = P[a] - P[c], P[b] - P[c]
                val = float(np.dot(x, y) / np.linalg.norm(np.cross(x, y))) / 2
            else:
                val = 0.0
            w[key] = w.get(key, 0.0) + val
    if not cotan:
        w = {k: 1.0 for k in w}
    return w


def custom_positions(n):
    """n points on an ellipse, irregular spacing, counter-clockwise, strictly convex position"""
    out = []
    for k in range(n):
        t = 2 * math.pi * (k + 0.3 * math.sin(1.7 * k + 0.5)) / n + 0.4
        out.append((2.0 * math.cos(t) + 0.5, 1.0 * math.sin(t) - 0.25))
    return out


def square_param(p, tol=1e-9):
    """position along the perimeter of the unit square in [0,4), or None if p is not on the perimeter"""
    x, y = p
    if abs(y) <= tol and -tol <= x <= 1 + tol and x < 1 - tol:
        return min(max(x, 0.0), 1.0)
    if abs(x - 1) <= tol and -tol <= y <= 1 + tol and y < 1 - tol:
        return 1 + min(max(y, 0.0), 1.0)
    if abs(y - 1) <= tol and -tol <= x <= 1 + tol and x > tol:
        return 2 + (1 - min(max(x, 0.0), 1.0))
    if abs(x) <= tol and -tol <= y <= 1 + tol and y > tol:
        return 3 + (1 - min(max(y, 0.0), 1.0))
    return None


def check_border(mode, loop, uv, custom):
    n = len(loop)
    B = np.array([uv[v] for v in loop])
    if not np.all(np.isfinite(B)):
        return 'non-finite border coordinates'
    if mode == 'custom':
        for v in loop:
            if np.abs(uv[v] - np.array(custom[v])).max() > 1e-12:
                return 'border vertex %d at %r, the custom boundary asked for %r' % (v, uv[v].tolist(), list(custom[v]))
        return None
    for i in range(n):
        for j in range(i + 1, n):
            if np.abs(B[i] - B[j]).max() < 1e-9:
                return 'border vertices %d and %d (positions %d and %d of the %d-vertex border loop) are both placed at %r; expected distinct positions' % (
                    loop[i], loop[j], i, j, n, np.round(B[i], 9).tolist())
    if mode == 'circle':
        r = np.hypot(B[:, 0], B[:, 1])
        if np.abs(r - 1).max() > 1e-9:
            i = int(np.argmax(np.abs(r - 1)))
            return 'border vertex %d at %r is not on the unit circle (radius %.12g)' % (loop[i], B[i].tolist(), r[i])
        t = np.arctan2(B[:, 1], B[:, 0])
        period = 2 * math.pi
    else:
        t = []
        for i in range(n):
            s = square_param(B[i])
            if s is None:
                return 'border vertex %d at %r is not on the perimeter of the unit square' % (loop[i], B[i].tolist())
            t.append(s)
        t = np.array(t)
        period = 4.0
    for sign in (1, -1):
        d = np.mod(sign * (np.roll(t, -1) - t), period)
        if np.all(d > 1e-9) and abs(d.sum() - period) < 1e-6:
            return None
    return 'border positions are not in border order: walking the border loop %r the position along the %s is %r (not cyclically monotone with winding 1)' % (
        loop, mode, np.round(t, 4).tolist())


def check_harmonic(P, F, uv, interior, w):
    nb = {}
    for (a, b), x in w.items():
        nb.setdefault(a, []).append((b, x))
        nb.setdefault(b, []).append((a, x))
    for v in interior:
        tot = sum(abs(x) for _, x in nb[v])
        sw = sum(x for _, x in nb[v])
        res = sum(x * (uv[u] - uv[v]) for u, x in nb[v])
        if not np.all(np.isfinite(res)) or np.abs(res).max() > 1e-8 * (tot + 1e-12):
            avg = (sum(x * uv[u] for u, x in nb[v]) / sw).tolist() if abs(sw) > 1e-12 else None
            return 'interior vertex %d at %r is not the weighted average of its %d neighbours %r (residual %r, sum|w|=%.4g)' % (
                v, uv[v].tolist(), len(nb[v]), avg, res.tolist(), tot)
    return None


def check_orientation(F, uv, mode):
    areas = []
    exempt = 0
    for f in F:
        a, b, c = (uv[v] for v in f)
        if mode == 'square':
            T = np.array([a, b, c])
            if any(np.abs(T[:, ax] - val).max() < 1e-9 for ax in (0, 1) for val in (0.0, 1.0)):
                exempt += 1
                areas.append(None)
                continue
        areas.append(0.5 * _cross2(b - a, c - a))
    vals = [x for x in areas if x is not None]
    if not vals:
        return None, exempt
    ref = 1 if sum(vals) > 0 else -1
    for fi, x in enumerate(areas):
        if x is None:
            continue
        if not (ref * x > 1e-12):
            return 'triangle %d = %r has signed uv-area %.3e while the embedding is oriented %+d (total signed area %.6g): %s triangle, uv = %r' % (
                fi, tuple(F[fi]), x, ref, sum(vals), 'zero-area' if abs(x) <= 1e-12 else 'flipped',
                [np.round(uv[v], 9).tolist() for v in F[fi]]), exempt
    return None, exempt


# ------------------------------------------------------------------ one input = (mesh, mode, cotan)
def run_lib(m, mode, cotan, corners, custom_arr):
    kw = dict(save_on_corners=corners)
    if mode == 'custom':
        kw['custom_boundary'] = custom_arr
    t = TutteEmbedding(m, 'circle' if mode == 'custom' else mode, cotan, **kw)
    t.run()
    return t


def evaluate(fam, params, mode, cotan):
    """-> dict clause -> error string or None ('blocked' clauses are absent), plus stats"""
    V, F = build(fam, params)
    m = make_mesh(V, F)
    P = np.array([[float(x) for x in m.vertices[i]] for i in range(len(m.vertices))])
    Fm = [tuple(int(v) for v in f) for f in m.faces]
    info = analyse(len(P), Fm)
    assert not info['problems'] and info['chi'] == 1 and info['n_border_loops'] == 1 and info['n_components'] == 1, ('family member is not a disk', fam, params, info)
    loop = border_loop(Fm)
    bset = set(loop)
    interior = [v for v in range(len(P)) if v not in bset]
    out = {}
    stats = dict(nV=len(P), nF=len(Fm), nB=len(loop), chords=0, exempt=0, negw=False)
    custom, custom_arr = None, None
    if mode == 'custom':
        pos = custom_positions(len(loop))
        custom = {v: pos[k] for k, v in enumerate(loop)}
        bv = [int(v) for v in m.boundary_vertices]      # documented convention: one row per boundary vertex of the mesh
        if sorted(bv) != sorted(loop):
            out['run'] = 'mesh.boundary_vertices = %r is not the border vertex set %r' % (bv, sorted(loop))
            return out, stats
        custom_arr = np.array([custom[v] for v in bv])
    try:
        tv = run_lib(m, mode, cotan, False, custom_arr)
        uv = np.array([[float(tv.uvs[v][0]), float(tv.uvs[v][1])] for v in range(len(P))])
    except Exception as e:
        out['run'] = 'per-vertex run raised %s: %s' % (type(e).__name__, e)
        return out, stats
    out['run'] = None
    if not np.all(np.isfinite(uv)):
        out['run'] = 'non-finite uv coordinates returned (vertices %r)' % (np.nonzero(~np.isfinite(uv).all(1))[0][:8].tolist(),)
        return out, stats
    out['border'] = check_border(mode, loop, uv, custom)
    w = edge_weights(P, Fm, cotan)
    stats['chords'] = sum(1 for (a, b) in w if a in bset and b in bset) - len(loop)
    out['harmonic'] = check_harmonic(P, Fm, uv, interior, w)
    active = [x for (a, b), x in w.items() if not (a in bset and b in bset)]
    stats['negw'] = any(x < 0 for x in active)
    if out['border'] is None and not stats['negw']:
        out['orientation'], stats['exempt'] = check_orientation(Fm, uv, mode)
    # per-corner run on a fresh mesh
    try:
        m2 = make_mesh(V, F)
        tc = run_lib(m2, mode, cotan, True, custom_arr)
        err = None
        for fi, f in enumerate(Fm):
            for k in range(3):
                c = np.array([float(tc.uvs[3 * fi + k][0]), float(tc.uvs[3 * fi + k][1])])
                if not np.all(np.isfinite(c)) or np.abs(c - uv[f[k]]).max() > 1e-9:
                    err = 'corner %d (face %d, vertex %d) holds %r, the per-vertex run gives %r' % (3 * fi + k, fi, f[k], c.tolist(), uv[f[k]].tolist())
                    break
            if err:
                break
        if err is None:
            for name, t, mm in (('per-vertex', tv, m), ('per-corner', tc, m2)):
                fm = t.flat_mesh
                Q = np.array([[float(x) for x in fm.vertices[i]] for i in range(len(P))])
                if np.abs(Q[:, :2] - uv).max() > 1e-9 or np.abs(Q[:, 2]).max() > 0:
                    i = int(np.argmax(np.abs(Q[:, :2] - uv).max(1)))
                    err = '%s flat_mesh vertex %d = %r, uv = %r' % (name, i, Q[i].tolist(), uv[i].tolist())
                    break
                if [tuple(int(v) for v in f) for f in fm.faces] != Fm:
                    err = '%s flat_mesh has different faces' % name
                    break
        out['agree'] = err
    except Exception as e:
        out['agree'] = 'per-corner run raised %s: %s' % (type(e).__name__, e)
    return out, stats


def evaluate_reject(fam, params, mode, cotan):
    V, F = build(fam, params)
    try:
        m = make_mesh(V, F)
    except Exception:
        return {'reject': None}, {}
    Fm = [tuple(int(v) for v in f) for f in m.faces]
    info = analyse(len(V), Fm)
    und = {(min(f[k], f[(k + 1) % 3]), max(f[k], f[(k + 1) % 3])) for f in Fm for k in range(3)}
    chi = len(V) - len(und) + len(Fm)
    assert chi != 1, (fam, chi)
    try:
        t = TutteEmbedding(m, mode, cotan, save_on_corners=False)
        t.run()
    except Exception as e:
        # a rejection is a deliberate raise of the library; an incidental crash deep inside numpy / scipy or an
        # index / type error while computing on the non-disk does not count
        import traceback, os
        last = traceback.extract_tb(e.__traceback__)[-1].filename
        inside = os.path.abspath(last).startswith(os.path.dirname(os.path.abspath(M.__file__)))
        if inside and not isinstance(e, (IndexError, KeyError, TypeError, AttributeError, ZeroDivisionError, UnboundLocalError)):
            return {'reject': None}, {}
        return {'reject': 'surface with Euler characteristic %d (%d border loops, %d components) is not rejected: run() goes on computing and crashes with %s: %s (in %s)' % (
            chi, info['n_border_loops'], info['n_components'], type(e).__name__, str(e)[:120], os.path.basename(last))}, {}
    return {'reject': 'run() accepted a surface with Euler characteristic %d (%d border loops, %d components); expected an exception' % (
        chi, info['n_border_loops'], info['n_components'])}, {}


CLAUSES = ('run', 'border', 'harmonic', 'orientation', 'agree', 'reject')


def ident(d):
    return json.dumps({k: d.get(k) for k in ID_KEYS}, sort_keys=True)


def main():
    req = read_request()
    seed = int(req.get('seed', 0) or 0)
    thorough = req.get('tier') == 'thorough'
    mode_req = req.get('mode', 'bounded')
    known = {ident(k): k for k in (req.get('known') or [])}
    known_hit = []
    budget = Budget(270 if thorough else 50)
    if mode_req == 'replay':
        c = req['case']
        inputs = [(c['mesh'], c['params'], c['mode'], bool(c['cotan']), c['clause'] == 'reject')]
    else:
        if mode_req == 'search':
            seed = seed * 1000003 + 17
        inputs = []
        for fam, params in disk_family(seed, thorough):
            for mode in ('circle', 'square', 'custom'):
                for cotan in (False, True):
                    inputs.append((fam, params, mode, cotan, False))
        for fam, params in NON_DISKS:
            for mode, cotan in (('circle', False), ('square', True)):
                inputs.append((fam, params, mode, cotan, True))
        # cheap inputs first so that a time budget cuts the big ones only
    n = 0
    agg = dict(inputs=0, with_chords=0, negw=0, exempt_inputs=0, orientation_checked=0, maxV=0)
    truncated = False
    for fam, params, mode, cotan, rej in inputs:
        if budget.over():
            truncated = True
            break
        res, st = (evaluate_reject if rej else evaluate)(fam, params, mode, cotan)
        agg['inputs'] += 1
        if st:
            agg['with_chords'] += st['chords'] > 0
            agg['negw'] += bool(st['negw'])
            agg['exempt_inputs'] += st['exempt'] > 0
            agg['orientation_checked'] += 'orientation' in res
            agg['maxV'] = max(agg['maxV'], st['nV'])
        for clause in CLAUSES:
            if clause not in res:
                continue
            if mode_req == 'replay' and clause != req['case']['clause']:
                continue
            n += 1
            if res[clause] is None:
                continue
            case = {'mesh': fam, 'params': params, 'mode': mode, 'cotan': cotan, 'clause': clause}
            if ident(case) in known and mode_req != 'replay':
                known_hit.append(known[ident(case)])
                continue
            case.update({k: st[k] for k in ('nV', 'nF', 'nB') if k in st})
            case['seed'] = seed
            case['error'] = res[clause]
            respond(failing=case, cases=n, known_hit=known_hit, stats=agg)
    respond(failing=None, cases=n, known_hit=known_hit, stats=agg, note='time budget reached, family truncated' if truncated else None)


main()
