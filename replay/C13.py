"""C13 native oracle: subdivision refines a mesh without changing its shape or topology.

Every case = (kind, mesh, ops, prequery, check):
  kind      'surface' | 'volume' | 'polyline'
  mesh      name of a member of the deterministic families below (+ parameters inside the name), 'rot' rotates face tuples
  ops       sequence of operations issued inside ONE editing block
              surface : 'tri', 'triface:k', 'fan:k', 'loop0' (n=0), 'loop', 'loop2' (n=2), 'q3', 's6', 's6x2' (repeat=2); ['sdb'] = split_double_boundary_edges_triangles
              volume  : 'cell:k' (split_cell_as_fan), 'face:k' (split_tet_from_face_center)
              polyline: 'split:k' (split_edge)      -- k is taken modulo the current number of elements, 'last' = last element
  prequery  connectivity of the argument queried before editing or not
  check     'result'   : clauses (a)-(f) on the mesh handed back
            'argument' : clause (g) on the mesh object that was passed in

Clauses ('result'):
  (a) accepted (no exception), a mesh object of the right type comes back, raw containers well formed: faces/cells index valid vertices,
      edges == exactly the sides of the faces (each once, low index first), faces of a volume == exactly the triangles of its cells,
      corner containers consistent, manifold + consistently oriented (replay.meshcheck.analyse), no unused vertex
  (b) documented element counts (closed formulas for single operations, and the counts of the reference refinement in general)
  (c) same Euler characteristic, border loops, connected components (volume: also of the boundary surface)
  (d) same total area / volume / length (vector area always; scalar area when every input face is planar)
  (e) original vertices in place; new vertices and all faces/cells equal (as position-labelled multisets) to an independent
      reference refinement computed here in plain python (undocumented diagonal choices: either diagonal accepted)
  (f) every connectivity answer of the result equals the answer computed from its raw face / cell list
Clause ('argument'):
  (g) afterwards the argument is either unchanged (containers equal to the snapshot and connectivity answers describing the old mesh)
      or equal to the result (containers equal to the result's and connectivity answers describing the refined mesh)

Families: fixed_family() is seed-independent (quick tier = exactly this list); thorough / search add random_family(seed).
Protocol extensions: mode 'enumerate' (all failing cases in 'all_failing'), prefix subsumption (see main), and a 'known' entry
matches every case that agrees with it on the keys it gives (full descriptors => plain equality).
"""
import itertools, random, math
from collections import defaultdict, Counter
import numpy as np
from replay.common import *
from replay.meshcheck import analyse
import mouette as M
from mouette.mesh.subdivision import SurfaceSubdivision, VolumeSubdivision, split_edge, split_double_boundary_edges_triangles

TOL = 1e-9
NOTES = []          # things seen that are not attributed to C13 (connectivity layer answers wrong on a freshly built mesh too)
AFF = np.array([[1.0, 0.25, 0.0], [0.125, 1.0, 0.25], [0.0, -0.25, 1.0]])
SHIFT = np.array([0.5, -0.25, 0.125])


def aff(V):
    return [tuple((AFF @ np.array(p, float) + SHIFT).tolist()) for p in V]


# ----------------------------------------------------------------------------------------------------------------------
# input families
# ----------------------------------------------------------------------------------------------------------------------

def _tri_grid(nu, nv, jitter=0.2, tri=True):
    rnd = np.random.RandomState(7 + 31 * nu + nv)
    V = [(i + jitter * rnd.randn(), j + jitter * rnd.randn(), jitter * rnd.randn()) for i in range(nu) for j in range(nv)]
    F = []
    for i in range(nu - 1):
        for j in range(nv - 1):
            a, b, c, d = i * nv + j, i * nv + j + 1, (i + 1) * nv + j + 1, (i + 1) * nv + j
            if not tri:
                F.append((a, b, c, d))
            elif (i + j) % 2 == 0:
                F += [(a, b, c), (a, c, d)]
            else:
                F += [(a, b, d), (b, c, d)]
    return V, F


def _torus(nu, nv, tri):
    V, F = [], []
    for i in range(nu):
        for j in range(nv):
            u, v = 2 * math.pi * i / nu, 2 * math.pi * j / nv
            V.append(((3 + math.cos(v)) * math.cos(u), (3 + math.cos(v)) * math.sin(u), math.sin(v)))
    idx = lambda i, j: (i % nu) * nv + (j % nv)
    for i in range(nu):
        for j in range(nv):
            a, b, c, d = idx(i, j), idx(i + 1, j), idx(i + 1, j + 1), idx(i, j + 1)
            F += [(a, b, c), (a, c, d)] if tri else [(a, b, c, d)]
    return V, F


def _annulus(n, tri):
    V = [(math.cos(2 * math.pi * k / n), math.sin(2 * math.pi * k / n), 0.) for k in range(n)]
    V += [(2 * math.cos(2 * math.pi * k / n + 0.2), 2 * math.sin(2 * math.pi * k / n + 0.2), 0.) for k in range(n)]
    F = []
    for k in range(n):
        a, b, c, d = k, n + k, n + (k + 1) % n, (k + 1) % n
        F += [(a, b, c), (a, c, d)] if tri else [(a, b, c, d)]
    return aff(V), F


def _mixed():
    h = [(math.cos(math.pi * k / 3), math.sin(math.pi * k / 3)) for k in range(6)]
    V = [(x, y, 0.) for x, y in h]
    F = [(0, 1, 2, 3, 4, 5)]

    def out(k, t):
        a, b = np.array(h[k]), np.array(h[(k + 1) % 6])
        mid = (a + b) / 2
        n = mid / np.linalg.norm(mid)
        return a, b, mid, n
    a, b, mid, n = out(0, 0)
    V += [tuple(a + 0.9 * n) + (0.,), tuple(b + 0.9 * n) + (0.,)]            # 6, 7
    F.append((1, 0, 6, 7))
    a, b, mid, n = out(1, 0)
    V += [tuple(mid + 0.8 * n) + (0.,)]                                       # 8
    F.append((2, 1, 8))
    a, b, mid, n = out(2, 0)
    V += [tuple(a + 0.7 * n) + (0.,), tuple(mid + 1.2 * n) + (0.,), tuple(b + 0.7 * n) + (0.,)]   # 9 10 11
    F.append((3, 2, 9, 10, 11))
    F.append((1, 7, 8))                                                       # triangle between the quad and the triangle
    return aff(V), F


def surface_family(name):
    """-> (V, F) lists"""
    if ':' in name:
        base, par = name.split(':')
        if base in ('tri_grid', 'quad_grid'):
            nu, nv = map(int, par.split('x'))
            V, F = _tri_grid(nu, nv, 0.2 if base == 'tri_grid' else 0.0, base == 'tri_grid')
            return (V, F) if base == 'tri_grid' else (aff(V), F)
        if base in ('torus_tri', 'torus_quad'):
            nu, nv = map(int, par.split('x'))
            return _torus(nu, nv, base == 'torus_tri')
        if base in ('annulus_tri', 'annulus_quad'):
            return _annulus(int(par), base == 'annulus_tri')
        raise ValueError(name)
    if name == 'tetra':
        return aff([(0, 0, 0), (1, 0, 0), (0, 1, 0), (0, 0, 1)]), [(1, 2, 3), (0, 3, 2), (0, 1, 3), (0, 2, 1)]
    if name == 'single_tri':
        return aff([(0, 0, 0), (2, 0, 0), (0, 1, 0)]), [(0, 1, 2)]
    if name == 'single_quad':
        return aff([(0, 0, 0), (2, 0, 0), (2.5, 1, 0), (0, 1, 0)]), [(0, 1, 2, 3)]
    if name == 'single_pent':
        return aff([(math.cos(2 * math.pi * k / 5), math.sin(2 * math.pi * k / 5) * 1.5, 0.) for k in range(5)]), [(0, 1, 2, 3, 4)]
    if name == 'nonplanar_quad':
        return [(0., 0., 0.), (1., 0., 0.), (1., 1., 0.5), (0., 1., 0.)], [(0, 1, 2, 3)]
    if name == 'cube_quads':
        V = [(x, y, z) for x in (0, 1) for y in (0, 1) for z in (0, 1)]
        F = [(0, 1, 3, 2), (4, 6, 7, 5), (0, 4, 5, 1), (2, 3, 7, 6), (0, 2, 6, 4), (1, 5, 7, 3)]
        return aff(V), F
    if name == 'two_comp_tri':          # bordered square + closed tetrahedron
        V = [(0, 0, 0), (1, 0, 0), (1, 1, 0), (0, 1, 0)] + [(5, 0, 0), (6, 0, 0), (5, 1, 0), (5, 0, 1)]
        return aff(V), [(0, 1, 2), (0, 2, 3), (5, 6, 7), (4, 7, 6), (4, 5, 7), (4, 6, 5)]
    if name == 'two_comp_mixed':        # two triangles + a separate quad + a separate pentagon
        V = [(0, 0, 0), (1, 0, 0), (1, 1, 0), (0, 1, 0)] + [(3, 0, 0), (4, 0, 0), (4, 1, 0), (3, 1, 0)] + [(6, 0, 0), (7, 0, 0), (7.5, 1, 0), (6.5, 2, 0), (6, 1, 0)]
        return aff(V), [(0, 1, 2), (0, 2, 3), (4, 5, 6, 7), (8, 9, 10, 11, 12)]
    if name == 'mixed':
        return _mixed()
    if name == 'ear_tri':               # last triangle has two border edges
        return aff([(0, 0, 0), (1, 0, 0), (0, 1, 0), (1, 1, 0), (0.5, 2, 0), (2, 0.5, 0)]), [(0, 1, 2), (1, 3, 2), (2, 3, 4), (1, 5, 3)]
    if name == 'overlap_sheets':        # two components lying on top of each other (duplicate positions)
        sq = [(0, 0, 0), (1, 0, 0), (1, 1, 0), (0, 1, 0)]
        return aff(sq + sq), [(0, 1, 2), (0, 2, 3), (4, 5, 6), (4, 6, 7)]
    if name == 'darts':                 # four non-convex quads, reflex corner at each position of the tuple
        V, F = [], []
        dart = [(0, 2, 0), (-1, -1, 0), (0, 0, 0), (1, -1, 0)]
        for r in range(4):
            base = len(V)
            V += [(x + 3 * r, y, z) for x, y, z in dart]
            F.append(tuple(base + (i + r) % 4 for i in range(4)))
        return aff(V), F
    if name == 'u_octagon':             # a polygon that is not star-shaped w.r.t. its vertex barycentre
        return aff([(0, 0, 0), (3, 0, 0), (3, 3, 0), (2, 3, 0), (2, 1, 0), (1, 1, 0), (1, 3, 0), (0, 3, 0)]), [(0, 1, 2, 3, 4, 5, 6, 7)]
    raise ValueError('unknown surface %r' % name)


def volume_family(name):
    """-> (V, C)"""
    if name.startswith('kuhn:'):
        n = int(name.split(':')[1])
        idx = lambda i, j, k: (i * (n + 1) + j) * (n + 1) + k
        V = [(float(i), float(j), float(k)) for i in range(n + 1) for j in range(n + 1) for k in range(n + 1)]
        C = []
        for i in range(n):
            for j in range(n):
                for k in range(n):
                    for perm in itertools.permutations(range(3)):
                        p = [i, j, k]
                        vs = [idx(*p)]
                        for ax in perm:
                            p = list(p); p[ax] += 1
                            vs.append(idx(*p))
                        C.append(tuple(vs))
        return aff(V), C
    if name == 'tet1':
        return aff([(0, 0, 0), (1, 0, 0), (0, 1, 0), (0, 0, 1)]), [(0, 1, 2, 3)]
    if name == 'tet2':
        return aff([(0, 0, 0), (1, 0, 0), (0, 1, 0), (0, 0, 1), (1, 1, 1)]), [(0, 1, 2, 3), (1, 2, 3, 4)]
    if name == 'tets_two_comp':
        return aff([(0, 0, 0), (1, 0, 0), (0, 1, 0), (0, 0, 1), (1, 1, 1)] + [(5, 0, 0), (6, 0, 0), (5, 1, 0), (5, 0, 1)]), [(0, 1, 2, 3), (1, 2, 3, 4), (5, 6, 7, 8)]
    if name == 'edge_fan':              # 5 tets around an interior edge 0-1
        n = 5
        V = [(0, 0, -1), (0, 0, 1)] + [(math.cos(2 * math.pi * k / n), math.sin(2 * math.pi * k / n), 0.1 * k) for k in range(n)]
        return aff(V), [(0, 1, 2 + k, 2 + (k + 1) % n) for k in range(n)]
    raise ValueError('unknown volume %r' % name)


def polyline_family(name):
    if name == 'chain4':
        return aff([(0, 0, 0), (1, 0, 0), (2, 1, 0), (4, 1, 1)]), [(0, 1), (2, 1), (2, 3)]
    if name == 'loop5':
        return aff([(math.cos(k), math.sin(k), 0.1 * k) for k in range(5)]), [(k, (k + 1) % 5) for k in range(5)]
    if name == 'two_comp':
        return aff([(0, 0, 0), (1, 0, 0), (2, 0, 0)] + [(5, 0, 0), (6, 0, 0), (5, 1, 0)]), [(0, 1), (1, 2), (3, 4), (4, 5), (5, 3)]
    if name == 'star':
        return aff([(0, 0, 0), (1, 0, 0), (0, 1, 0), (0, 0, 1), (2, 0, 0)]), [(0, 1), (0, 2), (3, 0), (1, 4)]
    if name == 'single_edge':
        return aff([(0, 0, 0), (1, 2, 3)]), [(1, 0)]
    raise ValueError('unknown polyline %r' % name)


def rotate_faces(F, rot):
    if not rot:
        return F
    rnd = random.Random(rot)
    out = []
    for f in F:
        r = rnd.randrange(len(f))
        out.append(tuple(f[(i + r) % len(f)] for i in range(len(f))))
    return out


def build_surface(V, F):
    raw = M.mesh.RawMeshData()
    raw.vertices += [M.Vec(*p) for p in V]
    raw.faces += [tuple(f) for f in F]
    return M.mesh.SurfaceMesh(raw)


def build_volume(V, C):
    raw = M.mesh.RawMeshData()
    raw.vertices += [M.Vec(*p) for p in V]
    raw.cells += [tuple(c) for c in C]
    return M.mesh.VolumeMesh(raw)


def build_polyline(V, E):
    raw = M.mesh.RawMeshData()
    raw.vertices += [M.Vec(*p) for p in V]
    raw.edges += [tuple(e) for e in E]
    return M.mesh.PolyLine(raw)


# ----------------------------------------------------------------------------------------------------------------------
# raw-data helpers (independent of the library's connectivity)
# ----------------------------------------------------------------------------------------------------------------------

def P_of(m):
    return [np.array([float(x) for x in p]) for p in m.vertices]


def tuples(cont):
    return [tuple(int(x) for x in e) for e in cont]


def sides(F):
    return {(min(a, b), max(a, b)) for f in F for a, b in zip(f, tuple(f[1:]) + tuple(f[:1]))}


def vec_area(P, f):
    pts = [P[v] for v in f]
    s = np.zeros(3)
    for i in range(len(pts)):
        s += np.cross(pts[i], pts[(i + 1) % len(pts)])
    return s / 2


def is_planar(P, f):
    if len(f) == 3:
        return True
    n = vec_area(P, f)
    ln = np.linalg.norm(n)
    if ln < 1e-14:
        return True
    c = sum(P[v] for v in f) / len(f)
    return all(abs(np.dot(P[v] - c, n / ln)) < 1e-9 for v in f)


def surface_measures(P, F):
    va = sum((vec_area(P, f) for f in F), np.zeros(3))
    planar = all(is_planar(P, f) for f in F)
    area = sum(float(np.linalg.norm(vec_area(P, f))) for f in F)
    return va, area, planar


def data_of(m):
    d = {'V': [tuple(float(x) for x in p) for p in m.vertices]}
    if hasattr(m, 'edges'):
        d['E'] = [tuple(e) for e in m.edges]
    if hasattr(m, 'faces'):
        d['F'] = [tuple(f) for f in m.faces]
        d['FCe'] = list(m.face_corners._elem); d['FCa'] = list(m.face_corners._adj)
    if hasattr(m, 'cells'):
        d['C'] = [tuple(c) for c in m.cells]
        d['CCe'] = list(m.cell_corners._elem); d['CCa'] = list(m.cell_corners._adj)
        d['CFe'] = list(m.cell_faces._elem)
    return d


def same_data(got, exp):
    names = {'V': 'vertices', 'E': 'edges', 'F': 'faces', 'FCe': 'face_corners (vertex)', 'FCa': 'face_corners (face)', 'C': 'cells',
             'CCe': 'cell_corners (vertex)', 'CCa': 'cell_corners (cell)', 'CFe': 'cell_faces'}
    for k in exp:
        if k not in got:
            return 'no %s container' % names[k]
        if len(got[k]) != len(exp[k]):
            return '%d %s instead of %d' % (len(got[k]), names[k], len(exp[k]))
        if got[k] != exp[k]:
            i = [x != y for x, y in zip(got[k], exp[k])].index(True)
            return '%s[%d] is %r instead of %r' % (names[k], i, got[k][i], exp[k][i])
    return None


def short(x, n=6):
    x = list(x)
    return repr(x[:n])[:-1] + (', ...]' if len(x) > n else ']')


# ----------------------------------------------------------------------------------------------------------------------
# connectivity answers against the raw lists (clauses f, g)
# ----------------------------------------------------------------------------------------------------------------------

def conn_surface(m, nV, F):
    """None, or a string naming the first connectivity answer of `m` that does not describe the face list F"""
    try:
        return _conn_surface(m, nV, F)
    except Exception as e:
        return 'a connectivity query raised %s: %s' % (type(e).__name__, e)


def _conn_surface(m, nV, F):
    c = m.connectivity
    if len(m.vertices) != nV:
        return '%d vertices, expected %d' % (len(m.vertices), nV)
    if [tuple(f) for f in m.faces] != [tuple(f) for f in F]:
        return 'face container differs from the expected face list'
    first = [0]
    for f in F:
        first.append(first[-1] + len(f))
    he = {}
    for fi, f in enumerate(F):
        for i in range(len(f)):
            he[(f[i], f[(i + 1) % len(f)])] = (fi, i)
    und = sorted({(min(a, b), max(a, b)) for a, b in he})
    el = [m.face_corners.element(i) for i in range(len(m.face_corners))]
    ad = [m.face_corners.adj(i) for i in range(len(m.face_corners))]
    if el != [v for f in F for v in f] or ad != [fi for fi, f in enumerate(F) for _ in f]:
        return 'face_corners container (%d corners) does not list the corners of the faces (%d)' % (len(el), first[-1])
    if sorted(tuple(e) for e in m.edges) != und:
        return 'edge container %s is not the set of sides of the faces %s' % (short(sorted(tuple(e) for e in m.edges)), short(und))
    nb = defaultdict(set)
    vf = defaultdict(list)
    for fi, f in enumerate(F):
        for v in f:
            vf[v].append(fi)
    for (a, b), (fi, i) in he.items():
        nb[a].add(b); nb[b].add(a)
        e = c.edge_id(a, b)
        if e is None or tuple(sorted(m.edges[e])) != (min(a, b), max(a, b)):
            return 'edge_id(%d,%d)=%r' % (a, b, e)
        g = he[(b, a)][0] if (b, a) in he else None
        if c.direct_face(a, b) != fi:
            return 'direct_face(%d,%d)=%r expected %r' % (a, b, c.direct_face(a, b), fi)
        if c.direct_face(b, a) != g:
            return 'direct_face(%d,%d)=%r expected %r' % (b, a, c.direct_face(b, a), g)
        if c.opposite_face(a, b, fi) != g:
            return 'opposite_face(%d,%d,%d)=%r expected %r' % (a, b, fi, c.opposite_face(a, b, fi), g)
        if bool(m.is_edge_on_border(a, b)) != (g is None):
            return 'is_edge_on_border(%d,%d)=%r expected %r' % (a, b, m.is_edge_on_border(a, b), g is None)
        cn = first[fi] + i
        if c.half_edge_to_corner(a, b) != cn:
            return 'half_edge_to_corner(%d,%d)=%r expected %r' % (a, b, c.half_edge_to_corner(a, b), cn)
        if c.next_corner(cn) != first[fi] + (i + 1) % len(F[fi]):
            return 'next_corner(%d)=%r' % (cn, c.next_corner(cn))
        if c.previous_corner(cn) != first[fi] + (i - 1) % len(F[fi]):
            return 'previous_corner(%d)=%r' % (cn, c.previous_corner(cn))
        opp = (first[g] + he[(b, a)][1]) if g is not None else None
        if c.opposite_corner(cn) != opp:
            return 'opposite_corner(%d)=%r expected %r' % (cn, c.opposite_corner(cn), opp)
        if c.corner_to_face(cn) != fi:
            return 'corner_to_face(%d)=%r expected %r' % (cn, c.corner_to_face(cn), fi)
    border = sorted(e for e in und if (e in he) != ((e[1], e[0]) in he))
    bverts = sorted({v for e in border for v in e})
    for v in range(nV):
        got = list(c.vertex_to_vertices(v))
        if set(got) != nb[v] or len(got) != len(nb[v]):
            return 'vertex_to_vertices(%d)=%r expected %r' % (v, got, sorted(nb[v]))
        if sorted(c.vertex_to_faces(v)) != sorted(vf[v]):
            return 'vertex_to_faces(%d)=%r expected %r' % (v, c.vertex_to_faces(v), sorted(vf[v]))
        if bool(m.is_vertex_on_border(v)) != (v in bverts):
            return 'is_vertex_on_border(%d)=%r expected %r' % (v, m.is_vertex_on_border(v), v in bverts)
    for fi, f in enumerate(F):
        if c.face_to_first_corner(fi) != first[fi]:
            return 'face_to_first_corner(%d)=%r expected %r' % (fi, c.face_to_first_corner(fi), first[fi])
        exp = sorted(he[(f[(i + 1) % len(f)], f[i])][0] for i in range(len(f)) if (f[(i + 1) % len(f)], f[i]) in he)
        if sorted(c.face_to_faces(fi)) != exp:
            return 'face_to_faces(%d)=%r expected %r' % (fi, c.face_to_faces(fi), exp)
        if c.face_id(*f) != fi:
            return 'face_id%r=%r expected %r' % (tuple(f), c.face_id(*f), fi)
        fe = c.face_to_edges(fi)
        if None in fe or sorted(tuple(sorted(m.edges[e])) for e in fe) != sorted((min(f[i], f[(i + 1) % len(f)]), max(f[i], f[(i + 1) % len(f)])) for i in range(len(f))):
            return 'face_to_edges(%d)=%r' % (fi, fe)
    if sorted(tuple(sorted(m.edges[e])) for e in m.boundary_edges) != border:
        return 'boundary_edges=%s expected %s' % (short(sorted(tuple(m.edges[e]) for e in m.boundary_edges)), short(border))
    if sorted(tuple(sorted(m.edges[e])) for e in m.interior_edges) != sorted(set(und) - set(border)):
        return 'interior_edges differ from the non-border sides of the faces'
    if sorted(m.boundary_vertices) != bverts:
        return 'boundary_vertices=%s expected %s' % (short(sorted(m.boundary_vertices)), short(bverts))
    if sorted(m.interior_vertices) != sorted(set(range(nV)) - set(bverts)):
        return 'interior_vertices=%s expected %s' % (short(sorted(m.interior_vertices)), short(sorted(set(range(nV)) - set(bverts))))
    if bool(m.is_triangular()) != all(len(f) == 3 for f in F):
        return 'is_triangular()=%r' % m.is_triangular()
    if bool(m.is_quad()) != all(len(f) == 4 for f in F):
        return 'is_quad()=%r' % m.is_quad()
    return None


def touch_surface(m):
    c = m.connectivity
    a, b = m.faces[0][0], m.faces[0][1]
    c.vertex_to_vertices(0); c.vertex_to_faces(0); c.direct_face(a, b); c.edge_id(a, b); c.face_id(*m.faces[0]); c.face_to_faces(0)
    c.half_edge_to_corner(a, b); c.opposite_corner(0)
    m.boundary_edges; m.interior_edges; m.boundary_vertices; m.interior_vertices; m.is_vertex_on_border(0); m.is_triangular(); m.is_quad()


def conn_volume(m, nV, C):
    try:
        return _conn_volume(m, nV, C)
    except Exception as e:
        return 'a connectivity query raised %s: %s' % (type(e).__name__, e)


def _conn_volume(m, nV, C):
    c = m.connectivity
    if len(m.vertices) != nV:
        return '%d vertices, expected %d' % (len(m.vertices), nV)
    if [tuple(x) for x in m.cells] != [tuple(x) for x in C]:
        return 'cell container differs from the expected cell list'
    tri_cells = defaultdict(list)
    for ci, cell in enumerate(C):
        for i in range(4):
            tri_cells[tuple(sorted(cell[:i] + cell[i + 1:]))].append(ci)
    Fm = [tuple(f) for f in m.faces]
    if sorted(tuple(sorted(f)) for f in Fm) != sorted(tri_cells):
        return 'face container (%d faces) is not the set of triangles of the cells (%d)' % (len(Fm), len(tri_cells))
    edges = sorted({(min(a, b), max(a, b)) for cell in C for a, b in itertools.combinations(cell, 2)})
    if sorted(tuple(e) for e in m.edges) != edges:
        return 'edge container (%d edges) is not the set of sides of the cells (%d)' % (len(m.edges), len(edges))
    fid = {tuple(sorted(f)): i for i, f in enumerate(Fm)}
    eid = {tuple(e): i for i, e in enumerate(m.edges)}
    for fi, f in enumerate(Fm):
        exp = sorted(tri_cells[tuple(sorted(f))])
        if sorted(c.face_to_cells(fi)) != exp:
            return 'face_to_cells(%d)=%r expected %r (face %r)' % (fi, c.face_to_cells(fi), exp, f)
        if c.face_id(*f) != fi:
            return 'face_id%r=%r expected %r' % (f, c.face_id(*f), fi)
        if bool(m.is_face_on_border(fi)) != (len(exp) < 2):
            return 'is_face_on_border(%d)=%r' % (fi, m.is_face_on_border(fi))
    bfaces = sorted(fid[k] for k, v in tri_cells.items() if len(v) == 1)
    if sorted(m.boundary_faces) != bfaces:
        return 'boundary_faces=%s expected %s' % (short(sorted(m.boundary_faces)), short(bfaces))
    if sorted(m.interior_faces) != sorted(set(range(len(Fm))) - set(bfaces)):
        return 'interior_faces differ from the faces shared by two cells'
    bverts = sorted({v for f in bfaces for v in Fm[f]})
    if sorted(m.boundary_vertices) != bverts:
        return 'boundary_vertices=%s expected %s' % (short(sorted(m.boundary_vertices)), short(bverts))
    bedges = sorted({eid[(min(a, b), max(a, b))] for f in bfaces for a, b in itertools.combinations(Fm[f], 2)})
    if sorted(m.boundary_edges) != bedges:
        return 'boundary_edges=%s expected %s' % (short(sorted(m.boundary_edges)), short(bedges))
    v2c = defaultdict(list)
    nb = defaultdict(set)
    e2c = defaultdict(set)
    e2f = defaultdict(set)
    for ci, cell in enumerate(C):
        for v in cell:
            v2c[v].append(ci)
        for a, b in itertools.combinations(cell, 2):
            nb[a].add(b); nb[b].add(a)
            e2c[(min(a, b), max(a, b))].add(ci)
    for fi, f in enumerate(Fm):
        for a, b in itertools.combinations(f, 2):
            e2f[(min(a, b), max(a, b))].add(fi)
    for ci, cell in enumerate(C):
        exp = [fid[tuple(sorted(cell[:i] + cell[i + 1:]))] for i in range(4)]
        if list(c.cell_to_face(ci)) != exp:
            return 'cell_to_face(%d)=%r expected %r' % (ci, c.cell_to_face(ci), exp)
        adj = sorted({x for i in range(4) for x in tri_cells[tuple(sorted(cell[:i] + cell[i + 1:]))] if x != ci})
        if sorted(c.cell_to_cell(ci)) != adj:
            return 'cell_to_cell(%d)=%r expected %r' % (ci, c.cell_to_cell(ci), adj)
        for i, f in enumerate(exp):
            o = [x for x in tri_cells[tuple(sorted(Fm[f]))] if x != ci]
            if c.other_face_side(ci, f) != (o[0] if o else None):
                return 'other_face_side(%d,%d)=%r expected %r' % (ci, f, c.other_face_side(ci, f), o[0] if o else None)
            if c.in_cell_face_index(ci, f) != i:
                return 'in_cell_face_index(%d,%d)=%r expected %r' % (ci, f, c.in_cell_face_index(ci, f), i)
        if sorted(c.cell_to_edge(ci)) != sorted(eid[(min(a, b), max(a, b))] for a, b in itertools.combinations(cell, 2)):
            return 'cell_to_edge(%d)=%r' % (ci, c.cell_to_edge(ci))
    for v in range(nV):
        if sorted(c.vertex_to_cell(v)) != sorted(v2c[v]):
            return 'vertex_to_cell(%d)=%r expected %r' % (v, c.vertex_to_cell(v), sorted(v2c[v]))
        if set(c.vertex_to_vertices(v)) != nb[v]:
            return 'vertex_to_vertices(%d)=%r expected %r' % (v, c.vertex_to_vertices(v), sorted(nb[v]))
    for e, i in eid.items():
        if c.edge_id(*e) != i:
            return 'edge_id%r=%r' % (e, c.edge_id(*e))
        if sorted(c.edge_to_cell(i)) != sorted(e2c[e]):
            return 'edge_to_cell(%d)=%r expected %r' % (i, c.edge_to_cell(i), sorted(e2c[e]))
        if sorted(c.edge_to_face(i)) != sorted(e2f[e]):
            return 'edge_to_face(%d)=%r expected %r' % (i, c.edge_to_face(i), sorted(e2f[e]))
        if bool(m.is_edge_on_border(i)) != (i in bedges):
            return 'is_edge_on_border(%d)=%r' % (i, m.is_edge_on_border(i))
    return None


def touch_volume(m):
    c = m.connectivity
    c.face_to_cells(0); c.cell_to_face(0); c.cell_to_cell(0); c.vertex_to_cell(0); c.edge_to_cell(0); c.edge_to_face(0); c.vertex_to_vertices(0)
    c.edge_id(*m.edges[0]); c.face_id(*m.faces[0])
    m.boundary_faces; m.interior_faces; m.boundary_vertices; m.boundary_edges; m.is_edge_on_border(0)


def conn_polyline(m, nV, E):
    try:
        c = m.connectivity
        if len(m.vertices) != nV:
            return '%d vertices, expected %d' % (len(m.vertices), nV)
        if [tuple(e) for e in m.edges] != [tuple(e) for e in E]:
            return 'edge container differs from the expected edge list'
        nb = defaultdict(set)
        for i, (a, b) in enumerate(E):
            nb[a].add(b); nb[b].add(a)
            if c.edge_id(a, b) != i or c.edge_id(b, a) != i:
                return 'edge_id(%d,%d)=%r expected %r' % (a, b, c.edge_id(a, b), i)
            if c.other_edge_end(i, a) != b or c.other_edge_end(i, b) != a:
                return 'other_edge_end(%d,%d)=%r' % (i, a, c.other_edge_end(i, a))
        for v in range(nV):
            got = list(c.vertex_to_vertices(v))
            if set(got) != nb[v] or len(got) != len(nb[v]):
                return 'vertex_to_vertices(%d)=%r expected %r' % (v, got, sorted(nb[v]))
            exp = sorted(i for i, e in enumerate(E) if v in e)
            if sorted(c.vertex_to_edges(v)) != exp:
                return 'vertex_to_edges(%d)=%r expected %r' % (v, c.vertex_to_edges(v), exp)
        return None
    except Exception as e:
        return 'a connectivity query raised %s: %s' % (type(e).__name__, e)


# ----------------------------------------------------------------------------------------------------------------------
# reference refinements (plain python on (positions, element tuples); own vertex numbering)
# ----------------------------------------------------------------------------------------------------------------------

def r_fan(P, F, k):
    f = F[k]
    n = len(f)
    P = P + [sum(P[v] for v in f) / n]
    iV = len(P) - 1
    F = list(F)
    F[k] = (f[0], f[1], iV)
    F += [(f[i], f[(i + 1) % n], iV) for i in range(1, n)]
    return P, F


def r_triface(P, F, k, diag):
    f = F[k]
    if len(f) == 3:
        return P, F
    if len(f) == 4:
        A, B, C, D = f
        F = list(F)
        if diag == 0:
            F[k] = (A, B, D); F.append((B, C, D))
        else:
            F[k] = (A, B, C); F.append((A, C, D))
        return P, F
    return r_fan(P, F, k)


def r_tri(P, F, diag):
    for k in range(len(F)):
        P, F = r_triface(P, F, k, diag)
    return P, F


def tri_variants(P, F):
    if any(len(f) == 4 for f in F):
        return [r_tri(P, F, 0), r_tri(P, F, 1)]
    return [r_tri(P, F, 0)]


def _midpoints(P, F):
    P = list(P)
    mid = {}
    for e in sorted(sides(F)):
        mid[e] = len(P)
        P.append((P[e[0]] + P[e[1]]) / 2)
    return P, (lambda a, b: mid[(min(a, b), max(a, b))])


def r_loop(P, F):
    P2, m = _midpoints(P, F)
    F2 = []
    for (A, B, C) in F:
        ab, bc, ca = m(A, B), m(B, C), m(C, A)
        F2 += [(ab, bc, ca), (A, ab, ca), (B, bc, ab), (C, ca, bc)]
    return P2, F2


def r_q3(P, F):
    P2, m = _midpoints(P, F)
    F2 = []
    for (A, B, C) in F:
        ab, bc, ca = m(A, B), m(B, C), m(C, A)
        P2.append((P[A] + P[B] + P[C]) / 3)
        S = len(P2) - 1
        F2 += [(A, ab, S, ca), (B, bc, S, ab), (C, ca, S, bc)]
    return P2, F2


def find_face(P, F, target):
    """index of the face of F whose corner positions are `target` up to rotation"""
    n = len(target)
    for k, f in enumerate(F):
        if len(f) != n:
            continue
        for r in range(n):
            if all(np.linalg.norm(P[f[(i + r) % n]] - target[i]) < TOL for i in range(n)):
                return k
    return None


def ref_surface(P, F, trace):
    """all admissible reference outcomes [(P, F)] of the op trace [(op, target positions | None)]; None if a target is not a face"""
    states = [(list(P), list(F))]
    for op, target in trace:
        new = []
        for (P1, F1) in states:
            if op == 'tri':
                new += tri_variants(P1, F1)
            elif op in ('loop0', 'loop', 'loop2'):
                for st in tri_variants(P1, F1):
                    for _ in range({'loop0': 0, 'loop': 1, 'loop2': 2}[op]):
                        st = r_loop(*st)
                    new.append(st)
            elif op == 'q3':
                new += [r_q3(*st) for st in tri_variants(P1, F1)]
            elif op in ('s6', 's6x2'):
                sts = [(P1, F1)]
                for _ in range(2 if op == 's6x2' else 1):
                    sts = [x for st in sts for tv in tri_variants(*st) for x in tri_variants(*r_q3(*tv))]
                new += sts
            elif op in ('fan', 'triface'):
                k = find_face(P1, F1, target)
                if k is None:
                    continue
                if op == 'fan':
                    new.append(r_fan(P1, F1, k))
                elif len(F1[k]) == 4:
                    new += [r_triface(P1, F1, k, 0), r_triface(P1, F1, k, 1)]
                else:
                    new.append(r_triface(P1, F1, k, 0))
            elif op == 'sdb':
                cnt = Counter((min(a, b), max(a, b)) for f in F1 for a, b in zip(f, f[1:] + f[:1]))
                st = (P1, F1)
                for k, f in enumerate(F1):
                    if sum(cnt[(min(a, b), max(a, b))] == 1 for a, b in zip(f, f[1:] + f[:1])) >= 2:
                        st = r_fan(st[0], st[1], k)
                new.append(st)
            else:
                raise ValueError(op)
        if not new:
            return None
        states = new[:64]
    return states


def position_keys(Pref):
    A = np.array(Pref)
    keys = []
    for i in range(len(A)):
        d = np.linalg.norm(A[:i + 1] - A[i], axis=1)
        keys.append(int(np.argmax(d < TOL)))
    return A, keys


def compare_to_reference(Pres, Els, Pref, Elr, cyclic, what):
    """position-labelled multiset comparison of vertices and elements (faces: cyclic tuples; cells/edges: sets)"""
    A, kref = position_keys(Pref)
    kres = []
    for i, p in enumerate(Pres):
        d = np.linalg.norm(A - p, axis=1)
        j = int(np.argmin(d))
        if d[j] > TOL:
            return 'vertex %d at %s is neither an original vertex nor the centre of a refined edge/face/cell (nearest expected position %s)' % (
                i, np.round(p, 6).tolist(), np.round(A[j], 6).tolist())
        kres.append(kref[j])
    cr, ce = Counter(kres), Counter(kref)
    if cr != ce:
        miss = list((ce - cr).elements())
        extra = list((cr - ce).elements())
        if miss:
            return 'no vertex at the expected centre %s (%d vertices, expected %d)' % (np.round(A[miss[0]], 6).tolist(), len(Pres), len(Pref))
        return 'more than the expected number of vertices at %s (%d vertices, expected %d)' % (np.round(A[extra[0]], 6).tolist(), len(Pres), len(Pref))

    def canon(t, keys):
        t = [keys[v] for v in t]
        if not cyclic:
            return tuple(sorted(t))
        return min(tuple(t[r:] + t[:r]) for r in range(len(t)))
    try:
        fr = Counter(canon(f, kres) for f in Els)
    except IndexError:
        return 'a %s refers to a vertex that does not exist' % what
    fe = Counter(canon(f, kref) for f in Elr)
    if fr != fe:
        miss = list((fe - fr).elements())
        extra = list((fr - fe).elements())
        return '%ss differ from the expected refinement: %d %ss, expected %d; %d expected %ss missing (e.g. at positions %s), %d unexpected' % (
            what, len(Els), what, len(Elr), len(miss), what, [np.round(A[k], 4).tolist() for k in miss[0]] if miss else None, len(extra))
    return None


# ----------------------------------------------------------------------------------------------------------------------
# surface cases
# ----------------------------------------------------------------------------------------------------------------------

def idx_of(tok, n):
    if tok == 'last':
        return n - 1
    return int(tok) % n


def closed_form_surface(op, nV, nE, nF):
    if op == 'loop':
        return nV + nE, 2 * nE + 3 * nF, 4 * nF
    if op == 'q3':
        return nV + nE + nF, 2 * nE + 3 * nF, 3 * nF
    if op == 's6':
        return nV + nE + nF, 2 * nE + 6 * nF, 6 * nF
    return None


def run_surface(case):
    V, F = surface_family(case['mesh'])
    F = rotate_faces(F, case.get('rot', 0))
    P0 = [np.array(p, float) for p in V]
    a0 = analyse(len(V), F)
    if a0['problems']:
        raise AssertionError('oracle family member %s is not a valid surface: %r' % (case['mesh'], a0['problems']))
    m = build_surface(V, F)
    if case.get('prequery'):
        touch_surface(m)
    pre = data_of(m)
    ops = list(case['ops'])
    trace = []
    stage = 'entering the editing block'
    try:
        if ops == ['sdb']:
            stage = 'split_double_boundary_edges_triangles'
            trace.append(('sdb', None))
            res = split_double_boundary_edges_triangles(m)
        else:
            with SurfaceSubdivision(m) as sub:
                for i, op in enumerate(ops):
                    stage = 'operation #%d (%s)' % (i, op)
                    if ':' in op:
                        name, tok = op.split(':')
                        k = idx_of(tok, len(sub.mesh.faces))
                        target = [np.array([float(x) for x in sub.mesh.vertices[v]]) for v in sub.mesh.faces[k]]
                        trace.append((name, target))
                        (sub.split_face_as_fan if name == 'fan' else sub.triangulate_face)(k)
                    else:
                        trace.append((op, None))
                        if op == 'tri':
                            sub.triangulate()
                        elif op == 'loop0':
                            sub.loop_subdivision(n=0)
                        elif op == 'loop':
                            sub.loop_subdivision()
                        elif op == 'loop2':
                            sub.loop_subdivision(2)
                        elif op == 'q3':
                            sub.subdivide_triangles_3quads()
                        elif op == 's6':
                            sub.subdivide_triangles_6()
                        elif op == 's6x2':
                            sub.subdivide_triangles_6(repeat=2)
                        else:
                            raise ValueError(op)
                stage = 'leaving the editing block'
            res = sub.mesh
    except Exception as e:
        return '(a) %s raised %s: %s' % (stage, type(e).__name__, e)
    if case['check'] == 'argument':
        return check_argument(m, res, pre, lambda mm, d: conn_surface(mm, len(d['V']), d['F']))
    # ---- (a) well-formed result
    if not isinstance(res, M.mesh.SurfaceMesh):
        return '(a) the result is a %s, not a SurfaceMesh' % type(res).__name__
    try:
        Pr = P_of(res)
        Fr = tuples(res.faces)
        Er = [tuple(e) for e in res.edges]
    except Exception as e:
        return '(a) the containers of the result are malformed: %s: %s' % (type(e).__name__, e)
    nV = len(Pr)
    for e in Er:
        if len(e) != 2 or not (0 <= e[0] < e[1] < nV):
            return '(a) edge %r of the result is not a pair of vertex indices, low index first' % (e,)
    ar = analyse(nV, Fr)
    if ar['problems']:
        return '(a) the result is not a valid manifold surface: %s' % '; '.join(ar['problems'][:3])
    if sorted(Er) != sorted(sides(Fr)):
        miss = sorted(sides(Fr) - set(Er))
        return '(a) edges of the result are not exactly the sides of its faces: %d edges, %d sides, missing %s, duplicated or foreign %d' % (
            len(Er), len(sides(Fr)), short(miss, 3), len(Er) - len(set(Er) & sides(Fr)))
    # ---- (e) original vertices in place
    if nV < len(P0):
        return '(e) the result has %d vertices, the input had %d' % (nV, len(P0))
    for i, p in enumerate(P0):
        if np.linalg.norm(Pr[i] - p) > 1e-12:
            return '(e) original vertex %d moved from %s to %s' % (i, np.round(p, 6).tolist(), np.round(Pr[i], 6).tolist())
    # ---- (b) closed formulas for single operations on triangle meshes
    if len(ops) == 1 and all(len(f) == 3 for f in F):
        cf = closed_form_surface(ops[0], len(V), len(sides(F)), len(F))
        if cf and cf != (nV, len(Er), len(Fr)):
            return '(b) %s: (V,E,F)=%r, documented counts give %r' % (ops[0], (nV, len(Er), len(Fr)), cf)
    # ---- (e)+(b) reference refinement
    refs = ref_surface(P0, F, trace)
    if refs is None:
        return '(e) a face selected inside the editing block (positions %s) is not a face of the expected intermediate mesh' % (
            [np.round(t, 4).tolist() for tr in trace if tr[1] is not None for t in tr[1]][:6],)
    errs = [compare_to_reference(Pr, Fr, Pe, Fe, True, 'face') for Pe, Fe in refs]
    if all(errs):
        return '(b,e) ' + errs[0]
    # ---- (c) topology
    for k, nm in (('chi', 'Euler characteristic'), ('n_border_loops', 'number of border loops'), ('n_components', 'number of connected components')):
        if ar[k] != a0[k]:
            return '(c) %s is %r, was %r' % (nm, ar[k], a0[k])
    # ---- (d) area
    va0, area0, planar0 = surface_measures(P0, F)
    var, arear, planarr = surface_measures(Pr, Fr)
    if np.linalg.norm(va0 - var) > 1e-9 * (1 + area0):
        return '(d) total vector area is %s, was %s' % (np.round(var, 9).tolist(), np.round(va0, 9).tolist())
    if planar0 and abs(area0 - arear) > 1e-9 * (1 + area0):
        return '(d) total area is %.9f, was %.9f' % (arear, area0)
    # ---- (f) connectivity answers
    err = conn_surface(res, nV, Fr)
    if err:
        fresh = conn_surface(build_surface([tuple(p) for p in Pr], Fr), nV, Fr)
        if not fresh:
            return '(f) ' + err
        NOTES.append('surface connectivity wrong on a freshly built copy of the result too (not C13): ' + fresh)
    return None


def check_argument(m, res, pre, conn):
    """clause (g)"""
    try:
        now = data_of(m)
    except Exception as e:
        return '(g) the containers of the argument are malformed afterwards: %s: %s' % (type(e).__name__, e)
    try:
        dres = data_of(res)
    except Exception as e:
        return '(a) the containers of the result are malformed: %s: %s' % (type(e).__name__, e)
    why_changed = same_data(now, pre) or conn(m, pre)
    if not why_changed:
        return None
    why_not_result = same_data(now, dres) or conn(m, dres)
    if not why_not_result:
        return None
    return '(g) the argument is neither unchanged [%s] nor equal to the result [%s]' % (why_changed, why_not_result)


# ----------------------------------------------------------------------------------------------------------------------
# volume cases
# ----------------------------------------------------------------------------------------------------------------------

def det4(P, c):
    a, b, cc, d = (P[v] for v in c)
    return float(np.linalg.det(np.array([b - a, cc - a, d - a])))


def analyse_tets(P, C, Fm=None, Em=None):
    """independent inspection of a tetrahedral cell list -> dict(problems, chi, chi_boundary, n_boundary_components, n_components, volume)"""
    nV = len(P)
    problems = []
    tri_cells = defaultdict(list)
    for ci, c in enumerate(C):
        if len(c) != 4 or len(set(c)) != 4 or any(v < 0 or v >= nV for v in c):
            problems.append('cell %d = %r is not a tetrahedron on existing vertices' % (ci, c))
            continue
        if abs(det4(P, c)) < 1e-12:
            problems.append('cell %d = %r is flat' % (ci, c))
        for i in range(4):
            tri_cells[tuple(sorted(c[:i] + c[i + 1:]))].append((ci, c[i]))
    if problems:
        return dict(problems=problems)
    for t, l in tri_cells.items():
        if len(l) > 2:
            problems.append('triangle %r belongs to %d cells' % (t, len(l)))
        if len(l) == 2:
            a, b, c = (P[v] for v in t)
            n = np.cross(b - a, c - a)
            s1, s2 = np.dot(P[l[0][1]] - a, n), np.dot(P[l[1][1]] - a, n)
            if s1 * s2 >= 0:
                problems.append('cells %d and %d lie on the same side of their common triangle %r (overlap)' % (l[0][0], l[1][0], t))
    used = {v for c in C for v in c}
    if len(used) != nV:
        problems.append('unused vertices %s' % short(sorted(set(range(nV)) - used)))
    edges = {(min(a, b), max(a, b)) for c in C for a, b in itertools.combinations(c, 2)}
    if Fm is not None:
        keys = [tuple(sorted(f)) for f in Fm]
        if any(len(f) != 3 for f in Fm) or sorted(keys) != sorted(tri_cells):
            problems.append('faces are not exactly the triangles of the cells: %d faces, %d triangles, %d missing, %d foreign or repeated' % (
                len(Fm), len(tri_cells), len(set(tri_cells) - set(keys)), len(keys) - len(set(keys) & set(tri_cells))))
    if Em is not None:
        if any(len(e) != 2 or not e[0] < e[1] for e in Em) or sorted(Em) != sorted(edges):
            problems.append('edges are not exactly the sides of the cells: %d edges, %d sides' % (len(Em), len(edges)))
    # boundary surface, oriented outwards
    bnd = []
    for t, l in tri_cells.items():
        if len(l) == 1:
            a, b, c = t
            if np.dot(np.cross(P[b] - P[a], P[c] - P[a]), P[l[0][1]] - P[a]) > 0:
                b, c = c, b
            bnd.append((a, b, c))
    relab = {v: i for i, v in enumerate(sorted({v for t in bnd for v in t}))}
    ab = analyse(len(relab), [tuple(relab[v] for v in t) for t in bnd])
    if ab['problems']:
        problems.append('boundary surface: ' + '; '.join(ab['problems'][:2]))
    parent = list(range(len(C)))

    def find(x):
        while parent[x] != x:
            parent[x] = parent[parent[x]]; x = parent[x]
        return x
    for t, l in tri_cells.items():
        if len(l) == 2:
            parent[find(l[0][0])] = find(l[1][0])
    return dict(problems=problems, chi=nV - len(edges) + len(tri_cells) - len(C), chi_boundary=ab['chi'], n_boundary_components=ab['n_components'],
                n_boundary_loops=ab['n_border_loops'], n_components=len({find(i) for i in range(len(C))}), volume=sum(abs(det4(P, c)) for c in C) / 6,
                counts=(nV, len(edges), len(tri_cells), len(C)))


def ref_volume(P, C, trace):
    P, C = list(P), list(C)
    for op, target in trace:
        def vid(p):
            d = [np.linalg.norm(q - p) for q in P]
            j = int(np.argmin(d))
            return j if d[j] < TOL else None
        ids = [vid(p) for p in target]
        if None in ids:
            return None
        if op == 'cell':
            ks = [k for k, c in enumerate(C) if sorted(c) == sorted(ids)]
            if not ks:
                return None
            k = ks[0]
            A, B, Cc, D = C[k]
            P.append((P[A] + P[B] + P[Cc] + P[D]) / 4)
            ib = len(P) - 1
            C[k] = (ib, B, Cc, D)
            C += [(A, ib, Cc, D), (A, B, ib, D), (A, B, Cc, ib)]
        else:
            ks = [k for k, c in enumerate(C) if set(ids) <= set(c)]
            if not ks or len(set(ids)) != 3:
                return None
            P.append(sum(P[v] for v in ids) / 3)
            ic = len(P) - 1
            for k in ks:
                c = C[k]
                new = [tuple(ic if x == v else x for x in c) for v in ids]
                C[k] = new[0]
                C += new[1:]
    return P, C


def run_volume(case):
    V, C = volume_family(case['mesh'])
    P0 = [np.array(p, float) for p in V]
    a0 = analyse_tets(P0, C)
    if a0['problems']:
        raise AssertionError('oracle family member %s is not a valid tet mesh: %r' % (case['mesh'], a0['problems']))
    m = build_volume(V, C)
    if case.get('prequery'):
        touch_volume(m)
    pre = data_of(m)
    ops = list(case['ops'])
    trace = []
    nadj = []
    stage = 'entering the editing block'
    try:
        with VolumeSubdivision(m) as sub:
            for i, op in enumerate(ops):
                stage = 'operation #%d (%s)' % (i, op)
                name, tok = op.split(':')
                cont = sub.mesh.cells if name == 'cell' else sub.mesh.faces
                k = idx_of(tok, len(cont))
                trace.append((name, [np.array([float(x) for x in sub.mesh.vertices[v]]) for v in cont[k]]))
                if name == 'cell':
                    sub.split_cell_as_fan(k)
                else:
                    sub.split_tet_from_face_center(k)
            stage = 'leaving the editing block'
        res = sub.mesh
    except Exception as e:
        return '(a) %s raised %s: %s' % (stage, type(e).__name__, e)
    if case['check'] == 'argument':
        return check_argument(m, res, pre, lambda mm, d: conn_volume(mm, len(d['V']), d['C']))
    if not isinstance(res, M.mesh.VolumeMesh):
        return '(a) the result is a %s, not a VolumeMesh' % type(res).__name__
    try:
        Pr = P_of(res)
        Cr = tuples(res.cells)
        Fr = tuples(res.faces)
        Er = [tuple(e) for e in res.edges]
    except Exception as e:
        return '(a) the containers of the result are malformed: %s: %s' % (type(e).__name__, e)
    ar = analyse_tets(Pr, Cr, Fr, Er)
    if ar['problems']:
        return '(a) the result is not a valid conforming tetrahedral mesh: %s' % '; '.join(ar['problems'][:3])
    if len(Pr) < len(P0):
        return '(e) the result has %d vertices, the input had %d' % (len(Pr), len(P0))
    for i, p in enumerate(P0):
        if np.linalg.norm(Pr[i] - p) > 1e-12:
            return '(e) original vertex %d moved from %s to %s' % (i, np.round(p, 6).tolist(), np.round(Pr[i], 6).tolist())
    if len(ops) == 1:
        nV, nE, nF, nC = a0['counts']
        if trace[0][0] == 'cell':
            cf = (nV + 1, nE + 4, nF + 6, nC + 3)
        else:
            ids = [int(np.argmin([np.linalg.norm(q - p) for q in P0])) for p in trace[0][1]]
            k = sum(1 for c in C if set(ids) <= set(c))
            cf = (nV + 1, nE + 3 + k, nF + 2 + 3 * k, nC + 2 * k)
        if ar['counts'] != cf:
            return '(b) %s: (V,E,F,C)=%r, documented counts give %r' % (ops[0], ar['counts'], cf)
    ref = ref_volume(P0, C, trace)
    if ref is None:
        return '(e) a cell/face selected inside the editing block is not an element of the expected intermediate mesh'
    err = compare_to_reference(Pr, Cr, ref[0], ref[1], False, 'cell')
    if err:
        return '(b,e) ' + err
    # orientation of every cell as inherited from its parent
    sg_ref = Counter()
    A, kref = position_keys(ref[0])
    for c in ref[1]:
        sg_ref[(tuple(sorted(kref[v] for v in c)), det4(ref[0], c) > 0)] += 1
    kres = [kref[int(np.argmin(np.linalg.norm(A - p, axis=1)))] for p in Pr]
    sg_res = Counter((tuple(sorted(kres[v] for v in c)), det4(Pr, c) > 0) for c in Cr)
    if sg_ref != sg_res:
        return '(e) %d cells of the result do not have the orientation of the cell they refine' % len(list((sg_res - sg_ref).elements()))
    for k, nm in (('chi', 'Euler characteristic'), ('n_components', 'number of connected components'), ('chi_boundary', 'Euler characteristic of the boundary surface'),
                  ('n_boundary_components', 'number of boundary components'), ('n_boundary_loops', 'number of border loops of the boundary surface')):
        if ar[k] != a0[k]:
            return '(c) %s is %r, was %r' % (nm, ar[k], a0[k])
    if abs(ar['volume'] - a0['volume']) > 1e-9 * (1 + a0['volume']):
        return '(d) total volume is %.9f, was %.9f' % (ar['volume'], a0['volume'])
    err = conn_volume(res, len(Pr), Cr)
    if err:
        fresh = conn_volume(build_volume([tuple(p) for p in Pr], Cr), len(Pr), Cr)
        if not fresh:
            return '(f) ' + err
        NOTES.append('volume connectivity wrong on a freshly built copy of the result too (not C13): ' + fresh)
    return None


# ----------------------------------------------------------------------------------------------------------------------
# polyline cases
# ----------------------------------------------------------------------------------------------------------------------

def analyse_graph(P, E):
    nV = len(P)
    parent = list(range(nV))

    def find(x):
        while parent[x] != x:
            parent[x] = parent[parent[x]]; x = parent[x]
        return x
    deg = Counter()
    for a, b in E:
        parent[find(a)] = find(b)
        deg[a] += 1; deg[b] += 1
    return dict(chi=nV - len(E), n_components=len({find(v) for v in range(nV)}), n_ends=sum(1 for v in range(nV) if deg[v] == 1),
                branch=sorted(d for d in deg.values() if d > 2), length=sum(float(np.linalg.norm(P[a] - P[b])) for a, b in E))


def run_polyline(case):
    V, E = polyline_family(case['mesh'])
    P0 = [np.array(p, float) for p in V]
    E0 = [(min(a, b), max(a, b)) for a, b in E]
    m = build_polyline(V, E)
    if case.get('prequery'):
        c = m.connectivity
        c.vertex_to_vertices(0); c.edge_id(*m.edges[0]); c.vertex_to_edges(0)
    pre = data_of(m)
    ops = list(case['ops'])
    Pe, Ee = list(P0), list(E0)
    res = m
    stage = ''
    try:
        for i, op in enumerate(ops):
            stage = 'operation #%d (%s)' % (i, op)
            k = idx_of(op.split(':')[1], len(res.edges))
            # reference: the edge is identified by its end positions
            ends = [np.array([float(x) for x in res.vertices[v]]) for v in tuple(res.edges[k])[:2]]
            ke = [j for j, (a, b) in enumerate(Ee) if (np.linalg.norm(Pe[a] - ends[0]) < TOL and np.linalg.norm(Pe[b] - ends[1]) < TOL)
                  or (np.linalg.norm(Pe[b] - ends[0]) < TOL and np.linalg.norm(Pe[a] - ends[1]) < TOL)]
            res = split_edge(res, k)
            if ke:
                a, b = Ee[ke[0]]
                Pe.append((Pe[a] + Pe[b]) / 2)
                Ee[ke[0]] = (a, len(Pe) - 1)
                Ee.append((b, len(Pe) - 1))
            else:
                Ee = None
                break
    except Exception as e:
        return '(a) %s raised %s: %s' % (stage, type(e).__name__, e)
    if case['check'] == 'argument':
        if res is m:
            err = conn_polyline(m, len(m.vertices), [tuple(e) for e in m.edges])
            return ('(g) the argument is the result, but its connectivity does not describe it: ' + err) if err else None
        return check_argument(m, res, pre, lambda mm, d: conn_polyline(mm, len(d['V']), d['E']))
    if not isinstance(res, M.mesh.PolyLine):
        return '(a) the result is a %s, not a PolyLine' % type(res).__name__
    Pr = P_of(res)
    Er = [tuple(e) for e in res.edges]
    for i, e in enumerate(Er):
        if len(e) != 2 or not (0 <= e[0] < e[1] < len(Pr)):
            return '(a) edge %d of the result is %r, not a pair of vertex indices (low index first)' % (i, e)
    if len(set(Er)) != len(Er):
        return '(a) repeated edge in the result'
    if (len(Pr), len(Er)) != (len(P0) + len(ops), len(E0) + len(ops)):
        return '(b) (V,E)=%r, documented counts give %r' % ((len(Pr), len(Er)), (len(P0) + len(ops), len(E0) + len(ops)))
    for i, p in enumerate(P0):
        if np.linalg.norm(Pr[i] - p) > 1e-12:
            return '(e) original vertex %d moved' % i
    if Ee is None:
        return '(e) an edge selected for splitting is not an edge of the expected intermediate polyline'
    err = compare_to_reference(Pr, Er, Pe, Ee, False, 'edge')
    if err:
        return '(b,e) ' + err
    g0, g1 = analyse_graph(P0, E0), analyse_graph(Pr, Er)
    for k, nm in (('chi', 'Euler characteristic'), ('n_components', 'number of connected components'), ('n_ends', 'number of end points'), ('branch', 'degrees of branch vertices')):
        if g0[k] != g1[k]:
            return '(c) %s is %r, was %r' % (nm, g1[k], g0[k])
    if abs(g0['length'] - g1['length']) > 1e-9 * (1 + g0['length']):
        return '(d) total length is %.9f, was %.9f' % (g1['length'], g0['length'])
    err = conn_polyline(res, len(Pr), Er)
    if err:
        return '(f) ' + err
    return None


# ----------------------------------------------------------------------------------------------------------------------
# case families
# ----------------------------------------------------------------------------------------------------------------------

TRI_MESHES = ['tri_grid:3x4', 'tetra', 'torus_tri:3x4', 'annulus_tri:5', 'two_comp_tri', 'single_tri', 'ear_tri', 'overlap_sheets']
POLY_MESHES = ['quad_grid:3x4', 'mixed', 'two_comp_mixed', 'cube_quads', 'annulus_quad:4', 'single_quad', 'single_pent', 'torus_quad:3x4']
ODD_MESHES = ['nonplanar_quad', 'darts', 'u_octagon']          # degenerate but admissible: non-planar / non-convex faces
SEQ_MESHES = ['tri_grid:3x4', 'torus_tri:3x4', 'mixed', 'annulus_quad:4', 'two_comp_mixed']
SINGLE_OPS = [['tri'], ['triface:0'], ['triface:last'], ['fan:0'], ['fan:last'], ['loop0'], ['loop'], ['loop2'], ['q3'], ['s6'], ['s6x2']]
SEQUENCES = [['tri', 'loop'], ['loop', 'loop'], ['q3', 'tri'], ['q3', 'loop'], ['q3', 'q3'], ['fan:0', 'loop'], ['loop', 'fan:1'], ['fan:0', 'fan:0'], ['fan:0', 'fan:last'],
             ['tri', 'q3'], ['s6', 'q3'], ['tri', 'fan:last', 'q3'], ['loop', 'triface:2', 's6']]
VOL_MESHES = ['tet1', 'tet2', 'kuhn:1', 'tets_two_comp', 'edge_fan']
VOL_SINGLE = [['cell:0'], ['cell:last'], ['face:0'], ['face:1'], ['face:2'], ['face:last']]
VOL_SEQ_MESHES = ['tet1', 'tet2', 'kuhn:1']
VOL_SEQ = [['cell:0', 'cell:1'], ['cell:0', 'cell:0'], ['cell:0', 'cell:last'], ['face:0', 'face:3'], ['face:1', 'face:2'], ['cell:0', 'face:0'], ['cell:0', 'face:1'],
           ['face:0', 'cell:0'], ['face:1', 'cell:last'], ['face:0', 'face:last']]
PL_MESHES = ['chain4', 'loop5', 'two_comp', 'star', 'single_edge']
PL_OPS = [['split:0'], ['split:last'], ['split:0', 'split:0'], ['split:0', 'split:last'], ['split:1', 'split:0', 'split:2']]
EXPAND = {'loop0': ['tri'], 'loop2': ['loop', 'loop'], 's6': ['q3', 'tri'], 's6x2': ['q3', 'tri', 'q3', 'tri']}


def expand(ops):
    return [x for o in ops for x in EXPAND.get(o, [o])]


def fixed_family(thorough):
    """seed-independent list of case descriptors, shorter operation sequences first"""
    cases = []

    def add(kind, mesh, ops, prequery=False, check='result', **kw):
        d = {'kind': kind, 'mesh': mesh, 'ops': ops, 'prequery': prequery, 'check': check, 'rot': 0}
        if kind == 'volume':
            # history class used by the known findings: a face split that is not the first operation of its editing block
            d['late_face_split'] = any(str(o).startswith('face') for o in expand(ops)[1:])
        d.update(kw)
        if d not in cases:
            cases.append(d)
    # polylines
    for mesh in PL_MESHES:
        for ops in PL_OPS:
            add('polyline', mesh, ops)
    for mesh in ('chain4', 'loop5'):
        add('polyline', mesh, ['split:0'], True)
        for pq in (False, True):
            add('polyline', mesh, ['split:0'], pq, 'argument')
    # surfaces: every single operation on every mesh, sequences on a sub-family
    for mesh in TRI_MESHES + POLY_MESHES:
        for ops in SINGLE_OPS:
            add('surface', mesh, ops)
    for mesh in ODD_MESHES:
        for ops in (['tri'], ['fan:0'], ['loop'], ['q3']) + ((['triface:0'], ['triface:1'], ['triface:2'], ['triface:3']) if mesh == 'darts' else ()):
            add('surface', mesh, ops)
    for mesh in SEQ_MESHES + (['tri_grid:4x6', 'quad_grid:4x3', 'torus_tri:4x5', 'annulus_quad:6'] if thorough else []):
        for ops in (SINGLE_OPS if thorough else []) + SEQUENCES:
            add('surface', mesh, ops)
    for mesh in TRI_MESHES:
        add('surface', mesh, ['sdb'])
    # connectivity queried before editing
    for mesh in ('tri_grid:3x4', 'mixed', 'annulus_tri:5', 'cube_quads'):
        for ops in (['tri'], ['fan:0'], ['loop'], ['q3'], ['s6'], ['loop', 'fan:1']):
            add('surface', mesh, ops, True)
    add('surface', 'ear_tri', ['sdb'], True)
    # rotated face tuples
    for mesh in ('mixed', 'tri_grid:3x4'):
        for ops in (['tri'], ['loop'], ['s6'], ['fan:0', 'q3']):
            add('surface', mesh, ops, rot=3)
    # clause (g) on a compact sub-family
    for pq in (False, True):
        for ops in (['fan:0'], ['loop'], ['q3'], ['s6'], ['loop', 'fan:1']):
            add('surface', 'tri_grid:3x4', ops, pq, 'argument')
        add('surface', 'quad_grid:3x4', ['tri'], pq, 'argument')
        add('surface', 'mixed', ['tri'], pq, 'argument')
        add('surface', 'mixed', ['triface:0'], pq, 'argument')
        add('surface', 'ear_tri', ['sdb'], pq, 'argument')
    # volumes
    for mesh in VOL_MESHES + (['kuhn:2'] if thorough else []):
        for ops in VOL_SINGLE:
            add('volume', mesh, ops)
    for mesh in VOL_SEQ_MESHES + (['kuhn:2'] if thorough else []):
        for ops in VOL_SEQ:
            add('volume', mesh, ops)
    for mesh in ('tet2', 'kuhn:1'):
        for ops in (['cell:0'], ['face:1'], ['face:2']):
            add('volume', mesh, ops, True)
            for pq in (False, True):
                add('volume', mesh, ops, pq, 'argument')
    cases.sort(key=lambda d: len(expand(d['ops'])))       # stable: prefixes come before their extensions
    return cases


def random_family(seed, n):
    rnd = random.Random(seed)
    out = []
    for i in range(n):
        r = rnd.random()
        if r < 0.7:
            mesh = rnd.choice(TRI_MESHES + POLY_MESHES + ['tri_grid:%dx%d' % (rnd.randint(2, 4), rnd.randint(2, 5)), 'quad_grid:%dx%d' % (rnd.randint(2, 4), rnd.randint(2, 4))])
            alphabet = ['tri', 'loop', 'q3', 's6', 'fan:%d', 'triface:%d', 'fan:%d']
            ops = [(o % rnd.randrange(1000)) if '%' in o else o for o in (rnd.choice(alphabet) for _ in range(rnd.randint(1, 3)))]
            if sum(o in ('loop', 'q3', 's6') for o in ops) == 3:
                ops = ops[:2]
            d = {'kind': 'surface', 'mesh': mesh, 'ops': ops, 'prequery': rnd.random() < 0.3, 'check': 'result', 'rot': rnd.choice([0, 0, rnd.randrange(1, 100)])}
        elif r < 0.9:
            ops = [rnd.choice(['cell:%d', 'face:%d']) % rnd.randrange(1000) for _ in range(rnd.randint(1, 3))]
            d = {'kind': 'volume', 'mesh': rnd.choice(VOL_MESHES), 'ops': ops, 'prequery': rnd.random() < 0.3, 'check': 'result', 'rot': 0,
                 'late_face_split': any(str(o).startswith('face') for o in expand(ops)[1:])}
        else:
            ops = ['split:%d' % rnd.randrange(1000) for _ in range(rnd.randint(1, 4))]
            d = {'kind': 'polyline', 'mesh': rnd.choice(PL_MESHES), 'ops': ops, 'prequery': rnd.random() < 0.3, 'check': 'result', 'rot': 0}
        d['seed'] = seed
        out.append(d)
    return out


def run_case(case):
    """-> None or an error string"""
    runner = {'surface': run_surface, 'volume': run_volume, 'polyline': run_polyline}[case['kind']]
    try:
        return runner(case)
    except AssertionError:
        raise
    except Exception as e:           # anything escaping here is the harness's own problem: make it visible
        import traceback
        return 'ORACLE ERROR %s: %s | %s' % (type(e).__name__, e, traceback.format_exc().splitlines()[-3].strip())


def descriptor(case):
    return {k: v for k, v in case.items() if k != 'error'}


def matches(known_entry, case):
    """a known entry matches a case when every key it gives (except 'error') has the same value in the case descriptor;
    for entries produced by this program (which carry every key) this is equality of the descriptors"""
    d = descriptor(case)
    for k, v in known_entry.items():
        if k == 'error':
            continue
        if d.get(k) != v:
            return False
    return True


FOCUS = {'split_edge': ('split',), 'triangulate_face': ('triface',), 'split_face_as_fan': ('fan', 'sdb'), 'triangulate': ('tri',), 'loop_subdivision': ('loop',),
         'subdivide_triangles_6': ('q3',), 'subdivide_triangles_3quads': ('q3',), 'split_double_boundary_edges_triangles': ('sdb',),
         'split_cell_as_fan': ('cell',), 'split_tet_from_face_center': ('face',), 'SurfaceSubdivision': ('tri', 'triface', 'fan', 'loop', 'q3'),
         'VolumeSubdivision': ('cell', 'face')}


SUBSUMING = ('(a)', '(b)', '(b,e)', '(c)', '(d)', '(e)')


def main():
    """protocol extensions (optional): mode 'enumerate' runs the whole family without stopping and returns every failing case in 'all_failing';
    a case is not run ('subsumed') when a case on the same input whose operation sequence is a prefix of its own already failed on the result
    in this run -- its first operations are the same calls on the same mesh, so it cannot tell anything new until that failure is repaired."""
    req = read_request()
    mode = req.get('mode', 'bounded')
    seed = int(req.get('seed', 0) or 0)
    thorough = req.get('tier') == 'thorough'
    if mode == 'replay':
        case = descriptor(req.get('case') or {})
        err = run_case(case)
        respond(failing=dict(case, error=err) if err else None, cases=1)
    if req.get('all') and mode == 'bounded':
        mode = 'enumerate'          # the check driver asks for every failing case at once
    known = list(req.get('known') or [])
    cases = fixed_family(thorough)
    if thorough or mode == 'search':
        cases = cases + random_family(seed, 3000 if thorough else 200)
    if mode == 'search' and req.get('function'):
        pref = FOCUS.get(str(req['function']).split('.')[-1])
        if pref:
            cases = [c for c in cases if any(o.split(':')[0] in pref for o in expand(c['ops']))] or cases
    bud = Budget(270 if thorough else 50)
    n = subsumed = 0
    known_hit, all_failing, broken = [], [], []
    for case in cases:
        if bud.over():
            break
        key = (case['kind'], case['mesh'], case.get('rot', 0), case.get('prequery', False))
        ex = expand(case['ops'])
        if any(k == key and ex[:len(p)] == p and len(p) < len(ex) or (k == key and p == ex and case['check'] == 'argument') for k, p in broken):
            subsumed += 1
            continue
        n += 1
        err = run_case(case)
        if not err:
            continue
        if case['check'] == 'result' and err.startswith(SUBSUMING):
            broken.append((key, ex))
        hit = [k for k in known if matches(k, case)]
        if hit:
            known_hit += [k for k in hit if k not in known_hit]
        elif mode == 'enumerate':
            all_failing.append(dict(case, error=err))
        else:
            respond(failing=dict(case, error=err), cases=n, known_hit=known_hit, subsumed=subsumed)
    note = '; '.join(sorted(set(NOTES))[:5]) or None
    if mode == 'enumerate':
        respond(failing=all_failing[0] if all_failing else None, cases=n, note=note, known_hit=known_hit, subsumed=subsumed, all_failing=all_failing)
    respond(failing=None, cases=n, note=note, known_hit=known_hit, subsumed=subsumed)


main()
