"""C01 native oracle: every connectivity answer of a surface mesh against direct inspection of its face list,
for fresh meshes (each query issued first) and after other queries, sorting on and off."""
import itertools, random
import numpy as np
from replay.common import *
import mouette as M
from mouette import config


def build(V, F):
    raw = M.mesh.RawMeshData()
    raw.vertices += [M.Vec(*p) for p in V]
    raw.faces += [tuple(f) for f in F]
    return M.mesh.SurfaceMesh(raw)


def families(seed, thorough):
    rnd = random.Random(seed)
    base = []
    base.append(('square2', [(0, 0, 0), (1, 0, 0), (1, 1, 0), (0, 1, 0)], [(0, 1, 2), (0, 2, 3)]))
    base.append(('tetra', [(0, 0, 0), (1, 0, 0), (0, 1, 0), (0, 0, 1)], [(1, 2, 3), (0, 3, 2), (0, 1, 3), (0, 2, 1)]))
    base.append(('quads2x2', [(i, j, 0) for i in range(3) for j in range(3)],
                 [(3 * i + j, 3 * i + j + 1, 3 * (i + 1) + j + 1, 3 * (i + 1) + j) for i in range(2) for j in range(2)]))
    base.append(('mixed', [(0, 0, 0), (1, 0, 0), (2, 0, 0), (0, 1, 0), (1, 1, 0), (2, 1, 0), (1, 2, 0)],
                 [(0, 1, 4, 3), (1, 2, 5), (1, 5, 4), (3, 4, 6)]))
    base.append(('fan', [(0, 0, 0)] + [(np.cos(k), np.sin(k), 0) for k in range(5)], [(0, 1 + k, 1 + (k + 1) % 5) for k in range(5)]))
    base.append(('openfan', [(0, 0, 0)] + [(np.cos(k), np.sin(k), 0) for k in range(4)], [(0, 1 + k, 2 + k) for k in range(3)]))
    # annulus: 2 border loops
    n = 4
    Vr = [(np.cos(k), np.sin(k), 0) for k in range(n)] + [(2 * np.cos(k), 2 * np.sin(k), 0) for k in range(n)]
    Fr = [(k, n + k, n + (k + 1) % n, (k + 1) % n) for k in range(n)]
    base.append(('annulus', Vr, Fr))
    for name, V, F in base:
        rots = [tuple(0 for _ in F)]
        for f in range(min(len(F), 2)):
            for r in range(1, len(F[f])):
                rots.append(tuple(r if g == f else 0 for g in range(len(F))))
        if thorough:
            for _ in range(6):
                rots.append(tuple(rnd.randrange(len(f)) for f in F))
        for rot in rots:
            F2 = [tuple(f[(i + r) % len(f)] for i in range(len(f))) for f, r in zip(F, rot)]
            perms = [list(range(len(V)))]
            p = list(range(len(V))); rnd.shuffle(p); perms.append(p)
            for perm in perms:
                V3 = [None] * len(V)
                for old, new in enumerate(perm):
                    V3[new] = V[old]
                F3 = [tuple(perm[v] for v in f) for f in F2]
                yield name, V3, F3


class Spec:
    """direct inspection of the face list"""

    def __init__(self, nV, F):
        self.F = F
        self.nV = nV
        self.first = [0]
        for f in F:
            self.first.append(self.first[-1] + len(f))
        self.he = {}
        for fi, f in enumerate(F):
            n = len(f)
            for i in range(n):
                self.he[(f[i], f[(i + 1) % n])] = (fi, i)
        self.edges = sorted({(min(a, b), max(a, b)) for (a, b) in self.he})

    def corner(self, f, i):
        return self.first[f] + i % len(self.F[f])

    def corner_face(self, c):
        for f in range(len(self.F)):
            if self.first[f] <= c < self.first[f + 1]:
                return f, c - self.first[f]

    def opp(self, c):
        f, i = self.corner_face(c)
        a, b = self.F[f][i], self.F[f][(i + 1) % len(self.F[f])]
        if (b, a) in self.he:
            g, j = self.he[(b, a)]
            return self.corner(g, j)
        return None

    def border_edge(self, a, b):
        return ((a, b) in self.he) != ((b, a) in self.he)

    def nbrs(self, v):
        return {b for (a, b) in self.he if a == v} | {a for (a, b) in self.he if b == v}

    def vcorners(self, v):
        return {self.corner(f, i) for f, F_ in enumerate(self.F) for i, x in enumerate(F_) if x == v}


def queries(m, sp):
    """(name, thunk) pairs; each thunk returns None or an error string"""
    c = m.connectivity
    qs = []
    dirs = {}
    nC = sp.first[-1]

    def q(name, fn):
        qs.append((name, fn))
    for cn in range(nC):
        f, i = sp.corner_face(cn)
        q('next_corner(%d)' % cn, lambda cn=cn, f=f, i=i: None if c.next_corner(cn) == sp.corner(f, i + 1) else 'next_corner(%d)=%r expected %r' % (cn, c.next_corner(cn), sp.corner(f, i + 1)))
        q('previous_corner(%d)' % cn, lambda cn=cn, f=f, i=i: None if c.previous_corner(cn) == sp.corner(f, i - 1) else 'previous_corner(%d)=%r expected %r' % (cn, c.previous_corner(cn), sp.corner(f, i - 1)))
        q('opposite_corner(%d)' % cn, lambda cn=cn: None if c.opposite_corner(cn) == sp.opp(cn) else 'opposite_corner(%d)=%r expected %r' % (cn, c.opposite_corner(cn), sp.opp(cn)))
        q('corner_to_face(%d)' % cn, lambda cn=cn, f=f: None if c.corner_to_face(cn) == f else 'corner_to_face(%d)=%r expected %r' % (cn, c.corner_to_face(cn), f))
        a, b = sp.F[f][i], sp.F[f][(i + 1) % len(sp.F[f])]
        q('corner_to_half_edge(%d)' % cn, lambda cn=cn, a=a, b=b: None if tuple(c.corner_to_half_edge(cn)) == (a, b) else 'corner_to_half_edge(%d)=%r expected %r' % (cn, c.corner_to_half_edge(cn), (a, b)))
    for (a, b), (f, i) in sp.he.items():
        q('half_edge_to_corner(%d,%d)' % (a, b), lambda a=a, b=b, f=f, i=i: None if c.half_edge_to_corner(a, b) == sp.corner(f, i) else 'half_edge_to_corner(%d,%d)=%r expected %r' % (a, b, c.half_edge_to_corner(a, b), sp.corner(f, i)))
        q('direct_face(%d,%d)' % (a, b), lambda a=a, b=b, f=f: None if c.direct_face(a, b) == f else 'direct_face(%d,%d)=%r expected %r' % (a, b, c.direct_face(a, b), f))
        g = sp.he[(b, a)][0] if (b, a) in sp.he else None
        q('edge_to_faces(%d,%d)' % (a, b), lambda a=a, b=b, f=f, g=g: None if tuple(c.edge_to_faces(a, b)) == (f, g) else 'edge_to_faces(%d,%d)=%r expected %r' % (a, b, c.edge_to_faces(a, b), (f, g)))
        q('opposite_face(%d,%d,%d)' % (a, b, f), lambda a=a, b=b, f=f, g=g: None if c.opposite_face(a, b, f) == g else 'opposite_face(%d,%d,%d)=%r expected %r' % (a, b, f, c.opposite_face(a, b, f), g))
        q('is_edge_on_border(%d,%d)' % (a, b), lambda a=a, b=b: None if bool(m.is_edge_on_border(a, b)) == sp.border_edge(a, b) else 'is_edge_on_border(%d,%d)=%r' % (a, b, m.is_edge_on_border(a, b)))
        q('edge_id(%d,%d)' % (a, b), lambda a=a, b=b: None if (c.edge_id(a, b) is not None and tuple(sorted(m.edges[c.edge_id(a, b)])) == (min(a, b), max(a, b))) else 'edge_id(%d,%d)=%r' % (a, b, c.edge_id(a, b)))
    for v in range(sp.nV):
        q('vertex_to_vertices(%d)' % v, lambda v=v: None if (set(c.vertex_to_vertices(v)) == sp.nbrs(v) and len(c.vertex_to_vertices(v)) == len(sp.nbrs(v))) else 'vertex_to_vertices(%d)=%r expected %r' % (v, c.vertex_to_vertices(v), sorted(sp.nbrs(v))))
        q('vertex_to_corners(%d)' % v, lambda v=v: None if (set(c.vertex_to_corners(v)) == sp.vcorners(v) and len(c.vertex_to_corners(v)) == len(sp.vcorners(v))) else 'vertex_to_corners(%d)=%r expected %r' % (v, c.vertex_to_corners(v), sorted(sp.vcorners(v))))
        q('vertex_to_faces(%d)' % v, lambda v=v: None if sorted(c.vertex_to_faces(v)) == sorted(sp.corner_face(x)[0] for x in sp.vcorners(v)) else 'vertex_to_faces(%d)=%r' % (v, c.vertex_to_faces(v)))
        q('vertex_to_edges(%d)' % v, lambda v=v: None if sorted(tuple(sorted(m.edges[e])) for e in c.vertex_to_edges(v)) == sorted((min(v, w), max(v, w)) for w in sp.nbrs(v)) else 'vertex_to_edges(%d)=%r' % (v, c.vertex_to_edges(v)))
        isb = any(sp.border_edge(a, b) for (a, b) in sp.he if v in (a, b))
        q('is_vertex_on_border(%d)' % v, lambda v=v, isb=isb: None if bool(m.is_vertex_on_border(v)) == isb else 'is_vertex_on_border(%d)=%r expected %r' % (v, m.is_vertex_on_border(v), isb))
        if config.sort_neighborhoods:
            def order(v=v, isb=isb):
                cs = list(c.vertex_to_corners(v))
                k = len(cs)
                # cyclically consecutive corners are related by opposite(previous(.)) with at most one gap (border)
                def breaks(seq):
                    g = 0
                    for t in range(len(seq)):
                        x, y = seq[t], seq[(t + 1) % len(seq)]
                        pf, pi = sp.corner_face(x)
                        if sp.opp(sp.corner(pf, pi - 1)) != y:
                            g += 1
                    return g
                fwd, bwd = breaks(cs), breaks(cs[::-1])
                allowed = 1 if isb else 0
                if k > 1 and min(fwd, bwd) > allowed:
                    return 'vertex_to_corners(%d)=%r is not in rotational order (%d breaks)' % (v, cs, min(fwd, bwd))
                if k > 2 and fwd != bwd:
                    dirs.setdefault('d', set()).add('f' if fwd < bwd else 'b')
                    if len(dirs['d']) > 1:
                        return 'rotational order of vertex_to_corners is not in the same direction at every vertex (vertex %d)' % v
                vs = list(c.vertex_to_vertices(v))
                gaps = 0
                for t in range(len(vs)):
                    a, b = vs[t], vs[(t + 1) % len(vs)]
                    if not any(v in f and a in f and b in f and ((f.index(a) - f.index(v)) % len(f) in (1, len(f) - 1)) and ((f.index(b) - f.index(v)) % len(f) in (1, len(f) - 1)) for f in sp.F):
                        gaps += 1
                if len(vs) > 2 and gaps > (1 if isb else 0):
                    return 'vertex_to_vertices(%d)=%r is not in rotational order' % (v, vs)
                return None
            q('rotational_order(%d)' % v, order)
    for f in range(len(sp.F)):
        q('face_to_first_corner(%d)' % f, lambda f=f: None if c.face_to_first_corner(f) == sp.first[f] else 'face_to_first_corner(%d)=%r' % (f, c.face_to_first_corner(f)))
        q('face_to_corners(%d)' % f, lambda f=f: None if list(c.face_to_corners(f)) == list(range(sp.first[f], sp.first[f + 1])) else 'face_to_corners(%d)=%r' % (f, c.face_to_corners(f)))
        exp = sorted(sp.corner_face(sp.opp(x))[0] for x in range(sp.first[f], sp.first[f + 1]) if sp.opp(x) is not None)
        q('face_to_faces(%d)' % f, lambda f=f, exp=exp: None if sorted(c.face_to_faces(f)) == exp else 'face_to_faces(%d)=%r expected %r' % (f, c.face_to_faces(f), exp))
        q('face_to_vertices(%d)' % f, lambda f=f: None if list(c.face_to_vertices(f)) == list(sp.F[f]) else 'face_to_vertices(%d)' % f)
        q('face_id(%d)' % f, lambda f=f: None if c.face_id(*sp.F[f]) == f else 'face_id%r=%r' % (sp.F[f], c.face_id(*sp.F[f])))
    be = sorted(e for e in sp.edges if sp.border_edge(*e) or sp.border_edge(e[1], e[0]))
    q('boundary_edges', lambda: None if sorted(tuple(sorted(m.edges[e])) for e in m.boundary_edges) == be and len(m.boundary_edges) == len(be) else 'boundary_edges=%r expected %r' % ([tuple(m.edges[e]) for e in m.boundary_edges], be))
    q('interior_edges', lambda: None if sorted(tuple(sorted(m.edges[e])) for e in m.interior_edges) == sorted(set(sp.edges) - set(be)) else 'interior_edges wrong')
    bv = sorted({v for e in be for v in e})
    q('boundary_vertices', lambda: None if sorted(m.boundary_vertices) == bv else 'boundary_vertices=%r expected %r' % (sorted(m.boundary_vertices), bv))
    q('interior_vertices', lambda: None if sorted(m.interior_vertices) == sorted(set(range(sp.nV)) - set(bv)) else 'interior_vertices wrong')
    return qs


def run_case(name, V, F, sort_flag, mode, seed, limit_first=None):
    config.sort_neighborhoods = sort_flag
    try:
        sp = Spec(len(V), F)
        m = build(V, F)
        qs = queries(m, sp)
        if mode == 'all-after':
            order = list(range(len(qs)))
            random.Random(seed).shuffle(order)
            for k in order:
                try:
                    err = qs[k][1]()
                except Exception as e:
                    err = '%s raised %s: %s' % (qs[k][0], type(e).__name__, e)
                if err:
                    return {'mesh': name, 'V': [list(map(float, p)) for p in V], 'F': [list(f) for f in F], 'sort': sort_flag, 'query': qs[k][0], 'first': False, 'error': err}
        else:
            # each query first on a fresh mesh
            names = [n for n, _ in qs]
            idx = list(range(len(qs)))
            if limit_first:
                random.Random(seed).shuffle(idx)
                # keep one representative per accessor kind + a few more
                seen, keep = set(), []
                for k in idx:
                    kind = names[k].split('(')[0]
                    if kind not in seen:
                        seen.add(kind); keep.append(k)
                idx = keep
            for k in idx:
                m2 = build(V, F)
                q2 = queries(m2, sp)
                try:
                    err = q2[k][1]()
                except Exception as e:
                    err = '%s raised %s: %s' % (q2[k][0], type(e).__name__, e)
                if err:
                    return {'mesh': name, 'V': [list(map(float, p)) for p in V], 'F': [list(f) for f in F], 'sort': sort_flag, 'query': q2[k][0], 'first': True, 'error': err}
    finally:
        config.sort_neighborhoods = True
    return None


def main():
    req = read_request()
    seed = int(req.get('seed', 0) or 0)
    if req['mode'] == 'replay':
        c = req.get('case') or {}
        r = run_case(c['mesh'], [tuple(p) for p in c['V']], [tuple(f) for f in c['F']], c['sort'], 'first' if c.get('first') else 'all-after', seed)
        respond(failing=r, cases=1)
    n = 0
    bud = Budget(240 if req.get('tier') == 'thorough' else 100)
    for name, V, F in families(seed, req.get('tier') == 'thorough'):
        for sort_flag in (True, False):
            for mode in ('all-after', 'first'):
                n += 1
                r = run_case(name, V, F, sort_flag, mode, seed, limit_first=True)
                if r:
                    respond(failing=r, cases=n)
        if bud.over():
            break
    respond(failing=None, cases=n)


main()
