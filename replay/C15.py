"""C15 native oracle: border-cycle extraction, border polyline and the feature-edge detector are exact.

Every expectation is computed from the raw vertex / face lists with plain python + numpy:
  * border edges = undirected edges lying in exactly one face; border loops = connected components of the
    border-edge graph (every border vertex of a manifold surface has exactly two border edges);
  * face normals by Newell's formula, dihedral test through the dot product of the unit normals
    (cos 60deg = 0.5, declared hard edges 0.8 ~ cos 36.87deg); edges within 1e-9 of a threshold are not judged;
  * vertex angle sums for the corner orders.

A case is {'check': <clause group>, 'mesh': <family member>, 'params': {...}, 'shuffle': <int|None>,
'sort_neighborhoods': bool, ...options}.  Clause groups:
  cycle           extract_border_cycle from EVERY border vertex (+ default start, + rejection of a non-border start)
  cycle_all       extract_border_cycle_all
  polyline        extract_boundary_of_surface: vertices / edges / index map (either direction accepted)
  polyline_map_direction   the returned dict maps polyline index -> surface index ("back to the surface", docstring)
  polyline_component       the "component" attribute of the polyline separates the loops (auxiliary: not in the statement)
  features        the flagged edge set (+ "feature" attributes on the mesh)
  derived         feature_vertices / feature_degrees / local_feat_edges / feature graph consistent with the flagged set
  corners         corner orders and corner point cloud
  rerun           a detector / mesh used a second time gives the data of the second run
"""
import math, random, json
from collections import defaultdict
import numpy as np
from replay.common import *
from replay.meshcheck import analyse
import mouette as M
from mouette.processing import border as B
from mouette.processing.features import FeatureEdgeDetector

TOL = 1e-9


# --------------------------------------------------------------------------------------------- mesh family

def _cells(nu, nv, tri, removed=(), diag='alt'):
    faces = []
    removed = {tuple(c) for c in removed}
    for i in range(nu - 1):
        for j in range(nv - 1):
            a, b, c, d = i * nv + j, i * nv + j + 1, (i + 1) * nv + j + 1, (i + 1) * nv + j
            if tri:
                if (diag == 'alt' and (i + j) % 2 == 0) or diag == 'ac':
                    two = [(a, b, c), (a, c, d)]
                else:
                    two = [(a, b, d), (b, c, d)]
                for k, f in enumerate(two):
                    if (i, j) in removed or (i, j, k) in removed:
                        continue
                    faces.append(f)
            elif (i, j) not in removed:
                faces.append((a, b, c, d))
    return faces


def fam_grid(nu, nv, tri=True, removed=(), diag='alt', zamp=0.0, zseed=0, mixed=False):
    """planar / height-field grid; removed = cells (i,j) or single triangles (i,j,k); mixed = quads on even cells"""
    rnd = np.random.RandomState(zseed)
    pts = [(float(i), float(j), float(zamp * rnd.randn()) if zamp else 0.0) for i in range(nu) for j in range(nv)]
    if mixed:
        faces = []
        rem = {tuple(c) for c in removed}
        for i in range(nu - 1):
            for j in range(nv - 1):
                if (i, j) in rem:
                    continue
                a, b, c, d = i * nv + j, i * nv + j + 1, (i + 1) * nv + j + 1, (i + 1) * nv + j
                faces += [(a, b, c, d)] if (i + 2 * j) % 3 == 0 else [(a, b, d), (b, c, d)]
    else:
        faces = _cells(nu, nv, tri, removed, diag)
    return pts, faces


def fam_fold(nu, nv, tri, angles, diag='alt'):
    """grid folded along the interior grid lines j=1..nv-2 by the given angles (degrees, signed) between the normals"""
    assert len(angles) == nv - 2
    h, y, z, prof = 0.0, 0.0, 0.0, []
    for j in range(nv):
        prof.append((y, z))
        if 1 <= j <= nv - 2:
            h += math.radians(angles[j - 1])
        y, z = y + math.cos(h), z + math.sin(h)
    pts = [(float(i), prof[j][0], prof[j][1]) for i in range(nu) for j in range(nv)]
    return pts, _cells(nu, nv, tri, (), diag)


def fam_annulus(nr, nt, tri=True):
    pts, faces = [], []
    for r in range(nr):
        for t in range(nt):
            a = 2 * math.pi * t / nt
            pts.append(((1 + r) * math.cos(a), (1 + r) * math.sin(a), 0.0))
    for r in range(nr - 1):
        for t in range(nt):
            a, b, c, d = r * nt + t, (r + 1) * nt + t, (r + 1) * nt + (t + 1) % nt, r * nt + (t + 1) % nt
            if tri:
                faces += [(a, b, c), (a, c, d)] if (r + t) % 2 == 0 else [(a, b, d), (b, c, d)]
            else:
                faces.append((a, b, c, d))
    return pts, faces


def fam_strip(n):
    """triangle strip: every vertex on the border, every interior edge is a chord between border vertices"""
    pts = [(0.5 * k, float(k % 2), 0.0) for k in range(n + 2)]
    faces = [(k, k + 1, k + 2) if k % 2 == 0 else (k + 1, k, k + 2) for k in range(n)]
    return pts, faces


def fam_fan(n, closed=True, apex_z=0.0):
    """n rim vertices around a centre (a disk; with closed=False one sector is missing: the centre is on the border)"""
    pts = [(0.0, 0.0, float(apex_z))] + [(math.cos(2 * math.pi * k / n), math.sin(2 * math.pi * k / n), 0.0) for k in range(n)]
    faces = [(0, 1 + k, 1 + (k + 1) % n) for k in range(n if closed else n - 1)]
    return pts, faces


def fam_polygon(n):
    pts = [(math.cos(2 * math.pi * k / n), math.sin(2 * math.pi * k / n), 0.0) for k in range(n)]
    return pts, [tuple(range(n))]


def fam_prism(n, caps=True, tri=False):
    pts = [(math.cos(2 * math.pi * k / n), math.sin(2 * math.pi * k / n), 0.0) for k in range(n)]
    pts += [(x, y, 1.0) for (x, y, _) in pts]
    faces = []
    for k in range(n):
        a, b, c, d = k, (k + 1) % n, n + (k + 1) % n, n + k
        faces += [(a, b, c), (a, c, d)] if tri else [(a, b, c, d)]
    if caps:
        faces += [tuple(range(n - 1, -1, -1)), tuple(range(n, 2 * n))]
    return pts, faces


def fam_tetra():
    return [(0., 0., 0.), (1., 0., 0.), (0., 1., 0.), (0., 0., 1.)], [(0, 2, 1), (0, 1, 3), (1, 2, 3), (0, 3, 2)]


def fam_octa():
    pts = [(1., 0, 0), (-1., 0, 0), (0, 1., 0), (0, -1., 0), (0, 0, 1.), (0, 0, -1.)]
    faces = [(0, 2, 4), (2, 1, 4), (1, 3, 4), (3, 0, 4), (2, 0, 5), (1, 2, 5), (3, 1, 5), (0, 3, 5)]
    return pts, faces


def fam_icosa(removed=()):
    p = (1 + math.sqrt(5)) / 2
    pts = [(-1, p, 0), (1, p, 0), (-1, -p, 0), (1, -p, 0), (0, -1, p), (0, 1, p), (0, -1, -p), (0, 1, -p), (p, 0, -1), (p, 0, 1), (-p, 0, -1), (-p, 0, 1)]
    faces = [(0, 11, 5), (0, 5, 1), (0, 1, 7), (0, 7, 10), (0, 10, 11), (1, 5, 9), (5, 11, 4), (11, 10, 2), (10, 7, 6), (7, 1, 8),
             (3, 9, 4), (3, 4, 2), (3, 2, 6), (3, 6, 8), (3, 8, 9), (4, 9, 5), (2, 4, 11), (6, 2, 10), (8, 6, 7), (9, 8, 1)]
    return [tuple(float(x) for x in q) for q in pts], [f for k, f in enumerate(faces) if k not in set(removed)]


def fam_dart(rot=0):
    """planar NON-convex quad (vertex 0 is the reflex corner; the face starts at vertex `rot`) next to a coplanar triangle: the shared edge is flat"""
    pts = [(0., 0., 0.), (2., -1., 0.), (0., 3., 0.), (-2., -1., 0.), (3., 3., 0.)]
    q = [0, 1, 2, 3]
    return pts, [tuple(q[rot:] + q[:rot]), (1, 4, 2)]


def fam_mobius(n):
    """non-orientable band (one border loop): only consistently orientable inputs are in the default family"""
    pts, faces = [], []
    for k in range(n):
        a = 2 * math.pi * k / n
        for s in (-0.4, 0.4):
            r = 2 + s * math.cos(a / 2)
            pts.append((r * math.cos(a), r * math.sin(a), s * math.sin(a / 2)))
    for k in range(n):
        a, b = 2 * k, 2 * k + 1
        if k < n - 1:
            c, d = 2 * k + 2, 2 * k + 3
        else:
            c, d = 1, 0
        faces += [(a, c, b), (b, c, d)]
    return pts, faces


def fam_union(parts, isolated=0):
    """disjoint union of family members (translated along x), plus isolated vertices"""
    pts, faces, off = [], [], 0.0
    for name, params in parts:
        p, f = FAMILY[name](**params)
        base = len(pts)
        xs = [q[0] for q in p]
        pts += [(q[0] - min(xs) + off, q[1], q[2]) for q in p]
        faces += [tuple(v + base for v in face) for face in f]
        off += max(xs) - min(xs) + 2.0
    for k in range(isolated):
        pts.append((off + k, -3.0, 0.5))
    return pts, faces


FAMILY = dict(grid=fam_grid, fold=fam_fold, annulus=fam_annulus, strip=fam_strip, fan=fam_fan, polygon=fam_polygon, prism=fam_prism,
              tetra=fam_tetra, octa=fam_octa, icosa=fam_icosa, dart=fam_dart, mobius=fam_mobius, union=fam_union)


def raw_lists(desc):
    """-> pts, faces (after the optional relabelling / face reordering / face rotation given by desc['shuffle'])"""
    pts, faces = FAMILY[desc['mesh']](**desc.get('params', {}))
    pts = [tuple(float(x) for x in p) for p in pts]
    faces = [tuple(int(v) for v in f) for f in faces]
    sh = desc.get('shuffle')
    if sh is not None:
        rnd = random.Random(sh)
        perm = list(range(len(pts)))
        rnd.shuffle(perm)                      # old -> new label
        npts = [None] * len(pts)
        for old, new in enumerate(perm):
            npts[new] = pts[old]
        nf = []
        for f in faces:
            g = [perm[v] for v in f]
            r = rnd.randrange(len(g))
            nf.append(tuple(g[r:] + g[:r]))
        rnd.shuffle(nf)
        pts, faces = npts, nf
    return pts, faces


def und_edges(faces):
    cnt = defaultdict(list)
    for fi, f in enumerate(faces):
        for i in range(len(f)):
            a, b = f[i], f[(i + 1) % len(f)]
            cnt[(min(a, b), max(a, b))].append(fi)
    return cnt


def hard_selection(desc, faces):
    """-> (list of declared pairs, list of pairs explicitly set to False)"""
    h = desc.get('hard')
    if not h:
        return [], []
    rnd = random.Random(h.get('seed', 0))
    allE = sorted(und_edges(faces))
    yes = [e for e in allE if rnd.random() < h.get('p', 0.5)]
    no = [e for e in allE if e not in set(yes) and rnd.random() < 0.6] if h['mode'] == 'attr_false' else []
    return yes, no


def build(desc):
    """-> mouette SurfaceMesh, pts, faces, declared hard pairs"""
    pts, faces = raw_lists(desc)
    yes, no = hard_selection(desc, faces)
    raw = M.mesh.RawMeshData()
    raw.vertices += [M.Vec(*p) for p in pts]
    mode = (desc.get('hard') or {}).get('mode')
    if mode == 'raw':
        rnd = random.Random(7)
        raw.edges += [(a, b) if rnd.random() < 0.5 else (b, a) for a, b in yes]
    raw.faces += faces
    m = M.mesh.SurfaceMesh(raw)
    if mode in ('attr', 'attr_false'):
        eid = {(min(a, b), max(a, b)): e for e, (a, b) in enumerate(m.edges)}
        attr = m.edges.get_attribute('hard_edges') if m.edges.has_attribute('hard_edges') else m.edges.create_attribute('hard_edges', bool)
        for e in yes:
            attr[eid[e]] = True
        for e in no:
            attr[eid[e]] = False
    return m, pts, faces, yes


# --------------------------------------------------------------------------------------------- independent model

def border_model(nV, faces):
    """-> (set of border edges (min,max), list of loops as vertex sets, vertex -> loop index)"""
    cnt = und_edges(faces)
    bedges = {e for e, fs in cnt.items() if len(fs) == 1}
    adj = defaultdict(set)
    for a, b in bedges:
        adj[a].add(b); adj[b].add(a)
    assert all(len(s) == 2 for s in adj.values()), 'family member is not manifold on its border'
    loops, where = [], {}
    for v in sorted(adj):
        if v in where:
            continue
        comp, stack = set(), [v]
        while stack:
            x = stack.pop()
            if x in comp:
                continue
            comp.add(x)
            stack += [u for u in adj[x] if u not in comp]
        for x in comp:
            where[x] = len(loops)
        loops.append(comp)
    return bedges, loops, where


def newell(P):
    P = np.asarray(P, float)
    n = np.zeros(3)
    for i in range(len(P)):
        n += np.cross(P[i], P[(i + 1) % len(P)])
    return n / np.linalg.norm(n)


def feature_model(m, pts, faces, declared, only_border):
    """-> (expected feature edge ids, undecidable edge ids) using the edge numbering of the mesh's raw edge list"""
    cnt = und_edges(faces)
    normals = [newell([pts[v] for v in f]) for f in faces]
    declared = set(declared)
    exp, amb = set(), set()
    for e, (a, b) in enumerate(m.edges):
        k = (min(a, b), max(a, b))
        fs = cnt.get(k, [])
        if len(fs) == 1:
            exp.add(e)
        elif len(fs) == 2 and not only_border:
            d = float(np.dot(normals[fs[0]], normals[fs[1]]))
            if abs(d - 0.5) < TOL or (k in declared and abs(d - 0.8) < TOL):
                amb.add(e)
            elif d < 0.5 or (k in declared and d < 0.8):
                exp.add(e)
    return exp, amb


def angle_sums(pts, faces):
    P = np.asarray(pts, float)
    s = defaultdict(float)
    for f in faces:
        n = len(f)
        for i in range(n):
            u, w = P[f[i - 1]] - P[f[i]], P[f[(i + 1) % n]] - P[f[i]]
            c = float(np.dot(u, w) / (np.linalg.norm(u) * np.linalg.norm(w)))
            s[f[i]] += math.acos(max(-1.0, min(1.0, c)))
    return s


# --------------------------------------------------------------------------------------------- clause groups

def closed_walk_error(m, vb, eb, bedges, loop, what):
    """vb/eb must be a closed walk along border edges through every vertex of `loop` exactly once"""
    vb = [int(v) for v in vb]
    if len(set(vb)) != len(vb):
        rep = sorted({v for v in vb if vb.count(v) > 1})
        return '%s: vertices %r visited more than once (walk of %d vertices, loop has %d)' % (what, rep[:6], len(vb), len(loop))
    if set(vb) != loop:
        return '%s: walk visits %r, the border loop is %r (missing %r, foreign %r)' % (what, vb[:14], sorted(loop)[:14], sorted(loop - set(vb))[:6], sorted(set(vb) - loop)[:6])
    n = len(vb)
    for k in range(n):
        a, b = vb[k], vb[(k + 1) % n]
        if (min(a, b), max(a, b)) not in bedges:
            return '%s: consecutive walk vertices %d,%d are not joined by a border edge' % (what, a, b)
    if eb is not None:
        if len(eb) != n:
            return '%s: %d edges returned for a loop of %d vertices' % (what, len(eb), n)
        for k in range(n):
            if eb[k] is None or not (0 <= int(eb[k]) < len(m.edges)):
                return '%s: edge entry %d is %r' % (what, k, eb[k])
            a, b = m.edges[int(eb[k])]
            if {int(a), int(b)} != {vb[k], vb[(k + 1) % n]}:
                return '%s: edge entry %d is edge %r, expected the edge between walk vertices %d and %d' % (what, k, (int(a), int(b)), vb[k], vb[(k + 1) % n])
    return None


def check_cycle(m, pts, faces):
    bedges, loops, where = border_model(len(pts), faces)
    if not loops:
        r = B.extract_border_cycle(m)
        if r not in ([], ([], []), ((), ())):
            return 'closed surface: extract_border_cycle returned %r, expected no cycle' % (r,)
        return None
    vb, eb = B.extract_border_cycle(m)
    vb = [int(v) for v in vb]
    if not vb or vb[0] not in where:
        return 'default start: walk starts at %r which is not a border vertex' % (vb[:1],)
    err = closed_walk_error(m, vb, eb, bedges, loops[where[vb[0]]], 'extract_border_cycle(default start)')
    if err:
        return err
    for s in sorted(where):
        vb, eb = B.extract_border_cycle(m, s)
        if int(vb[0]) != s:
            return 'extract_border_cycle(start=%d): walk starts at %d' % (s, vb[0])
        err = closed_walk_error(m, vb, eb, bedges, loops[where[s]], 'extract_border_cycle(start=%d)' % s)
        if err:
            return err
    used = {v for f in faces for v in f}
    for s in [v for v in range(len(pts)) if v not in where][:3]:
        try:
            r = B.extract_border_cycle(m, s)
        except Exception:
            continue
        return 'extract_border_cycle(start=%d): vertex is not on the border (%s) but no exception; returned %r' % (s, 'interior' if s in used else 'isolated', r)
    return None


def check_cycle_all(m, pts, faces):
    bedges, loops, where = border_model(len(pts), faces)
    res = B.extract_border_cycle_all(m)
    if len(res) != len(loops):
        return 'extract_border_cycle_all returned %d cycles, the surface has %d border loops (cycle lengths %r, loop lengths %r)' % (
            len(res), len(loops), [len(c) for c in res], sorted(len(l) for l in loops))
    seen = set()
    for k, c in enumerate(res):
        c = [int(v) for v in c]
        if not c or c[0] not in where:
            return 'cycle %d starts at %r, not a border vertex' % (k, c[:1])
        li = where[c[0]]
        if li in seen:
            return 'border loop through vertex %d returned twice' % c[0]
        seen.add(li)
        err = closed_walk_error(m, c, None, bedges, loops[li], 'extract_border_cycle_all cycle %d' % k)
        if err:
            return err
    return None


def _polyline(m, pts, faces):
    bedges, loops, where = border_model(len(pts), faces)
    pl, mp = B.extract_boundary_of_surface(m)
    return bedges, loops, where, pl, {int(k): int(v) for k, v in dict(mp).items()}


def _back_map(pl, mp, where, pts):
    """polyline index -> surface index, accepting either direction of the returned dict; None if neither is a valid map"""
    n = len(pl.vertices)
    P = [tuple(float(x) for x in pl.vertices[i]) for i in range(n)]
    out = []
    for cand, direction in ((mp, 'polyline->surface'), ({v: k for k, v in mp.items()}, 'surface->polyline')):
        if len(cand) == n and sorted(cand) == list(range(n)) and all(0 <= cand[i] < len(pts) and np.allclose(P[i], pts[cand[i]], atol=1e-12) for i in range(n)):
            out.append((cand, direction))
    return out


def check_polyline(m, pts, faces):
    bedges, loops, where, pl, mp = _polyline(m, pts, faces)
    n = len(pl.vertices)
    if n != len(where):
        return 'border polyline has %d vertices, the surface has %d border vertices' % (n, len(where))
    if len(pl.edges) != len(bedges):
        return 'border polyline has %d edges, the surface has %d border edges' % (len(pl.edges), len(bedges))
    if len(mp) != n:
        return 'index map has %d entries for %d polyline vertices' % (len(mp), n)
    if not n:
        return None
    cands = _back_map(pl, mp, where, pts)
    if not cands:
        return 'index map %r is not a bijection between polyline indices 0..%d and surface vertices with equal positions (in either direction)' % (dict(list(mp.items())[:8]), n - 1)
    back = cands[0][0]
    if set(back.values()) != set(where):
        return 'index map covers %r, border vertices are %r' % (sorted(back.values())[:12], sorted(where)[:12])
    got = []
    for a, b in pl.edges:
        a, b = int(a), int(b)
        if not (0 <= a < n and 0 <= b < n):
            return 'polyline edge %r out of range' % ((a, b),)
        got.append((min(back[a], back[b]), max(back[a], back[b])))
    if len(set(got)) != len(got):
        return 'polyline contains a repeated edge'
    if set(got) != bedges:
        return 'polyline edges map back to %r; not border edges: %r; border edges missing: %r' % (sorted(got)[:10], sorted(set(got) - bedges)[:6], sorted(bedges - set(got))[:6])
    return None


def check_polyline_map_direction(m, pts, faces):
    bedges, loops, where, pl, mp = _polyline(m, pts, faces)
    cands = _back_map(pl, mp, where, pts)
    if not cands:
        return 'index map is not valid in either direction'
    if 'polyline->surface' not in [d for _, d in cands]:
        i = next(i for i in range(len(pl.vertices)) if mp.get(i) != cands[0][0][i])
        return ('returned dict maps surface vertex -> polyline index, not polyline index -> surface vertex as documented ("maps a vertex id in the boundary to its '
                'corresponding id in the original mesh"): polyline vertex %d is surface vertex %d but dict[%d] = %r' % (i, cands[0][0][i], i, mp.get(i)))
    return None


def check_polyline_component(m, pts, faces):
    bedges, loops, where, pl, mp = _polyline(m, pts, faces)
    cands = _back_map(pl, mp, where, pts)
    if not cands or not pl.vertices.has_attribute('component'):
        return None if not len(where) else 'no usable map / no component attribute'
    back = cands[0][0]
    comp = pl.vertices.get_attribute('component')
    val = {}
    for i in range(len(pl.vertices)):
        li = where[back[i]]
        c = int(comp[i])
        if val.setdefault(li, c) != c:
            return '[auxiliary] "component" attribute of the polyline: vertices %r of one border loop carry different values (polyline vertex %d -> %d, loop value %d)' % (
                sorted(i2 for i2 in range(len(pl.vertices)) if where[back[i2]] == li)[:8], i, c, val[li])
    if len(set(val.values())) != len(loops):
        return '[auxiliary] "component" attribute of the polyline takes %d distinct values %r on %d border loops' % (len(set(val.values())), sorted(set(val.values())), len(loops))
    return None


def detector(opts):
    return FeatureEdgeDetector(only_border=opts.get('only_border', False), flag_corners=opts.get('flag_corners', True),
                               corner_order=opts.get('corner_order', 4), compute_feature_graph=opts.get('compute_feature_graph', True), verbose=False)


def describe_edge(m, e, pts, faces):
    a, b = (int(x) for x in m.edges[e])
    fs = und_edges(faces).get((min(a, b), max(a, b)), [])
    if len(fs) == 2:
        d = float(np.dot(newell([pts[v] for v in faces[fs[0]]]), newell([pts[v] for v in faces[fs[1]]])))
        return 'edge %d=(%d,%d) interior, normals %.4f deg apart (dot %.6f)' % (e, a, b, math.degrees(math.acos(max(-1, min(1, d)))), d)
    return 'edge %d=(%d,%d) in %d face(s)' % (e, a, b, len(fs))


def check_features(m, pts, faces, declared, opts):
    exp, amb = feature_model(m, pts, faces, declared, opts.get('only_border', False))
    d = detector(opts)
    d.run(m)
    got = {int(e) for e in d.feature_edges}
    dk = {(min(a, b), max(a, b)) for a, b in declared}
    for e in sorted((got ^ exp) - amb):
        a, b = (int(x) for x in m.edges[e])
        return 'feature_edges: %s, declared hard=%s, only_border=%s: %s' % (describe_edge(m, e, pts, faces), (min(a, b), max(a, b)) in dk, opts.get('only_border', False),
                                                                      'flagged but should not be' if e in got else 'not flagged but should be')
    fa = m.edges.get_attribute('feature')
    ga = {e for e in range(len(m.edges)) if fa[e]}
    if ga != got:
        return '"feature" edge attribute marks %r, feature_edges is %r' % (sorted(ga)[:10], sorted(got)[:10])
    va = m.vertices.get_attribute('feature')
    gv = {v for v in range(len(pts)) if va[v]}
    ev = {int(x) for e in got for x in m.edges[e]}
    if gv != ev:
        return '"feature" vertex attribute marks %r, end points of the feature edges are %r' % (sorted(gv)[:10], sorted(ev)[:10])
    return None


def check_derived(m, pts, faces, declared, opts):
    d = detector(opts)
    d.run(m)
    FE = {int(e) for e in d.feature_edges}
    ends = defaultdict(int)
    for e in FE:
        for x in m.edges[e]:
            ends[int(x)] += 1
    FV = {int(v) for v in d.feature_vertices}
    if FV != set(ends):
        return 'feature_vertices %r, end points of feature_edges %r' % (sorted(FV)[:12], sorted(ends)[:12])
    for v in range(len(pts)):
        if int(d.feature_degrees[v]) != ends.get(v, 0):
            return 'feature_degrees[%d] = %d, vertex lies on %d feature edges' % (v, d.feature_degrees[v], ends.get(v, 0))
    if set(int(v) for v in d.local_feat_edges) != FV:
        return 'local_feat_edges has keys %r, feature vertices are %r' % (sorted(d.local_feat_edges)[:12], sorted(FV)[:12])
    for v in sorted(FV):
        ring = [int(e) for e in m.connectivity.vertex_to_edges(v)]
        if any(v not in [int(x) for x in m.edges[e]] for e in ring) or len(set(ring)) != len(ring):
            return 'vertex_to_edges(%d) = %r is not a list of distinct edges at the vertex' % (v, ring)
        if sorted(e for e in ring if e in FE) != sorted(e for e in FE if v in [int(x) for x in m.edges[e]]):
            return 'vertex_to_edges(%d) misses a feature edge' % v
        expl = [i for i, e in enumerate(ring) if e in FE]
        if [int(i) for i in d.local_feat_edges[v]] != expl:
            return 'local_feat_edges[%d] = %r, positions of the feature edges in vertex_to_edges are %r' % (v, list(d.local_feat_edges[v]), expl)
    if opts.get('compute_feature_graph', True):
        g = d._feature_graph
        if g is None:
            return 'feature graph not computed although compute_feature_graph=True'
        if len(g.vertices) != len(FV) or len(g.edges) != len(FE):
            return 'feature graph has %d vertices / %d edges for %d feature vertices / %d feature edges' % (len(g.vertices), len(g.edges), len(FV), len(FE))
        pos = {}
        for v in FV:
            pos.setdefault(tuple(np.round(pts[v], 9)), []).append(v)
        if all(len(l) == 1 for l in pos.values()):
            back = []
            for i in range(len(g.vertices)):
                k = tuple(np.round([float(x) for x in g.vertices[i]], 9))
                if k not in pos:
                    return 'feature graph vertex %d at %r is not a feature vertex of the surface' % (i, k)
                back.append(pos[k][0])
            if len(set(back)) != len(back):
                return 'feature graph repeats a vertex'
            ge = sorted((min(back[int(a)], back[int(b)]), max(back[int(a)], back[int(b)])) for a, b in g.edges)
            se = sorted((min(int(a), int(b)), max(int(a), int(b))) for a, b in (m.edges[e] for e in FE))
            if ge != se:
                return 'feature graph edges %r differ from the feature edges %r' % (ge[:8], se[:8])
            deg = g.vertices.get_attribute('degree')
            for i, v in enumerate(back):
                if int(deg[i]) != ends[v]:
                    return 'feature graph "degree" of vertex %d (surface vertex %d) is %d, expected %d' % (i, v, deg[i], ends[v])
    elif d._feature_graph is not None:
        return 'feature graph computed although compute_feature_graph=False'
    return None


def corner_expect(angle, order):
    """-> expected order k, or None when the angle is within round-off of a rounding tie"""
    x = angle * order / (2 * math.pi)
    if abs(x - math.floor(x) - 0.5) < 1e-7:
        return None
    return max(1, int(math.floor(x + 0.5)))


def check_corners(m, pts, faces, declared, opts):
    d = detector(opts)
    d.run(m)
    FV = {int(v) for v in d.feature_vertices}
    if not opts.get('flag_corners', True):
        if d._corner_pc is not None:
            return 'corner point cloud computed although flag_corners=False'
        return None
    order = opts.get('corner_order', 4)
    ang = angle_sums(pts, faces)
    for v in sorted(FV):
        k = corner_expect(ang[v], order)
        if k is not None and int(d.corners[v]) != k:
            return 'corners[%d] = %r; the angles at the vertex add up to %.6f rad = %.4f x 2pi/%d, expected order %d' % (v, d.corners[v], ang[v], ang[v] * order / (2 * math.pi), order, k)
    for v in range(len(pts)):
        if v not in FV and int(d.corners[v]) != 0:
            return 'corners[%d] = %r for a vertex that is not a feature vertex' % (v, d.corners[v])
    if opts.get('compute_feature_graph', True):
        pc = d._corner_pc
        if pc is None:
            return 'corner point cloud missing'
        expv = sorted(tuple(np.round(pts[v], 9)) for v in FV if 2 * int(d.corners[v]) not in (2 * order, order))
        gotv = sorted(tuple(np.round([float(x) for x in pc.vertices[i]], 9)) for i in range(len(pc.vertices)))
        if expv != gotv:
            return 'corner point cloud has %d points, %d feature vertices have an order different from %d and %g' % (len(gotv), len(expv), order, order / 2)
    return None


def snapshot(d, m, nV):
    return dict(FE=sorted(int(e) for e in d.feature_edges), FV=sorted(int(v) for v in d.feature_vertices),
                deg=[int(d.feature_degrees[v]) for v in range(nV)], loc={int(v): [int(i) for i in l] for v, l in d.local_feat_edges.items()},
                corners=[int(d.corners[v]) for v in range(nV)] if d.flag_corners else None,
                graph=(len(d._feature_graph.vertices), len(d._feature_graph.edges)) if d._feature_graph is not None else None,
                pc=len(d._corner_pc.vertices) if d._corner_pc is not None else None)


def check_rerun(desc):
    """(a) one detector used on a first mesh and then on the case's mesh; (b) the case's mesh analysed first with other options"""
    opts = desc.get('opts', {})
    m, pts, faces, declared = build(desc)
    fresh = detector(opts)
    fresh.run(m)
    ref = snapshot(fresh, m, len(pts))
    first = dict(desc['first'])
    m1 = build(first)[0]
    d = detector(opts)
    d.run(m1)
    m2 = build(desc)[0]
    d.run(m2)
    got = snapshot(d, m2, len(pts))
    for k in ref:
        if ref[k] != got[k]:
            return 'detector reused after a run on %s: %s = %r, a fresh detector gives %r' % (first['mesh'], k, got[k] if k in ('graph', 'pc') else str(got[k])[:80], ref[k] if k in ('graph', 'pc') else str(ref[k])[:80])
    m3 = build(desc)[0]
    d0 = detector(desc.get('first_opts', {}))
    d0.run(m3)
    d1 = detector(opts)
    d1.run(m3)
    got = snapshot(d1, m3, len(pts))
    for k in ref:
        if ref[k] != got[k]:
            bad = ''
            if k == 'corners':
                bad = ' (first difference at vertex %d, feature vertex: %s)' % (next(i for i in range(len(pts)) if ref[k][i] != got[k][i]), next(i for i in range(len(pts)) if ref[k][i] != got[k][i]) in ref['FV'])
            return 'mesh analysed a second time (first with %r, then with %r): %s = %s, on a fresh mesh %s%s' % (desc.get('first_opts', {}), opts, k, str(got[k])[:80], str(ref[k])[:80], bad)
    return None


def run_case(desc):
    old = M.config.sort_neighborhoods
    M.config.sort_neighborhoods = bool(desc.get('sort_neighborhoods', True))
    try:
        chk = desc['check']
        if chk == 'rerun':
            return check_rerun(desc)
        m, pts, faces, declared = build(desc)
        if chk == 'cycle':
            return check_cycle(m, pts, faces)
        if chk == 'cycle_all':
            return check_cycle_all(m, pts, faces)
        if chk == 'polyline':
            return check_polyline(m, pts, faces)
        if chk == 'polyline_map_direction':
            return check_polyline_map_direction(m, pts, faces)
        if chk == 'polyline_component':
            return check_polyline_component(m, pts, faces)
        if chk == 'features':
            return check_features(m, pts, faces, declared, desc.get('opts', {}))
        if chk == 'derived':
            return check_derived(m, pts, faces, declared, desc.get('opts', {}))
        if chk == 'corners':
            return check_corners(m, pts, faces, declared, desc.get('opts', {}))
        return 'unknown check %r' % chk
    except Exception as e:
        import traceback
        tb = traceback.extract_tb(e.__traceback__)
        loc = next(('%s:%d' % (t.filename.split('/repo/')[-1], t.lineno) for t in reversed(tb) if '/repo/' in t.filename), '%s:%d' % (tb[-1].filename, tb[-1].lineno))
        return '%s raised %s: %s (at %s)' % (desc['check'], type(e).__name__, e, loc)
    finally:
        M.config.sort_neighborhoods = old


# --------------------------------------------------------------------------------------------- the family of cases

def border_meshes(seed, thorough):
    L = [
        ('polygon', dict(n=3)), ('polygon', dict(n=4)), ('polygon', dict(n=5)),
        ('grid', dict(nu=2, nv=2, tri=True)), ('grid', dict(nu=2, nv=3, tri=True)), ('grid', dict(nu=3, nv=3, tri=True)),
        ('grid', dict(nu=4, nv=4, tri=True)), ('grid', dict(nu=3, nv=5, tri=True, diag='bd')), ('grid', dict(nu=5, nv=3, tri=True, diag='ac')),
        ('grid', dict(nu=2, nv=6, tri=True)), ('grid', dict(nu=3, nv=4, tri=False)), ('grid', dict(nu=4, nv=5, tri=True, mixed=True)),
        ('grid', dict(nu=5, nv=5, tri=True, removed=[[1, 1]])), ('grid', dict(nu=5, nv=5, tri=True, removed=[[2, 2, 0]])),
        ('grid', dict(nu=6, nv=7, tri=True, removed=[[1, 1], [3, 3], [1, 4, 1]])), ('grid', dict(nu=6, nv=6, tri=False, removed=[[1, 1], [3, 3]])),
        ('grid', dict(nu=5, nv=6, tri=True, removed=[[1, 1], [1, 2], [2, 2]], zamp=0.3, zseed=seed)),
        ('grid', dict(nu=5, nv=5, tri=True, mixed=True, removed=[[2, 2]])),
        ('strip', dict(n=1)), ('strip', dict(n=2)), ('strip', dict(n=5)), ('strip', dict(n=8)),
        ('fan', dict(n=5, closed=True)), ('fan', dict(n=6, closed=False)), ('fan', dict(n=3, closed=True, apex_z=1.0)),
        ('annulus', dict(nr=2, nt=5, tri=True)), ('annulus', dict(nr=2, nt=4, tri=False)), ('annulus', dict(nr=3, nt=6, tri=True)),
        ('prism', dict(n=5, caps=False)), ('prism', dict(n=4, caps=False, tri=True)),
        ('icosa', dict(removed=[0])), ('icosa', dict(removed=[0, 12])), ('icosa', dict(removed=[0, 1, 12])),
        ('tetra', {}), ('octa', {}), ('prism', dict(n=6, caps=True)),
        ('union', dict(parts=[['grid', dict(nu=3, nv=3, tri=True)], ['polygon', dict(n=3)], ['tetra', {}]])),
        ('union', dict(parts=[['annulus', dict(nr=2, nt=4, tri=True)], ['strip', dict(n=4)], ['grid', dict(nu=3, nv=4, tri=False)]], isolated=2)),
        ('union', dict(parts=[['polygon', dict(n=3)], ['polygon', dict(n=4)]])),
        ('dart', dict(rot=0)), ('dart', dict(rot=3)),
    ]
    if thorough:
        L += [('grid', dict(nu=7, nv=9, tri=True, removed=[[1, 1], [1, 3], [3, 2], [4, 5], [2, 6, 0], [5, 1, 1]], zamp=0.2, zseed=seed + 1)),
              ('annulus', dict(nr=4, nt=9, tri=True)), ('strip', dict(n=15)), ('grid', dict(nu=8, nv=8, tri=False, removed=[[1, 1], [1, 3], [1, 5], [3, 1], [5, 5]])),
              ('union', dict(parts=[['icosa', dict(removed=[0, 12])], ['annulus', dict(nr=3, nt=5, tri=False)], ['fan', dict(n=7, closed=False)]], isolated=1)),
              ('prism', dict(n=9, caps=False, tri=True)), ('fan', dict(n=12, closed=False))]
    return L


def feature_meshes(seed, thorough):
    A = lambda *a: list(a)
    L = [
        ('fold', dict(nu=3, nv=6, tri=True, angles=A(59.0, 61.0, 36.0, 38.0))),
        ('fold', dict(nu=3, nv=6, tri=False, angles=A(59.99, 60.01, 36.86, 36.88))),
        ('fold', dict(nu=4, nv=7, tri=True, angles=A(-59.9, -60.1, 45.0, -45.0, 90.0))),
        ('fold', dict(nu=3, nv=7, tri=True, angles=A(0.0, 120.0, -150.0, 25.0, 37.5), diag='bd')),
        ('fold', dict(nu=2, nv=5, tri=True, angles=A(170.0, -36.5, 75.0))),
        ('fold', dict(nu=3, nv=5, tri=False, angles=A(-36.9, 50.0, -62.0))),
        ('grid', dict(nu=5, nv=5, tri=True, zamp=0.7, zseed=seed)),
        ('grid', dict(nu=4, nv=6, tri=True, zamp=1.5, zseed=seed + 1, removed=[[1, 2]])),
        ('grid', dict(nu=4, nv=4, tri=True)),
        ('tetra', {}), ('octa', {}), ('icosa', {}), ('icosa', dict(removed=[0, 12])),
        ('prism', dict(n=5, caps=True)), ('prism', dict(n=7, caps=True)), ('prism', dict(n=8, caps=True, tri=True)), ('prism', dict(n=10, caps=False)),
        ('fan', dict(n=6, closed=True, apex_z=0.4)), ('fan', dict(n=5, closed=False, apex_z=2.0)), ('strip', dict(n=5)),
        ('union', dict(parts=[['fold', dict(nu=3, nv=4, tri=True, angles=A(70.0, 40.0))], ['octa', {}], ['polygon', dict(n=5)]], isolated=1)),
    ]
    if thorough:
        L += [('fold', dict(nu=5, nv=9, tri=True, angles=A(59.999, 60.001, -59.999, -60.001, 36.869, 36.871, -36.869))),
              ('fold', dict(nu=4, nv=8, tri=False, angles=A(30.0, 36.0, 37.0, 45.0, 59.0, 61.0))),
              ('grid', dict(nu=7, nv=7, tri=True, zamp=1.0, zseed=seed + 2)), ('grid', dict(nu=6, nv=6, tri=True, zamp=0.5, zseed=seed + 3, removed=[[2, 2], [4, 1]])),
              ('prism', dict(n=9, caps=True)), ('prism', dict(n=6, caps=True))]
    return L


OPTS = [dict(), dict(only_border=True), dict(flag_corners=False), dict(corner_order=6), dict(corner_order=3, compute_feature_graph=False),
        dict(only_border=True, corner_order=8), dict(corner_order=2), dict(only_border=True, flag_corners=False, compute_feature_graph=False)]


def all_cases(seed, thorough):
    bm = border_meshes(seed, thorough)
    shuffles = [None, seed + 1] + ([seed + 2, seed + 3] if thorough else [])
    for name, params in bm:
        for sh in shuffles:
            for chk in ('cycle', 'cycle_all', 'polyline'):
                yield dict(check=chk, mesh=name, params=params, shuffle=sh, sort_neighborhoods=True)
    yield dict(check='polyline_map_direction', mesh='grid', params=dict(nu=3, nv=3, tri=True), shuffle=None, sort_neighborhoods=True)
    for name, params in [('grid', dict(nu=3, nv=3, tri=True)), ('annulus', dict(nr=3, nt=6, tri=True)), ('union', dict(parts=[['polygon', dict(n=3)], ['polygon', dict(n=4)]]))]:
        yield dict(check='polyline_component', mesh=name, params=params, shuffle=None, sort_neighborhoods=True)
    fm = feature_meshes(seed, thorough)
    hards = [None, dict(mode='raw', seed=seed, p=0.5), dict(mode='attr', seed=seed + 1, p=0.7)]
    for name, params in fm:
        for sh in shuffles[:2]:
            for hi, hard in enumerate(hards):
                for oi, opts in enumerate(OPTS):
                    if not thorough and (oi + hi + (0 if sh is None else 1)) % 2 and oi > 1:
                        continue          # quick tier: half of the secondary option combinations
                    for chk in ('features', 'derived', 'corners'):
                        if chk == 'features' and oi > 1:
                            continue      # the edge set depends on only_border alone
                        yield dict(check=chk, mesh=name, params=params, shuffle=sh, sort_neighborhoods=True, hard=hard, opts=opts)
    # hard_edges entries explicitly set to False are not declared hard edges
    for name, params in [fm[0], fm[3], ('icosa', {})]:
        yield dict(check='features', mesh=name, params=params, shuffle=None, sort_neighborhoods=True, hard=dict(mode='attr_false', seed=2, p=0.3), opts={})
    # planar non-convex quad next to a coplanar triangle (the face normal must not depend on the vertex the face starts with)
    for rot in range(4):
        for chk in ('features', 'corners'):
            yield dict(check=chk, mesh='dart', params=dict(rot=rot), shuffle=None, sort_neighborhoods=True, hard=None, opts={})
    # state carried from one run to the next
    for (name, params), fopts, opts in [(fm[0], {}, dict(only_border=True)), (fm[2], dict(corner_order=6), {}), (fm[11], dict(only_border=True), dict(corner_order=3)),
                                        (fm[6], dict(flag_corners=False), dict(compute_feature_graph=False))]:
        yield dict(check='rerun', mesh=name, params=params, shuffle=None, sort_neighborhoods=True, hard=dict(mode='raw', seed=0, p=0.5), opts=opts, first_opts=fopts,
                   first=dict(mesh='grid', params=dict(nu=6, nv=6, tri=True, zamp=1.0, zseed=3), shuffle=None, hard=dict(mode='raw', seed=1, p=0.9)))
    # random members: grids with random non-touching holes (cells with odd coordinates), random height fields, random declared edges
    rnd = random.Random(seed * 7919 + 13)
    for k in range(40 if thorough else 8):
        nu, nv = rnd.randint(3, 8), rnd.randint(3, 8)
        odd = [[i, j] for i in range(1, nu - 2, 2) for j in range(1, nv - 2, 2)]
        removed = [c if rnd.random() < 0.6 else c + [rnd.randrange(2)] for c in odd if rnd.random() < 0.5]
        tri = rnd.random() < 0.7
        removed = [c for c in removed if tri or len(c) == 2]
        params = dict(nu=nu, nv=nv, tri=tri, removed=removed, diag=rnd.choice(['alt', 'ac', 'bd']), zamp=rnd.choice([0.0, 0.3, 0.8, 1.5]) if tri else 0.0, zseed=rnd.randrange(1000))
        sh = rnd.choice([None, rnd.randrange(1000)])
        for chk in ('cycle', 'cycle_all', 'polyline'):
            yield dict(check=chk, mesh='grid', params=params, shuffle=sh, sort_neighborhoods=True)
        hard = rnd.choice([None, dict(mode='raw', seed=rnd.randrange(1000), p=0.5), dict(mode='attr', seed=rnd.randrange(1000), p=0.8)])
        opts = rnd.choice(OPTS)
        for chk in ('features', 'derived', 'corners'):
            yield dict(check=chk, mesh='grid', params=params, shuffle=sh, sort_neighborhoods=True, hard=hard, opts=opts)
    # unsorted neighbourhoods (config.sort_neighborhoods = False): the statement does not fix the switch
    for name, params in [('grid', dict(nu=4, nv=4, tri=True)), ('annulus', dict(nr=2, nt=5, tri=True)), ('grid', dict(nu=3, nv=4, tri=False)), ('polygon', dict(n=5))]:
        for chk in ('cycle', 'cycle_all', 'polyline'):
            yield dict(check=chk, mesh=name, params=params, shuffle=None, sort_neighborhoods=False)
    for name, params in fm[:2]:
        for chk in ('features', 'derived', 'corners'):
            yield dict(check=chk, mesh=name, params=params, shuffle=None, sort_neighborhoods=False, hard=hards[1], opts={})


def norm(d):
    d = json.loads(json.dumps(d, default=str))
    d.pop('error', None)
    return d


def validate_family(seed, thorough):
    """every member of the family must be a consistently oriented manifold surface (isolated vertices allowed)"""
    members = {json.dumps([d['mesh'], d['params']], sort_keys=True) for d in all_cases(seed, thorough)}
    for name, params in (json.loads(x) for x in sorted(members)):
        pts, faces = raw_lists(dict(mesh=name, params=params))
        pr = [p for p in analyse(len(pts), faces)['problems'] if not p.startswith('unused vertices')]
        if pr:
            respond(failing=None, cases=0, note='ORACLE ERROR: family member %s %r is not a manifold surface: %r' % (name, params, pr[:3]))


def main():
    req = read_request()
    seed = int(req.get('seed', 0) or 0)
    thorough = req.get('tier') == 'thorough'
    known = [norm(k) for k in (req.get('known') or [])]
    if req.get('mode') == 'replay':
        case = norm(req['case'])
        err = run_case(case)
        if err:
            case['error'] = err
            respond(failing=case, cases=1)
        respond(failing=None, cases=1)
    validate_family(seed, thorough)
    focus = (req.get('function') or '') if req.get('mode') == 'search' else ''
    only = None
    if 'features' in focus or 'Feature' in focus:
        only = ('features', 'derived', 'corners', 'rerun')
    elif 'border' in focus or 'boundary' in focus:
        only = ('cycle', 'cycle_all', 'polyline', 'polyline_component', 'polyline_map_direction')
    n, hits = 0, []
    for desc in all_cases(seed, thorough):
        if only and desc['check'] not in only:
            continue
        desc = norm(desc)
        n += 1
        err = run_case(desc)
        if err:
            if desc in known:
                hits.append(desc)
                continue
            desc['error'] = err
            respond(failing=desc, cases=n, known_hit=hits)
    respond(failing=None, cases=n, known_hit=hits)


main()
