"""C07 native oracle: every geometric attribute against its textbook definition (computed here with plain numpy from
the raw vertex / face / cell lists), for every option, plus invariance under rigid motion / renumbering / face rotation,
scaling powers, angle sums, Gauss-Bonnet and interpolation of constants.

Case descriptor (all cases carry the same keys):
    mesh      : name of the family member (rebuilt from name + seed)
    seed      : seed used for the family
    opts      : {'persistent','dense','order'}  options passed to every library function, order of the calls
    transform : None or {'rot','scale','shift','perm','facerot'}  the motion / renumbering applied to the family member
    check     : the clause (function name [+ option] [+ ':invariance'])
    error     : first violation of that clause (observed vs expected)
A "known" entry matches a descriptor when every key it carries (except 'error') has the same value in the descriptor, so a
full descriptor matches exactly itself and a partial one (e.g. {"mesh": "concave"}) matches the whole class.

Clauses: definition of edge_length, edge_middle_point, degree, face_area, face_normals (+unit), face_barycenter,
face_circumcenter (+equidistance, in plane), corner_angles (+sum (n-2) pi per face), cotangent, cotan_weights, angle_defects
(zero_border on/off, sum = 2 pi chi, euler_characteristic), vertex_normals (uniform/area/angle, custom_fnormals, unit),
cell_volume, cell_barycenter, mean_edge_length/mean_face_area/mean_cell_volume (n = None, 1, half, all), total_area,
barycenter; interpolation of constants (scalar / vector, every weight, every direction) and of random attributes against
the weighted means; persistent=True stores the same values under the default name, persistent=False leaves nothing behind;
every quantity on the moved / renumbered / face-rotated / scaled mesh against the transformed quantity of the original;
direct calls of the geometry.* primitives.  Options: persistent x dense x (call order forward / reverse, which decides
whether the cached 'angles', 'cotan', 'area', 'normals' attributes exist when a dependent function runs).
Outside the statement (not checked): mean_*(n > number of elements), triangle_aspect_ratio, border_normals,
curvature_matrices, face_near_border, cell_faces_on_boundary, non triangular input of the triangle-only functions."""
import math, random, itertools
import numpy as np
from replay.common import *
from replay.meshcheck import analyse
import mouette as M
from mouette import attributes as A

TOL = 1e-8
PI = math.pi


# ------------------------------------------------------------------------------------------------ families

def rotation(seed):
    rs = np.random.RandomState(seed)
    q, r = np.linalg.qr(rs.randn(3, 3))
    q = q * np.sign(np.diag(r))
    if np.linalg.det(q) < 0:
        q[:, 0] = -q[:, 0]
    return q


def linmap(seed):
    """well conditioned linear map (keeps planarity and convexity of faces)"""
    rs = np.random.RandomState(seed)
    return rotation(seed + 11) @ np.diag([1.0, 0.6 + 0.3 * rs.rand(), 1.3 + 0.4 * rs.rand()]) @ rotation(seed + 12)


def tri_grid(nu, nv, jit, rs, flat=False):
    V = []
    for i in range(nu):
        for j in range(nv):
            d = rs.randn(3) * jit
            if flat:
                d[2] = 0
            V.append((i + d[0], j + d[1], d[2]))
    F = []
    for i in range(nu - 1):
        for j in range(nv - 1):
            a, b, c, d = i * nv + j, i * nv + j + 1, (i + 1) * nv + j + 1, (i + 1) * nv + j
            F += [(a, c, b), (a, d, c)] if (i + j) % 2 == 0 else [(a, d, b), (b, d, c)]
    return np.array(V, float), F


def quad_grid(nu, nv, jit, rs, flat=True):
    V, _ = tri_grid(nu, nv, jit, rs, flat)
    F = [(i * nv + j, (i + 1) * nv + j, (i + 1) * nv + j + 1, i * nv + j + 1) for i in range(nu - 1) for j in range(nv - 1)]
    return V, F


def ring(nr, nt, rs, jit, closed_u=False, tri=True):
    """nr x nt lattice periodic in t (annulus / cylinder), optionally also in r (torus)"""
    V = []
    for i in range(nr):
        for j in range(nt):
            t = 2 * PI * (j + 0.25 * rs.rand()) / nt
            if closed_u:
                u = 2 * PI * (i + 0.25 * rs.rand()) / nr
                V.append(((2 + 0.8 * math.cos(u)) * math.cos(t), (2 + 0.8 * math.cos(u)) * math.sin(t), 0.8 * math.sin(u)))
            else:
                r = 1 + 0.7 * i + 0.1 * rs.rand()
                V.append((r * math.cos(t), r * math.sin(t), jit * rs.randn()))
    F = []
    for i in range(nr if closed_u else nr - 1):
        for j in range(nt):
            a, b = i * nt + j, i * nt + (j + 1) % nt
            c, d = ((i + 1) % nr) * nt + (j + 1) % nt, ((i + 1) % nr) * nt + j
            if tri:
                F += [(a, b, c), (a, c, d)] if (i + j) % 2 else [(a, b, d), (b, c, d)]
            else:
                F.append((a, b, c, d))
    return np.array(V, float), F


def cylinder(nh, nt, rs):
    V = []
    for i in range(nh):
        for j in range(nt):
            t = 2 * PI * (j + 0.3 * rs.rand()) / nt
            V.append((math.cos(t), math.sin(t), 0.8 * i + 0.1 * rs.rand()))
    F = []
    for i in range(nh - 1):
        for j in range(nt):
            a, b, c, d = i * nt + j, i * nt + (j + 1) % nt, (i + 1) * nt + (j + 1) % nt, (i + 1) * nt + j
            F += [(a, b, c), (a, c, d)]
    return np.array(V, float), F


def platonic(which):
    if which == 'tetra':
        return np.array([(1, 1, 1), (1, -1, -1), (-1, 1, -1), (-1, -1, 1)], float), [(0, 1, 2), (0, 3, 1), (0, 2, 3), (1, 3, 2)]
    if which == 'octa':
        V = np.array([(1, 0, 0), (-1, 0, 0), (0, 1, 0), (0, -1, 0), (0, 0, 1), (0, 0, -1)], float)
        return V, [(0, 2, 4), (2, 1, 4), (1, 3, 4), (3, 0, 4), (2, 0, 5), (1, 2, 5), (3, 1, 5), (0, 3, 5)]
    g = (1 + 5 ** 0.5) / 2
    V = np.array([(-1, g, 0), (1, g, 0), (-1, -g, 0), (1, -g, 0), (0, -1, g), (0, 1, g), (0, -1, -g), (0, 1, -g), (g, 0, -1), (g, 0, 1), (-g, 0, -1), (-g, 0, 1)], float)
    F = [(0, 11, 5), (0, 5, 1), (0, 1, 7), (0, 7, 10), (0, 10, 11), (1, 5, 9), (5, 11, 4), (11, 10, 2), (10, 7, 6), (7, 1, 8),
         (3, 9, 4), (3, 4, 2), (3, 2, 6), (3, 6, 8), (3, 8, 9), (4, 9, 5), (2, 4, 11), (6, 2, 10), (8, 6, 7), (9, 8, 1)]
    return V, F


CUBE_V = np.array([(0, 0, 0), (1, 0, 0), (1, 1, 0), (0, 1, 0), (0, 0, 1), (1, 0, 1), (1, 1, 1), (0, 1, 1)], float)
CUBE_Q = [(0, 3, 2, 1), (4, 5, 6, 7), (0, 1, 5, 4), (1, 2, 6, 5), (2, 3, 7, 6), (3, 0, 4, 7)]


def convex_ngon(n, rs):
    ang = np.sort((np.arange(n) + 0.5 * rs.rand(n)) * 2 * PI / n)
    return np.array([(1.3 * math.cos(t), 0.9 * math.sin(t), 0.0) for t in ang])


def prism(n, rs, top=True, bottom=True, split=()):
    base = convex_ngon(n, rs)
    V = np.vstack([base, base + np.array([0.2, 0.1, 1.1])])
    F = []
    if bottom:
        F.append(tuple(range(n - 1, -1, -1)))
    if top:
        F.append(tuple(range(n, 2 * n)))
    for k in range(n):
        a, b, c, d = k, (k + 1) % n, n + (k + 1) % n, n + k
        F += [(a, b, c), (a, c, d)] if k in split else [(a, b, c, d)]
    return V, F


def pyramid(n, rs):
    base = convex_ngon(n, rs)
    V = np.vstack([base, [[0.1, -0.1, 1.2]]])
    return V, [tuple(range(n - 1, -1, -1))] + [(k, (k + 1) % n, n) for k in range(n)]


def honeycomb(rs):
    key, V, F = {}, [], []
    for (q, r) in [(0, 0), (1, 0), (0, 1), (1, 1), (2, 0)]:
        cx, cy = 1.5 * q, math.sqrt(3) * (r + 0.5 * q)
        f = []
        for k in range(6):
            p = (round(cx + math.cos(k * PI / 3), 6), round(cy + math.sin(k * PI / 3), 6))
            if p not in key:
                key[p] = len(V)
                V.append((p[0] + 0.08 * rs.randn(), p[1] + 0.08 * rs.randn(), 0.0))
            f.append(key[p])
        F.append(tuple(f))
    return np.array(V, float), F


def concave():
    """planar mesh with a dart quad (reflex corner listed second), an L-shaped hexagon and two triangles"""
    V = np.array([(2.5, 2.5, 0), (3, 0, 0), (1, 3, 0), (0, 0, 0), (3, 3, 0), (4, 0, 0), (4, 4, 0), (1, 4, 0)], float)
    F = [(0, 3, 1), (0, 2, 3), (2, 0, 1, 4), (1, 5, 6, 7, 2, 4)]
    return V, F


def merge(parts):
    V, F, off = [], [], 0
    for k, (v, f) in enumerate(parts):
        V.append(v + np.array([6.0 * k, 0, 0]))
        F += [tuple(int(x) + off for x in t) for t in f]
        off += len(v)
    return np.vstack(V), F


def kuhn(n):
    idx = lambda i, j, k: (i * (n + 1) + j) * (n + 1) + k
    V = [(float(i), float(j), float(k)) for i in range(n + 1) for j in range(n + 1) for k in range(n + 1)]
    C = []
    for i in range(n):
        for j in range(n):
            for k in range(n):
                for perm in itertools.permutations(range(3)):
                    p = [i, j, k]
                    vs = [idx(*p)]
                    for ax in perm:
                        p[ax] += 1
                        vs.append(idx(*p))
                    C.append(tuple(vs))
    return np.array(V), C


def surface_family(seed, thorough):
    """yields (name, V, F, flags); flags: planar (every face planar), convex (every face convex)"""
    def rs(k):
        return np.random.RandomState(1000 * seed + k)
    T = dict(planar=True, convex=True)
    yield 'tri_single', rs(1).randn(3, 3), [(0, 1, 2)], T
    yield 'tri_grid_3x5', *tri_grid(3, 5, 0.18, rs(2)), T
    V, F = tri_grid(4, 3, 0.0, rs(3))
    yield 'tri_grid_flat_4x3', V, F, T                      # right angles (cot = 0), ties
    V = np.round(2 * V)
    V[:, 2] = [(3 * k) % 4 for k in range(len(V))]
    yield 'tri_grid_int_4x3', V, F, dict(planar=True, convex=True, ints=True)
    yield 'annulus_tri_3x7', *ring(3, 7, rs(4), 0.15), T       # two border loops
    yield 'torus_tri_4x5', *ring(4, 5, rs(5), 0, closed_u=True), T
    for w in ('tetra', 'octa', 'icosa'):
        V, F = platonic(w)
        yield w, (V + 0.12 * rs(6).randn(*V.shape)) @ linmap(seed + 6).T, F, T
    yield 'cube_tri', CUBE_V @ linmap(seed + 7).T, [t for (a, b, c, d) in CUBE_Q for t in ((a, b, c), (a, c, d))], T
    Vt, Ft = platonic('tetra')
    yield 'multi_comp', *merge([(Vt, Ft), tri_grid(3, 3, 0.15, rs(8)), ring(2, 5, rs(9), 0.1), (rs(10).randn(3, 3), [(0, 1, 2)])]), T
    yield 'cylinder_tri_3x5', *cylinder(3, 5, rs(11)), T
    # two sheets meeting along a seam: the seam vertices are duplicated (same position, different index)
    Va, Fa = tri_grid(3, 3, 0.0, rs(11))
    Vs = np.vstack([Va, Va + np.array([2.0, 0, 0])])
    Vs[:, 2] = 0.3 * np.sin(1.3 * Vs[:, 0] + 0.7 * Vs[:, 1])
    yield 'seam_duplicated_vertices', Vs, Fa + [tuple(v + len(Va) for v in f) for f in Fa], T
    # fan with obtuse and thin (about 12 degrees) triangles around an interior vertex, plus a border fan
    ang = np.cumsum([0.2, 2.2, 0.25, 1.3, 0.9, 1.0])
    V = np.array([(0, 0, 0.4)] + [((1 + 0.5 * (k % 2)) * math.cos(t), (1 + 0.5 * (k % 2)) * math.sin(t), 0) for k, t in enumerate(ang)])
    yield 'fan_obtuse', V, [(0, 1 + k, 1 + (k + 1) % 6) for k in range(6)], T
    yield 'fan_open', V[:6], [(0, 1 + k, 2 + k) for k in range(4)], T
    # quads
    V, F = quad_grid(3, 4, 0.12, rs(12), flat=True)
    yield 'quad_grid_planar_3x4', V @ linmap(seed + 13).T, F, T
    yield 'cube_quad', CUBE_V @ linmap(seed + 14).T + 0.3, CUBE_Q, T
    yield 'quad_single', convex_ngon(4, rs(15)) @ linmap(seed + 15).T, [(0, 1, 2, 3)], T
    yield 'quad_grid_bent_3x4', *quad_grid(3, 4, 0.15, rs(16), flat=False), dict(planar=False, convex=True)
    yield 'quad_torus_3x4', *ring(3, 4, rs(17), 0, closed_u=True, tri=False), dict(planar=False, convex=True)
    # polygons / mixed arities
    for n, k in ((5, 18), (7, 19)):
        V, F = prism(n, rs(k))
        yield 'prism%d' % n, V @ linmap(seed + k).T, F, T
    V, F = prism(6, rs(20), top=False, split=(1, 4))
    yield 'prism6_open_mixed', V @ linmap(seed + 20).T, F, T
    V, F = prism(5, rs(21), top=False, bottom=False)
    yield 'prism5_tube', V @ linmap(seed + 21).T, F, T
    V, F = pyramid(5, rs(22))
    yield 'pyramid5', V @ linmap(seed + 22).T, F, T
    yield 'penta_single', convex_ngon(5, rs(23)) @ linmap(seed + 23).T, [(0, 1, 2, 3, 4)], T
    V, F = honeycomb(rs(24))
    yield 'honeycomb', V @ linmap(seed + 24).T, F, T
    V, F = concave()
    yield 'concave', V @ rotation(seed + 25).T, F, dict(planar=True, convex=False)
    V, F = tri_grid(3, 3, 0.0, rs(26))
    V[:, 2] = [(3 * k) % 4 for k in range(len(V))]
    yield 'tri_grid_int_big_3x3', np.round(V * 30000), F, dict(planar=True, convex=True, ints=True)    # integer typed coordinates of size 1e5
    if thorough:
        yield 'tri_grid_6x4', *tri_grid(6, 4, 0.2, rs(30)), T
        yield 'torus_tri_3x8', *ring(3, 8, rs(31), 0, closed_u=True), T
        yield 'annulus_tri_4x9', *ring(4, 9, rs(32), 0.2), T
        V, F = quad_grid(5, 3, 0.1, rs(33), flat=True)
        yield 'quad_grid_planar_5x3', V @ linmap(seed + 33).T, F, T
        V, F = prism(9, rs(34), split=(0, 3, 4))
        yield 'prism9_mixed', V @ linmap(seed + 34).T, F, T
        Vi, Fi = platonic('icosa')
        yield 'multi_comp2', *merge([(Vi, Fi), ring(4, 5, rs(35), 0, closed_u=True), cylinder(2, 4, rs(36)), tri_grid(2, 6, 0.1, rs(37))]), T


def volume_family(seed, thorough):
    def rs(k):
        return np.random.RandomState(2000 * seed + k)

    def scramble(C, r):
        out = []
        for c in C:
            c = list(c)
            r.shuffle(c)
            out.append(tuple(int(x) for x in c))
        return out
    yield 'tet_single', rs(1).randn(4, 3), [(0, 1, 2, 3)]
    yield 'tet_single_flipped', rs(1).randn(4, 3), [(1, 0, 2, 3)]
    V = np.array([(0, 0, 0), (1, 0, 0), (0, 1, 0), (0.2, 0.2, 1), (0.3, 0.3, -1.2)], float)
    yield 'tet_pair', V @ linmap(seed + 2).T, [(0, 1, 2, 3), (0, 2, 1, 4)]
    V = np.array([(1, 0, 0), (0, 1, 0), (-1, 0, 0), (0, -1, 0), (0, 0, 1), (0, 0, -1)], float) + 0.1 * rs(3).randn(6, 3)
    yield 'octa4', V, scramble([(4, 5, k, (k + 1) % 4) for k in range(4)], rs(4))
    V, C = kuhn(1)
    yield 'kuhn1', (V + 0.1 * rs(5).randn(*V.shape)) @ linmap(seed + 5).T, scramble(C, rs(6))
    yield 'kuhn1_int', 2 * V + np.array([[(k * 7) % 2, 0, (k * 3) % 2] for k in range(len(V))]), scramble(C, rs(6))
    if thorough:
        V, C = kuhn(2)
        yield 'kuhn2', (V + 0.12 * rs(7).randn(*V.shape)) @ linmap(seed + 7).T, scramble(C, rs(8))


def line_family(seed, thorough):
    rs = np.random.RandomState(3000 * seed + 1)
    yield 'chain3d', rs.randn(6, 3), [(0, 1), (2, 1), (2, 3), (4, 3), (4, 5)]
    yield 'graph3d', rs.randn(7, 3), [(0, 1), (1, 2), (2, 0), (2, 3), (3, 4), (5, 3), (6, 3), (0, 6)]
    # 2-D input: a finished mesh has 3-D vertices (C02), so the reference geometry is the input padded with z = 0
    yield 'chain2d', np.hstack([rs.randn(5, 2), np.zeros((5, 1))]), [(0, 1), (1, 2), (3, 2), (3, 4)]


def transforms(thorough):
    t = [dict(rot=1, scale=1.0, shift=True, perm=None, facerot=None),      # rigid motion only
         dict(rot=None, scale=1.0, shift=False, perm=2, facerot=3),          # renumbering + face rotation only
         dict(rot=None, scale=2.5, shift=False, perm=None, facerot=None),    # scale only
         dict(rot=4, scale=0.01, shift=True, perm=5, facerot=6),             # everything
         dict(rot=None, scale=1e-7, shift=False, perm=None, facerot=None)]   # very small uniform scale
    if thorough:
        t += [dict(rot=7, scale=1000.0, shift=True, perm=8, facerot=9),
              dict(rot=None, scale=1.0, shift=False, perm=None, facerot=10),
              dict(rot=11, scale=1e-4, shift=False, perm=12, facerot=None),
              dict(rot=None, scale=1e7, shift=False, perm=None, facerot=None)]
    return t


def apply_transform(kind, V, E, tr):
    """-> V2, E2, vmap (old vertex -> new vertex), affine (R, s, t). E: faces / cells / edges (lists of tuples)"""
    n, dim = V.shape
    R = rotation(tr['rot']) if tr['rot'] is not None else np.eye(3)
    if dim == 2:
        c, s_ = math.cos(0.7 * (tr['rot'] or 0)), math.sin(0.7 * (tr['rot'] or 0))
        R = np.array([[c, -s_], [s_, c]])
    s = float(tr['scale'])
    L = float(np.abs(V).max())
    t = (np.array([0.7, -1.3, 0.4])[:dim] * L * s) if tr['shift'] else np.zeros(dim)
    perm = list(range(n))
    order = list(range(len(E)))
    if tr['perm'] is not None:
        r = random.Random(tr['perm'])
        r.shuffle(perm)
        r.shuffle(order)
    V2 = np.zeros_like(V)
    for old, new in enumerate(perm):
        V2[new] = s * (R @ V[old]) + t
    r = random.Random(tr['facerot'] if tr['facerot'] is not None else 0)
    E2 = []
    for j in order:
        e = [perm[v] for v in E[j]]
        if tr['facerot'] is not None:
            if kind == 'surf':
                k = r.randrange(len(e))
                e = e[k:] + e[:k]
            elif kind == 'vol':
                r.shuffle(e)
            else:
                if r.random() < 0.5:
                    e = e[::-1]
        E2.append(tuple(e))
    return V2, E2, perm, (R, s, t)


def build(kind, V, E, ints=False):
    raw = M.mesh.RawMeshData()
    if ints and np.all(V == np.round(V)):
        raw.vertices += [M.Vec(*[int(x) for x in p]) for p in V]      # integer coordinates typed by hand
    else:
        raw.vertices += [M.Vec(*[float(x) for x in p]) for p in V]
    if kind == 'surf':
        raw.faces += [tuple(int(x) for x in f) for f in E]
        return M.mesh.SurfaceMesh(raw)
    if kind == 'vol':
        raw.cells += [tuple(int(x) for x in c) for c in E]
        return M.mesh.VolumeMesh(raw)
    if kind == 'cloud':
        return M.mesh.PointCloud(raw)
    raw.edges += [tuple(int(x) for x in e) for e in E]
    return M.mesh.PolyLine(raw)


# ------------------------------------------------------------------------------------------------ independent definitions

def unit(v):
    return v / np.linalg.norm(v)


def kahan_angle(u, v):
    u, v = unit(u), unit(v)
    return 2 * math.atan2(np.linalg.norm(u - v), np.linalg.norm(u + v))


def poly_area_vector(P):
    return 0.5 * sum(np.cross(P[i], P[(i + 1) % len(P)]) for i in range(len(P)))


def tri_circumcenter(A_, B_, C_):
    a, b = A_ - C_, B_ - C_
    x = np.cross(a, b)
    return C_ + np.cross(np.dot(a, a) * b - np.dot(b, b) * a, x) / (2 * np.dot(x, x))


def fkey(f):
    return tuple(sorted(int(x) for x in f))


class Spec:
    """textbook quantities from raw (V, faces)"""

    def __init__(self, V, F):
        self.V, self.F = V, [tuple(int(x) for x in f) for f in F]
        nV = len(V)
        self.avec = [poly_area_vector([V[v] for v in f]) for f in self.F]
        self.area = [float(np.linalg.norm(a)) for a in self.avec]
        self.normal = [a / np.linalg.norm(a) for a in self.avec]
        self.bary = [np.mean([V[v] for v in f], axis=0) for f in self.F]
        self.angle = []
        for fi, f in enumerate(self.F):
            n = len(f)
            row = []
            for i in range(n):
                e1, e0 = V[f[(i + 1) % n]] - V[f[i]], V[f[i - 1]] - V[f[i]]
                th = kahan_angle(e1, e0)
                if np.dot(self.normal[fi], np.cross(e1, e0)) < 0:       # reflex corner of a concave face
                    th = 2 * PI - th
                row.append(th)
            self.angle.append(row)
        und = {}
        for f in self.F:
            for i in range(len(f)):
                k = (min(f[i], f[(i + 1) % len(f)]), max(f[i], f[(i + 1) % len(f)]))
                und[k] = und.get(k, 0) + 1
        self.und = und
        self.border_v = {v for k, c in und.items() if c == 1 for v in k}
        self.nbrs = [set() for _ in range(nV)]
        for a, b in und:
            self.nbrs[a].add(b); self.nbrs[b].add(a)
        self.vfaces = [[] for _ in range(nV)]          # (face, local index)
        for fi, f in enumerate(self.F):
            for i, v in enumerate(f):
                self.vfaces[v].append((fi, i))
        self.first = [0]
        for f in self.F:
            self.first.append(self.first[-1] + len(f))

    def cot(self, fi, i):
        th = self.angle[fi][i]
        return math.cos(th) / math.sin(th)


def arr(x):
    return np.atleast_1d(np.asarray(x, dtype=float))


def bad(got, exp, unit_):
    got, exp = arr(got), arr(exp)
    if got.shape != exp.shape:
        return True
    if not np.all(np.isfinite(got)):
        return True
    return bool(np.any(np.abs(got - exp) > TOL * unit_))


def fmt(x):
    x = arr(x)
    return repr([float('%.10g' % t) for t in x.tolist()]) if x.size > 1 else '%.12g' % float(x[0])


# ------------------------------------------------------------------------------------------------ one pass over a mesh

OWN_NAMES = {'length', 'middle', 'cotan_weight', 'degree', 'angleDefect', 'normals', 'area', 'barycenter', 'circumcenter', 'angles', 'cotan', 'volume'}


class Pass:
    """runs every library function once on mesh m with the given options and checks the definitions.
    self.store[check] = (element kind, value kind, scale power, {element key: value}) for the invariance comparison"""

    def __init__(self, kind, V, E, flags, opts):
        self.kind, self.V, self.E, self.flags, self.opts = kind, V, E, flags, opts
        self.m = build(kind, V, E, flags.get('ints', False))
        self.kw = dict(persistent=opts['persistent'], dense=opts['dense'])
        self.L = float(np.abs(V).max())
        self.store = {}
        if kind == 'surf':
            self.S = Spec(V, E)
        elif kind == 'vol':
            self.S = Spec(V, [tuple(f) for f in self.m.faces])     # faces of a volume mesh are generated by the library: raw data

    # ---- helpers
    def per_element(self, check, attr, elems, expected, power, ekind, vkind, what, where=None):
        """elems: list of (library index, key, description); where = (container, default attribute name)"""
        vals = {}
        err = None
        if attr is None:
            return '%s: the function returned None' % check
        if where is not None and self.opts['persistent']:
            cont, nm = where
            if not cont.has_attribute(nm):
                return "persistent=True but the mesh carries no attribute '%s' on %s afterwards" % (nm, cont.id)
            stored = cont.get_attribute(nm)
            for (i, key, desc) in elems:
                if not np.array_equal(arr(stored[i]), arr(attr[i]), equal_nan=True):
                    return "persistent=True: stored attribute '%s' holds %s for %s, the returned attribute holds %s" % (nm, fmt(stored[i]), desc, fmt(attr[i]))
        for (i, key, desc), exp in zip(elems, expected):
            got = attr[i]
            vals[key] = arr(got).copy()
            if exp is not None and err is None and bad(got, exp, max(self.L, 1e-300) ** power if power else 1.0):
                err = '%s of %s = %s, definition gives %s' % (what, desc, fmt(got), fmt(exp))
        self.store[check] = (ekind, vkind, power, vals)
        return err

    def velems(self):
        return [(v, v, 'vertex %d' % v) for v in range(len(self.V))]

    def eelems(self):
        return [(e, fkey(ab), 'edge %d %r' % (e, tuple(ab))) for e, ab in enumerate(self.m.edges)]

    def felems(self):
        return [(f, fkey(F), 'face %d %r' % (f, tuple(F))) for f, F in enumerate(self.m.faces)]

    def celems(self):
        out = []
        for f, F in enumerate(self.m.faces):
            for i, v in enumerate(F):
                out.append((self.S.first[f] + i, (fkey(F), int(v)), 'corner %d (vertex %d of face %d %r)' % (self.S.first[f] + i, v, f, tuple(F))))
        return out

    def kelems(self):
        return [(c, fkey(C), 'cell %d %r' % (c, tuple(C))) for c, C in enumerate(self.m.cells)]

    def is_tri(self):
        return all(len(f) == 3 for f in self.S.F)

    # ---- checks (each returns None or an error string)
    def c_edge_length(self):
        m, V = self.m, self.V
        if self.kind == 'surf' and {fkey(e) for e in m.edges} != set(self.S.und):
            return 'edge container %r differs from the sides of the faces' % (list(m.edges),)
        at = A.edge_length(m, **self.kw)
        return self.per_element('edge_length', at, self.eelems(), [np.linalg.norm(V[a] - V[b]) for a, b in m.edges], 1, 'E', 's', 'length', (m.edges, 'length'))

    def c_edge_middle_point(self):
        m, V = self.m, self.V
        at = A.edge_middle_point(m, **self.kw)
        return self.per_element('edge_middle_point', at, self.eelems(), [0.5 * (V[a] + V[b]) for a, b in m.edges], 1, 'E', 'p', 'middle point', (m.edges, 'middle'))

    def c_degree(self):
        m = self.m
        nb = [set() for _ in self.V]
        if self.kind == 'line':
            pairs = [tuple(e) for e in self.E]
        elif self.kind == 'surf':
            pairs = list(self.S.und)
        else:
            pairs = [p for c in self.E for p in itertools.combinations(c, 2)]
        for a, b in pairs:
            nb[a].add(b); nb[b].add(a)
        at = A.degree(m, **self.kw)
        return self.per_element('degree', at, self.velems(), [len(s) for s in nb], 0, 'V', 's', 'degree', (m.vertices, 'degree'))

    def c_face_area(self):
        at = A.face_area(self.m, **self.kw)
        exp = self.S.area if self.flags['planar'] else [None] * len(self.S.F)
        return self.per_element('face_area', at, self.felems(), exp, 2, 'F', 's', 'area', (self.m.faces, 'area'))

    def c_face_normals(self):
        at = A.face_normals(self.m, **self.kw)
        exp = self.S.normal if self.flags['planar'] else [None] * len(self.S.F)
        err = self.per_element('face_normals', at, self.felems(), exp, 0, 'F', 'v', 'unit normal', (self.m.faces, 'normals'))
        if err is None:
            for f in range(len(self.S.F)):
                if abs(np.linalg.norm(arr(at[f])) - 1) > TOL:
                    return 'normal of face %d has norm %.12g' % (f, np.linalg.norm(arr(at[f])))
        return err

    def c_face_barycenter(self):
        at = A.face_barycenter(self.m, **self.kw)
        return self.per_element('face_barycenter', at, self.felems(), self.S.bary, 1, 'F', 'p', 'barycentre', (self.m.faces, 'barycenter'))

    def c_face_circumcenter(self):
        V = self.V
        at = A.face_circumcenter(self.m, **self.kw)
        err = self.per_element('face_circumcenter', at, self.felems(), [tri_circumcenter(*(V[v] for v in f)) for f in self.S.F], 1, 'F', 'p', 'circumcentre', (self.m.faces, 'circumcenter'))
        if err is None:
            for f, F in enumerate(self.S.F):
                d = [np.linalg.norm(arr(at[f]) - V[v]) for v in F]
                if max(d) - min(d) > 100 * TOL * self.L or abs(np.dot(arr(at[f]) - V[F[0]], self.S.normal[f])) > 100 * TOL * self.L:
                    return 'circumcentre of face %d: distances to the vertices %s, offset from the plane %.3g' % (f, fmt(d), np.dot(arr(at[f]) - V[F[0]], self.S.normal[f]))
        return err

    def c_corner_angles(self):
        S = self.S
        at = A.corner_angles(self.m, **self.kw)
        exp = [S.angle[f][i] for f in range(len(S.F)) for i in range(len(S.F[f]))]
        err = self.per_element('corner_angles', at, self.celems(), exp if self.flags['planar'] else [None] * len(exp), 0, 'C', 's', 'angle', (self.m.face_corners, 'angles'))
        if err is None and self.flags['planar']:
            for f, F in enumerate(S.F):
                tot = sum(float(at[S.first[f] + i]) for i in range(len(F)))
                if abs(tot - (len(F) - 2) * PI) > TOL:
                    return 'corner angles of face %d %r sum to %.12g, expected %.12g' % (f, F, tot, (len(F) - 2) * PI)
        return err

    def c_cotangent(self):
        S = self.S
        at = A.cotangent(self.m, **self.kw)
        exp = [S.cot(f, i) for f in range(len(S.F)) for i in range(3)]
        return self.per_element('cotangent', at, self.celems(), exp, 0, 'C', 's', 'cotangent', (self.m.face_corners, 'cotan'))

    def c_cotan_weights(self):
        S, m = self.S, self.m
        at = A.cotan_weights(m, **self.kw)
        exp = []
        for a, b in m.edges:
            w = 0.0
            for f, F in enumerate(S.F):
                if a in F and b in F:
                    i = [k for k in range(3) if F[k] not in (a, b)][0]
                    w += 0.5 * S.cot(f, i)
            exp.append(w)
        return self.per_element('cotan_weights', at, self.eelems(), exp, 0, 'E', 's', 'cotan weight', (m.edges, 'cotan_weight'))

    def defects(self, zb):
        S = self.S
        at = A.angle_defects(self.m, zero_border=zb, **self.kw)
        exp = []
        for v in range(len(self.V)):
            tot = sum(S.angle[f][i] for f, i in S.vfaces[v])
            exp.append((0.0 if zb else PI - tot) if v in S.border_v else 2 * PI - tot)
        err = self.per_element('angle_defects[zero_border=%s]' % zb, at, self.velems(), exp, 0, 'V', 's', 'angle defect', (self.m.vertices, 'angleDefect'))
        if err is None and not zb:
            an = analyse(len(self.V), S.F)
            if an['problems']:
                return 'oracle family error: %r' % an['problems'][:2]
            tot = sum(float(at[v]) for v in range(len(self.V)))
            if abs(tot - 2 * PI * an['chi']) > TOL * len(self.V):
                return 'angle defects sum to %.12g, 2*pi*chi = %.12g (chi=%d)' % (tot, 2 * PI * an['chi'], an['chi'])
            if A.euler_characteristic(self.m) != an['chi']:
                return 'euler_characteristic = %r, V-E+F from the face list = %d' % (A.euler_characteristic(self.m), an['chi'])
        return err

    def vnormals(self, mode):
        S = self.S
        at = A.vertex_normals(self.m, interpolation=mode, **self.kw)
        exp = []
        for v in range(len(self.V)):
            if not self.flags['planar']:
                exp.append(None); continue
            w = {'uniform': lambda f, i: 1.0, 'area': lambda f, i: S.area[f], 'angle': lambda f, i: S.angle[f][i]}[mode]
            exp.append(unit(sum(w(f, i) * S.normal[f] for f, i in S.vfaces[v])))
        err = self.per_element('vertex_normals[%s]' % mode, at, self.velems(), exp, 0, 'V', 'v', 'vertex normal (%s)' % mode, (self.m.vertices, 'normals'))
        if err is None:
            for v in range(len(self.V)):
                if abs(np.linalg.norm(arr(at[v])) - 1) > TOL:
                    return 'vertex normal (%s) of vertex %d has norm %.12g' % (mode, v, np.linalg.norm(arr(at[v])))
        return err

    def c_vnormals_custom(self):
        S, m = self.S, self.m
        if not self.flags['planar']:
            return None
        rs = np.random.RandomState(len(S.F))
        cn = [unit(-n + 0.4 * rs.randn(3)) for n in S.normal]
        for mode in ('uniform', 'area', 'angle'):
            fat = self.new_attr(m.faces, 'cn', 3, lambda f: M.Vec(cn[f]))
            at = A.vertex_normals(m, name='c07_custom_%s' % mode, interpolation=mode, custom_fnormals=fat, **self.kw)
            w = {'uniform': lambda f, i: 1.0, 'area': lambda f, i: S.area[f], 'angle': lambda f, i: S.angle[f][i]}[mode]
            for v in range(len(self.V)):
                exp = unit(sum(w(f, i) * cn[f] for f, i in S.vfaces[v]))
                if bad(at[v], exp, 1.0):
                    return 'vertex normal (%s, custom_fnormals) of vertex %d = %s, definition gives %s' % (mode, v, fmt(at[v]), fmt(exp))
        return None

    def c_cell_volume(self):
        V = self.V
        at = A.cell_volume(self.m, **self.kw)
        exp = [abs(np.linalg.det(np.array([V[b] - V[a], V[c] - V[a], V[d] - V[a]]))) / 6 for a, b, c, d in self.m.cells]
        return self.per_element('cell_volume', at, self.kelems(), exp, 3, 'K', 's', 'volume', (self.m.cells, 'volume'))

    def c_cell_barycenter(self):
        V = self.V
        at = A.cell_barycenter(self.m, **self.kw)
        return self.per_element('cell_barycenter', at, self.kelems(), [np.mean([V[v] for v in c], axis=0) for c in self.m.cells], 1, 'K', 'p', 'barycentre', (self.m.cells, 'barycenter'))

    def c_globals(self):
        m, V, L = self.m, self.V, self.L
        g = {}
        if self.kind == 'cloud':
            got, exp = A.barycenter(m), V.mean(axis=0)
            if bad(got, exp, L):
                return 'barycenter = %s, mean of the points is %s' % (fmt(got), fmt(exp))
            self.store['globals'] = ('G', None, None, {'barycenter': (1, 'p', arr(got))})
            return None
        lens = [np.linalg.norm(V[a] - V[b]) for a, b in m.edges]
        for n in (None, 1, max(1, len(lens) // 2), len(lens)):
            got, exp = A.mean_edge_length(m, n) if n is not None else A.mean_edge_length(m), sum(lens[:n or len(lens)]) / (n or len(lens))
            if bad(got, exp, L):
                return 'mean_edge_length(n=%r) = %s, mean of the %s edge lengths is %s' % (n, fmt(got), 'first %d' % n if n else 'all', fmt(exp))
            if n is None:
                g['mean_edge_length'] = (1, 's', arr(got))
        got, exp = A.barycenter(m), V.mean(axis=0)
        if bad(got, exp, L):
            return 'barycenter = %s, mean of the vertices is %s' % (fmt(got), fmt(exp))
        g['barycenter'] = (1, 'p', arr(got))
        if self.kind in ('surf', 'vol'):
            S = self.S
            areas = S.area
            if self.flags['planar']:
                for n in (None, 1, max(1, len(areas) // 2), len(areas)):
                    got = A.mean_face_area(m, n) if n is not None else A.mean_face_area(m)
                    exp = sum(areas[:n or len(areas)]) / (n or len(areas))
                    if bad(got, exp, L * L):
                        return 'mean_face_area(n=%r) = %s, mean of the %s face areas is %s' % (n, fmt(got), 'first %d' % n if n else 'all', fmt(exp))
            g['mean_face_area'] = (2, 's', arr(A.mean_face_area(m)))
            if self.kind == 'surf':
                chi = len({v for f in S.F for v in f}) - len(S.und) + len(S.F)
                if A.euler_characteristic(m) != chi:
                    return 'euler_characteristic = %r, V-E+F from the face list = %d' % (A.euler_characteristic(m), chi)
                got = A.total_area(m)
                if self.flags['planar'] and bad(got, sum(areas), L * L):
                    return 'total_area = %s, sum of the face areas is %s' % (fmt(got), fmt(sum(areas)))
                g['total_area'] = (2, 's', arr(got))
        if self.kind == 'vol':
            vols = [abs(np.linalg.det(np.array([V[b] - V[a], V[c] - V[a], V[d] - V[a]]))) / 6 for a, b, c, d in m.cells]
            for n in (None, 1, len(vols)):
                got = A.mean_cell_volume(m, n) if n is not None else A.mean_cell_volume(m)
                exp = sum(vols[:n or len(vols)]) / (n or len(vols))
                if bad(got, exp, L ** 3):
                    return 'mean_cell_volume(n=%r) = %s, expected %s' % (n, fmt(got), fmt(exp))
                if n is None:
                    g['mean_cell_volume'] = (3, 's', arr(got))
        self.store['globals'] = ('G', None, None, g)
        return None

    # ---- interpolation
    def new_attr(self, container, tag, size, fill=None, default=None):
        self._cnt = getattr(self, '_cnt', 0) + 1
        at = container.create_attribute('c07_%s_%d' % (tag, self._cnt), float, size, dense=self.opts['dense'], default_value=default)
        if fill is not None:
            for i in range(len(container)):
                at[i] = fill(i)
        return at

    def c_interpolate_constant(self):
        m, S = self.m, self.S
        nV, nF, nC = len(self.V), len(S.F), S.first[-1]
        surf = self.kind == 'surf'
        for size, c in ((1, 2.5), (3, np.array([1.0, -2.0, 0.5]))):
            const = (lambda i: float(c)) if size == 1 else (lambda i: M.Vec(c))

            def verify(what, at, n, factor=None):
                for i in range(n):
                    exp = c * (factor(i) if factor else 1.0)
                    if bad(at[i], exp, 1.0):
                        return '%s of the constant %s gives %s at element %d, expected %s' % (what, fmt(c), fmt(at[i]), i, fmt(exp))
            e = verify('interpolate_vertices_to_faces', A.interpolate_vertices_to_faces(m, self.new_attr(m.vertices, 'v', size, const), self.new_attr(m.faces, 'f', size)), nF)
            if e: return e
            if not surf:
                continue
            if size == 1 and not self.opts['dense']:
                # a constant carried by the default value of a sparse attribute
                e = verify('interpolate_vertices_to_faces (constant = default value of a sparse attribute)',
                           A.interpolate_vertices_to_faces(m, self.new_attr(m.vertices, 'v', 1, None, 2.5), self.new_attr(m.faces, 'f', 1)), nF)
                if e: return e
            for wt in ('uniform', 'area', 'angle', 'sum'):
                out = A.interpolate_faces_to_vertices(m, self.new_attr(m.faces, 'f', size, const), self.new_attr(m.vertices, 'v', size), weight=wt)
                e = verify('interpolate_faces_to_vertices(weight=%s)' % wt, out, nV, (lambda v: float(len(S.vfaces[v]))) if wt == 'sum' else None)
                if e: return e
            e = verify('scatter_vertices_to_corners', A.scatter_vertices_to_corners(m, self.new_attr(m.vertices, 'v', size, const), self.new_attr(m.face_corners, 'c', size)), nC)
            if e: return e
            e = verify('scatter_faces_to_corners', A.scatter_faces_to_corners(m, self.new_attr(m.faces, 'f', size, const), self.new_attr(m.face_corners, 'c', size)), nC)
            if e: return e
            for wt in ('uniform', 'angle', 'sum'):
                out = A.average_corners_to_vertices(m, self.new_attr(m.face_corners, 'c', size, const), self.new_attr(m.vertices, 'v', size), weight=wt)
                e = verify('average_corners_to_vertices(weight=%s)' % wt, out, nV, (lambda v: float(len(S.vfaces[v]))) if wt == 'sum' else None)
                if e: return e
                out = A.average_corners_to_faces(m, self.new_attr(m.face_corners, 'c', size, const), self.new_attr(m.faces, 'f', size), weight=wt)
                e = verify('average_corners_to_faces(weight=%s)' % wt, out, nF, (lambda f: float(len(S.F[f]))) if wt == 'sum' else None)
                if e: return e
        return None

    def c_interpolate_weights(self):
        """weighted means of a non-constant attribute, every weighting mode"""
        m, S = self.m, self.S
        if not self.flags['planar']:
            return None
        nV, nF, nC = len(self.V), len(S.F), S.first[-1]
        rs = np.random.RandomState(nV * 100 + nF)
        fv, vv, cv = rs.randn(nF, 3), rs.randn(nV, 3), rs.randn(nC, 3)
        for size in (1, 3):
            pick = (lambda a: (lambda i: float(a[i, 0]))) if size == 1 else (lambda a: (lambda i: M.Vec(a[i])))
            cut = (lambda x: x[:1]) if size == 1 else (lambda x: x)

            def verify(what, at, exp):
                for i, x in enumerate(exp):
                    if bad(at[i], cut(x), 1.0):
                        return '%s at element %d = %s, weighted mean by definition %s' % (what, i, fmt(at[i]), fmt(cut(x)))
            out = A.interpolate_vertices_to_faces(m, self.new_attr(m.vertices, 'v', size, pick(vv)), self.new_attr(m.faces, 'f', size))
            e = verify('interpolate_vertices_to_faces', out, [np.mean([vv[v] for v in f], axis=0) for f in S.F])
            if e: return e
            W = {'uniform': lambda f, i: 1.0, 'sum': lambda f, i: 1.0, 'area': lambda f, i: S.area[f], 'angle': lambda f, i: S.angle[f][i]}
            for wt in ('uniform', 'area', 'angle', 'sum'):
                out = A.interpolate_faces_to_vertices(m, self.new_attr(m.faces, 'f', size, pick(fv)), self.new_attr(m.vertices, 'v', size), weight=wt)
                exp = [sum(W[wt](f, i) * fv[f] for f, i in S.vfaces[v]) / (1.0 if wt == 'sum' else sum(W[wt](f, i) for f, i in S.vfaces[v])) for v in range(nV)]
                e = verify('interpolate_faces_to_vertices(weight=%s)' % wt, out, exp)
                if e: return e
            for wt in ('uniform', 'angle', 'sum'):
                out = A.average_corners_to_vertices(m, self.new_attr(m.face_corners, 'c', size, pick(cv)), self.new_attr(m.vertices, 'v', size), weight=wt)
                exp = [sum(W[wt](f, i) * cv[S.first[f] + i] for f, i in S.vfaces[v]) / (1.0 if wt == 'sum' else sum(W[wt](f, i) for f, i in S.vfaces[v])) for v in range(nV)]
                e = verify('average_corners_to_vertices(weight=%s)' % wt, out, exp)
                if e: return e
                out = A.average_corners_to_faces(m, self.new_attr(m.face_corners, 'c', size, pick(cv)), self.new_attr(m.faces, 'f', size), weight=wt)
                exp = [sum(W[wt](f, i) * cv[S.first[f] + i] for i in range(len(F))) / (1.0 if wt == 'sum' else sum(W[wt](f, i) for i in range(len(F)))) for f, F in enumerate(S.F)]
                e = verify('average_corners_to_faces(weight=%s)' % wt, out, exp)
                if e: return e
            out = A.scatter_vertices_to_corners(m, self.new_attr(m.vertices, 'v', size, pick(vv)), self.new_attr(m.face_corners, 'c', size))
            e = verify('scatter_vertices_to_corners', out, [vv[v] for f in S.F for v in f])
            if e: return e
            out = A.scatter_faces_to_corners(m, self.new_attr(m.faces, 'f', size, pick(fv)), self.new_attr(m.face_corners, 'c', size))
            e = verify('scatter_faces_to_corners', out, [fv[f] for f, F in enumerate(S.F) for _ in F])
            if e: return e
        return None

    # ---- driver
    def steps(self):
        if self.kind == 'cloud':
            st = [('globals', self.c_globals)]
        elif self.kind == 'line':
            st = [('edge_length', self.c_edge_length), ('edge_middle_point', self.c_edge_middle_point), ('degree', self.c_degree), ('globals', self.c_globals)]
        elif self.kind == 'vol':
            st = [('cell_volume', self.c_cell_volume), ('cell_barycenter', self.c_cell_barycenter), ('face_area', self.c_face_area),
                  ('face_barycenter', self.c_face_barycenter), ('face_circumcenter', self.c_face_circumcenter), ('edge_length', self.c_edge_length),
                  ('edge_middle_point', self.c_edge_middle_point), ('degree', self.c_degree), ('globals', self.c_globals),
                  ('interpolate_constant', self.c_interpolate_constant)]
        else:
            st = [('corner_angles', self.c_corner_angles)]
            if self.is_tri():
                st += [('cotangent', self.c_cotangent), ('cotan_weights', self.c_cotan_weights),
                       ('angle_defects[zero_border=False]', lambda: self.defects(False)), ('angle_defects[zero_border=True]', lambda: self.defects(True)),
                       ('face_circumcenter', self.c_face_circumcenter)]
            st += [('face_area', self.c_face_area), ('face_normals', self.c_face_normals), ('face_barycenter', self.c_face_barycenter)]
            st += [('vertex_normals[%s]' % md, (lambda md=md: self.vnormals(md))) for md in ('uniform', 'area', 'angle')]
            st += [('vertex_normals[custom_fnormals]', self.c_vnormals_custom)]
            st += [('edge_length', self.c_edge_length), ('edge_middle_point', self.c_edge_middle_point), ('degree', self.c_degree), ('globals', self.c_globals),
                   ('interpolate_constant', self.c_interpolate_constant), ('interpolate_weights', self.c_interpolate_weights)]
        if self.opts['order'] == 'reverse':
            st = st[::-1]
        return st

    def attr_names(self):
        out = set()
        for cname in ('vertices', 'edges', 'faces', 'face_corners', 'cells'):
            c = getattr(self.m, cname, None)
            if c is not None:
                out |= {(cname, a) for a in c.attributes if a in OWN_NAMES}
        return out

    def run(self):
        for name, fn in self.steps():
            before = self.attr_names()
            try:
                err = fn()
            except Exception as e:
                err = 'raised %s: %s' % (type(e).__name__, e)
            if err is None and not self.opts['persistent'] and name != 'globals':
                new = self.attr_names() - before
                if new:
                    err = 'persistent=False but the call left the attribute(s) %r on the mesh' % sorted(new)
            yield name, err


def compare(base, other, vmap, aff):
    """library values on the transformed mesh against the transformed library values on the original mesh"""
    R, s, t = aff

    def mapkey(ekind, key):
        if ekind == 'V':
            return vmap[key]
        if ekind == 'C':
            return (fkey(vmap[v] for v in key[0]), vmap[key[1]])
        return fkey(vmap[v] for v in key)

    def mapval(vkind, power, x):
        if vkind == 's':
            return x * s ** power
        if vkind == 'v':
            return R @ x
        return s * (R @ x) + t
    Lo = max(float(np.abs(other.V).max()), 1e-300)
    for check, (ekind, vkind, power, vals) in base.store.items():
        if check not in other.store:
            continue        # the definition clause raised on the transformed mesh and has been reported already
        ov = other.store[check][3]
        err = None
        if ekind == 'G':
            for name, (power, vkind, x) in vals.items():
                if name not in ov:
                    continue
                exp = mapval(vkind, power, x)
                if bad(ov[name][2], exp, Lo ** power):
                    err = '%s = %s on the transformed mesh, transformed value of the original is %s (scale %g)' % (name, fmt(ov[name][2]), fmt(exp), s)
                    break
        else:
            for key, x in vals.items():
                k2 = mapkey(ekind, key)
                if k2 not in ov:
                    err = 'element %r -> %r missing on the transformed mesh' % (key, k2)
                    break
                exp = mapval(vkind, power, x)
                if bad(ov[k2], exp, Lo ** power if power else 1.0):
                    err = 'element %r: %s on the transformed mesh, transformed value of the original is %s (scale %g, power %d)' % (key, fmt(ov[k2]), fmt(exp), s, power)
                    break
        yield check + ':invariance', err


# ------------------------------------------------------------------------------------------------ geometry primitives

def primitives(seed, thorough):
    """direct calls of the geometry.* primitives the attribute loops are built on -> yields (check, error)"""
    from mouette.geometry import geometry as G
    rs = np.random.RandomState(seed + 77)
    Vec = M.Vec
    n = 60 if thorough else 25

    def loop(check, fn):
        err = None
        for _ in range(n):
            try:
                err = fn()
            except Exception as e:
                err = 'raised %s: %s' % (type(e).__name__, e)
            if err:
                break
        return check, err

    def pts(k, d=3):
        return [Vec(rs.randn(d) * rs.choice([0.01, 1.0, 30.0]) ) for _ in range(k)]

    def t_products():
        a, b = pts(2)
        if bad(G.cross(a, b), np.cross(a, b), np.linalg.norm(a) * np.linalg.norm(b)):
            return 'cross(%s, %s) = %s' % (fmt(a), fmt(b), fmt(G.cross(a, b)))
        if bad(G.dot(a, b), float(np.sum(np.asarray(a) * np.asarray(b))), np.linalg.norm(a) * np.linalg.norm(b)):
            return 'dot(%s, %s) = %s' % (fmt(a), fmt(b), fmt(G.dot(a, b)))
        for which, exp in (('l2', math.sqrt(sum(x * x for x in a))), ('l1', sum(abs(x) for x in a)), ('linf', max(abs(x) for x in a))):
            if bad(G.norm(a, which), exp, exp) or bad(a.norm(which), exp, exp):
                return 'norm(%s, %s) = %s / Vec.norm = %s, expected %s' % (fmt(a), which, fmt(G.norm(a, which)), fmt(a.norm(which)), fmt(exp))
            d = np.asarray(a) - np.asarray(b)
            exp = {'l2': math.sqrt(sum(x * x for x in d)), 'l1': sum(abs(x) for x in d), 'linf': max(abs(x) for x in d)}[which]
            if bad(G.distance(a, b, which), exp, exp):
                return 'distance(%s, %s, %s) = %s, expected %s' % (fmt(a), fmt(b), which, fmt(G.distance(a, b, which)), fmt(exp))
        if bad(G.distance(a, b), np.linalg.norm(np.asarray(a) - np.asarray(b)), np.linalg.norm(a) + np.linalg.norm(b)):
            return 'distance(%s, %s) = %s' % (fmt(a), fmt(b), fmt(G.distance(a, b)))
        u = Vec.normalized(a)
        if bad(u, np.asarray(a) / np.linalg.norm(a), 1.0):
            return 'Vec.normalized(%s) = %s' % (fmt(a), fmt(u))
        for x, s0, s1 in ((-2.5, -1, -1), (0.0, 1, 0), (3.0, 1, 1)):
            if G.sign0(x) != s0 or G.sign(x) != s1:
                return 'sign0(%r) = %r, sign(%r) = %r' % (x, G.sign0(x), x, G.sign(x))

    def t_dets():
        a, b, c = pts(3)
        mat = np.array([a, b, c])
        exp = np.linalg.det(mat)
        u = np.linalg.norm(a) * np.linalg.norm(b) * np.linalg.norm(c)
        if bad(G.det_3x3(a, b, c), exp, u) or bad(G.det_3x3(mat), exp, u) or bad(G.det_3x3(mat.T), exp, u):
            return 'det_3x3 of rows %s %s %s = %s (three vectors) / %s (matrix), expected %s' % (fmt(a), fmt(b), fmt(c), fmt(G.det_3x3(a, b, c)), fmt(G.det_3x3(mat)), fmt(exp))
        p, q = pts(2, 2)
        exp = p[0] * q[1] - p[1] * q[0]
        if bad(G.det_2x2(p, q), exp, np.linalg.norm(p) * np.linalg.norm(q)) or bad(G.det_2x2(complex(p[0], p[1]), complex(q[0], q[1])), exp, np.linalg.norm(p) * np.linalg.norm(q)):
            return 'det_2x2(%s, %s) = %s, expected %s' % (fmt(p), fmt(q), fmt(G.det_2x2(p, q)), fmt(exp))

    def nondegenerate(a, b, c):
        th = [kahan_angle(b - a, c - a), kahan_angle(a - b, c - b), kahan_angle(a - c, b - c)]
        return min(th) > 0.1

    def t_triangle():
        o = pts(1)[0]
        a, b, c = [Vec(o + p) for p in pts(3)]
        a, b, c = Vec(a), Vec(o + (b - o) * np.linalg.norm(a - o) / np.linalg.norm(b - o)), Vec(o + (c - o) * np.linalg.norm(a - o) / np.linalg.norm(c - o))
        if not nondegenerate(a, b, c):
            return None
        la, lb, lc = np.linalg.norm(b - c), np.linalg.norm(a - c), np.linalg.norm(a - b)
        sp = (la + lb + lc) / 2
        heron = math.sqrt(sp * (sp - la) * (sp - lb) * (sp - lc))
        L2 = max(la, lb, lc) ** 2
        if bad(G.triangle_area(a, b, c), heron, L2):
            return 'triangle_area(%s, %s, %s) = %s, Heron gives %s' % (fmt(a), fmt(b), fmt(c), fmt(G.triangle_area(a, b, c)), fmt(heron))
        th = kahan_angle(a - b, c - b)
        if bad(G.angle_3pts(a, b, c), th, 1.0):
            return 'angle_3pts(%s, %s, %s) = %s, expected %s' % (fmt(a), fmt(b), fmt(c), fmt(G.angle_3pts(a, b, c)), fmt(th))
        if bad(G.cotan(a, b, c), math.cos(th) / math.sin(th), 1.0 / math.sin(th) ** 2):
            return 'cotan(%s, %s, %s) = %s, expected %s' % (fmt(a), fmt(b), fmt(c), fmt(G.cotan(a, b, c)), fmt(math.cos(th) / math.sin(th)))
        if bad(G.angle_2vec3D(a - b, c - b), th, 1.0):
            return 'angle_2vec3D = %s, expected %s' % (fmt(G.angle_2vec3D(a - b, c - b)), fmt(th))
        nrm = pts(1)[0]
        sg = 1.0 if np.dot(np.cross(a - b, c - b), nrm) >= 0 else -1.0
        if bad(G.signed_angle_2vec3D(a - b, c - b, nrm), sg * th, 1.0) or bad(G.signed_angle_3pts(a, b, c, nrm), sg * th, 1.0):
            return 'signed_angle_2vec3D / signed_angle_3pts = %s / %s, expected %s' % (fmt(G.signed_angle_2vec3D(a - b, c - b, nrm)), fmt(G.signed_angle_3pts(a, b, c, nrm)), fmt(sg * th))
        cc = G.circumcenter(a, b, c)
        exp = tri_circumcenter(np.asarray(a), np.asarray(b), np.asarray(c))
        if bad(cc, exp, 100 * (np.linalg.norm(o) + math.sqrt(L2))):
            return 'circumcenter(%s, %s, %s) = %s, expected %s' % (fmt(a), fmt(b), fmt(c), fmt(cc), fmt(exp))
        X, Y, Z = G.face_basis(a, b, c)
        B_ = np.array([X, Y, Z])
        if bad(B_ @ B_.T, np.eye(3), 1.0) or bad(np.linalg.det(B_), 1.0, 1.0) or bad(X, unit(np.asarray(b - a)), 1.0) or bad(Z, unit(np.cross(b - a, c - a)), 1.0):
            return 'face_basis(%s, %s, %s) = %s %s %s is not the direct orthonormal frame with X along AB and Z normal' % (fmt(a), fmt(b), fmt(c), fmt(X), fmt(Y), fmt(Z))
        X2, Y2, Z2 = G.face_basis([a, b, c])
        if bad(np.array([X2, Y2, Z2]), B_, 1.0):
            return 'face_basis([A,B,C]) differs from face_basis(A,B,C)'
        # project_to_plane
        p = pts(1)[0]
        pr = G.project_to_plane(p, Vec(np.cross(b - a, c - a)), a)
        if abs(np.dot(pr - a, Z)) > TOL * (np.linalg.norm(p) + np.linalg.norm(a)) or np.linalg.norm(np.cross(pr - p, Z)) > TOL * (np.linalg.norm(p) + np.linalg.norm(a)):
            return 'project_to_plane(%s) = %s is not the orthogonal projection on the plane of %s %s %s' % (fmt(p), fmt(pr), fmt(a), fmt(b), fmt(c))

    def t_quad():
        r = np.random.RandomState(rs.randint(1 << 30))
        P = convex_ngon(4, r) @ linmap(rs.randint(1000)).T * rs.choice([0.01, 1.0, 30.0]) + rs.randn(3)
        exp = float(np.linalg.norm(poly_area_vector(P)))
        got = G.quad_area(*[Vec(p) for p in P])
        if bad(got, exp, exp):
            return 'quad_area of the planar convex quad %s = %s, expected %s' % ([fmt(p) for p in P], fmt(got), fmt(exp))

    def t_2d():
        a, b, c = pts(3, 2)
        exp = 0.5 * abs((b[0] - a[0]) * (c[1] - a[1]) - (b[1] - a[1]) * (c[0] - a[0]))
        u = max(np.linalg.norm(b - a), np.linalg.norm(c - a)) ** 2
        if bad(G.triangle_area_2D(a, b, c), exp, u):
            return 'triangle_area_2D(%s, %s, %s) = %s, expected %s' % (fmt(a), fmt(b), fmt(c), fmt(G.triangle_area_2D(a, b, c)), fmt(exp))
        got = G.angle_2vec2D(a, b)
        exp = math.atan2(a[0] * b[1] - a[1] * b[0], a[0] * b[0] + a[1] * b[1])
        if bad([math.cos(got), math.sin(got)], [math.cos(exp), math.sin(exp)], 1.0):
            return 'angle_2vec2D(%s, %s) = %s, expected %s modulo 2 pi' % (fmt(a), fmt(b), fmt(got), fmt(exp))
        # lines
        p1, d1, p2, d2 = pts(4, 2)
        if abs(d1[0] * d2[1] - d1[1] * d2[0]) > 0.2 * np.linalg.norm(d1) * np.linalg.norm(d2) and min(np.linalg.norm(d1), np.linalg.norm(d2)) > 1e-3:
            X = G.intersect_2lines2D(p1, d1, p2, d2)
            sol = np.linalg.solve(np.array([[d1[0], -d2[0]], [d1[1], -d2[1]]]), np.asarray(p2 - p1))
            exp = np.asarray(p1) + sol[0] * np.asarray(d1)
            if X is None or bad(X, exp, 10 * (np.linalg.norm(p1) + np.linalg.norm(p2) + np.linalg.norm(exp))):
                return 'intersect_2lines2D(%s, %s, %s, %s) = %s, expected %s' % (fmt(p1), fmt(d1), fmt(p2), fmt(d2), X if X is None else fmt(X), fmt(exp))
        if G.intersect_2lines2D(p1, d1, p2, Vec(-2.0 * d1)) is not None:
            return 'intersect_2lines2D of two parallel lines is not None'
        # point / segment
        P, A_, B_ = pts(3, 2)
        seg = np.asarray(B_ - A_)
        tpar = float(np.dot(np.asarray(P - A_), seg) / np.dot(seg, seg))
        if 0 <= tpar <= 1:
            exp = abs(seg[0] * (P[1] - A_[1]) - seg[1] * (P[0] - A_[0])) / np.linalg.norm(seg)
        else:
            exp = min(np.linalg.norm(P - A_), np.linalg.norm(P - B_))
        if bad(G.distance_to_segment2D(P, A_, B_), exp, np.linalg.norm(P) + np.linalg.norm(A_) + np.linalg.norm(B_)):
            return 'distance_to_segment2D(%s, %s, %s) = %s, expected %s' % (fmt(P), fmt(A_), fmt(B_), fmt(G.distance_to_segment2D(P, A_, B_)), fmt(exp))

    yield loop('geometry.products_norms', t_products)
    yield loop('geometry.determinants', t_dets)
    yield loop('geometry.triangle', t_triangle)
    yield loop('geometry.quad_area', t_quad)
    yield loop('geometry.planar', t_2d)


# ------------------------------------------------------------------------------------------------ main loop

GLOBAL_FUNCS = ('mean_edge_length', 'mean_face_area', 'mean_cell_volume', 'total_area', 'barycenter', 'euler_characteristic')
PER_ELEMENT_FUNCS = ('edge_length', 'edge_middle_point', 'degree', 'face_area', 'face_normals', 'face_barycenter', 'face_circumcenter', 'corner_angles',
                     'cotangent', 'cotan_weights', 'angle_defects', 'vertex_normals', 'cell_volume', 'cell_barycenter')


class Runner:
    def __init__(self, req):
        self.req = req
        self.mode = req.get('mode', 'bounded')
        self.known = [{k: v for k, v in d.items() if k != 'error'} for d in (req.get('known') or [])]
        self.known_hit = []
        self.cases = 0
        self.want = None
        if self.mode == 'replay':
            self.want = {k: v for k, v in (req.get('case') or {}).items() if k != 'error'}
        self.focus = (req.get('function') or '').split('.')[-1] if self.mode == 'search' else ''
        if self.focus in GLOBAL_FUNCS:
            self.focus = 'globals'
        elif self.focus.split('_')[0] in ('interpolate', 'scatter', 'average'):
            self.focus = 'interpolate'
        elif self.focus not in PER_ELEMENT_FUNCS:
            self.focus = ''

    @staticmethod
    def matches(pattern, desc):
        return all(json.loads(json.dumps(desc.get(k))) == v for k, v in pattern.items())

    def wanted_mesh(self, name, seed):
        return self.want is None or (self.want.get('mesh', name) == name and self.want.get('seed', seed) == seed)

    def report(self, desc, err):
        if self.focus and self.focus not in desc['check']:
            return
        self.cases += 1
        if err is None:
            return
        if self.want is not None and not self.matches(self.want, desc):
            return
        full = dict(desc, error=err)
        for k in self.known:
            if self.matches(k, desc):
                self.known_hit.append(full)
                return
        respond(failing=full, cases=self.cases, known_hit=self.known_hit)


def option_sets():
    for P in (True, False):
        for D in (True, False):
            for order in (('forward', 'reverse') if P else ('forward',)):
                yield dict(persistent=P, dense=D, order=order)


def main():
    req = read_request()
    seed = int(req.get('seed', 0) or 0)
    thorough = req.get('tier') == 'thorough'
    run = Runner(req)
    seeds = (seed, seed + 1, seed + 2) if thorough else (seed,)
    if run.want is not None and 'seed' in run.want:
        seeds = (int(run.want['seed']),)
    for sd in seeds:
        if run.wanted_mesh('geometry_primitives', sd):
            for check, err in primitives(sd, thorough):
                run.report(dict(mesh='geometry_primitives', seed=sd, opts=None, transform=None, check=check), err)
        fams = [('surf', n, V, F, fl) for n, V, F, fl in surface_family(sd, thorough)]
        fams += [('vol', n, V, C, dict(planar=True, convex=True, ints=n.endswith('_int'))) for n, V, C in volume_family(sd, thorough)]
        fams += [('line', n, V, E, dict(planar=True, convex=True)) for n, V, E in line_family(sd, thorough)]
        fams += [('cloud', 'cloud9', np.random.RandomState(sd).randn(9, 3), [], dict(planar=True, convex=True))]
        for kind, name, V, E, flags in fams:
            if not run.wanted_mesh(name, sd):
                continue
            V = np.asarray(V, float)
            base = None
            for opts in option_sets():
                p = Pass(kind, V, E, flags, opts)
                for check, err in p.run():
                    run.report(dict(mesh=name, seed=sd, opts=opts, transform=None, check=check), err)
                if base is None:
                    base = p
            for tr in transforms(thorough):
                V2, E2, vmap, aff = apply_transform(kind, V, E, tr)
                p = Pass(kind, V2, E2, dict(flags, ints=False), dict(persistent=True, dense=True, order='forward'))
                for check, err in p.run():
                    run.report(dict(mesh=name, seed=sd, opts=p.opts, transform=tr, check=check), err)
                for check, err in compare(base, p, vmap, aff):
                    run.report(dict(mesh=name, seed=sd, opts=p.opts, transform=tr, check=check), err)
    respond(failing=None, cases=run.cases, known_hit=run.known_hit)


main()
