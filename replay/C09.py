"""C09 native oracle: returned paths are valid edge paths of minimum total weight (all weight modes,
single / collection targets, vertex sets, border)."""
import random, itertools
import numpy as np
from replay.common import *
from replay.graphs import *
import mouette as M
from mouette.processing.paths import shortest_path, shortest_path_to_vertex_set, shortest_path_to_border


def edge_weights(m, mode, custom):
    w = {}
    for e, (a, b) in enumerate(m.edges):
        if mode == 'one':
            w[(a, b)] = 1.0
        elif mode == 'length':
            w[(a, b)] = float(np.linalg.norm(np.asarray(m.vertices[a]) - np.asarray(m.vertices[b])))
        else:
            w[(a, b)] = float(custom[e])
    return w


def path_weight(path, w):
    tot = 0.0
    for a, b in zip(path, path[1:]):
        if (a, b) in w:
            tot += w[(a, b)]
        elif (b, a) in w:
            tot += w[(b, a)]
        else:
            return None
    return tot


def check(m, name, seed):
    rnd = random.Random(seed)
    nV = len(m.vertices)
    custom = {e: rnd.choice([0.0, 0.5, 1.0, 3.0, rnd.uniform(0.1, 4.0)]) for e in range(len(m.edges))}
    cases = 0
    for mode in ('one', 'length', 'custom'):
        wts = mode if mode != 'custom' else custom
        w = edge_weights(m, mode, custom)
        starts = [0, nV - 1, rnd.randrange(nV)]
        for s in starts:
            dist = dijkstra(nV, w, s)
            tsets = [rnd.randrange(nV), [rnd.randrange(nV)], {rnd.randrange(nV), rnd.randrange(nV), s}, list(range(nV))[:4]]
            for T in tsets:
                cases += 1
                try:
                    res = shortest_path(m, s, T, weights=wts)
                except Exception as e:
                    return {'mesh': name, 'fn': 'shortest_path', 'start': s, 'targets': list(T) if not isinstance(T, int) else T, 'weights': mode, 'custom': custom if mode == 'custom' else None,
                            'error': 'raised %s: %s' % (type(e).__name__, e)}, cases
                for t in ([T] if isinstance(T, int) else T):
                    p = res.get(t)
                    err = None
                    if p is None or p[0] != s or p[-1] != t:
                        err = 'path to %d = %r does not go from %d to %d' % (t, p, s, t)
                    else:
                        pw = path_weight(p, w)
                        if pw is None:
                            err = 'path to %d = %r does not walk along mesh edges' % (t, p)
                        elif abs(pw - dist[t]) > 1e-9 * (1 + dist[t]):
                            err = 'path to %d = %r has weight %.6f but the minimum is %.6f' % (t, p, pw, dist[t])
                    if err:
                        return {'mesh': name, 'fn': 'shortest_path', 'start': s, 'targets': list(T) if not isinstance(T, int) else T, 'weights': mode,
                                'custom': custom if mode == 'custom' else None, 'error': err}, cases
            for TS in ([rnd.randrange(nV)], [rnd.randrange(nV), rnd.randrange(nV)], [s, rnd.randrange(nV)], list({rnd.randrange(nV) for _ in range(4)})):
                cases += 1
                try:
                    ind, p = shortest_path_to_vertex_set(m, s, TS, weights=wts)
                except Exception as e:
                    return {'mesh': name, 'fn': 'shortest_path_to_vertex_set', 'start': s, 'targets': TS, 'weights': mode, 'custom': custom if mode == 'custom' else None,
                            'error': 'raised %s: %s' % (type(e).__name__, e)}, cases
                best = min(dist[t] for t in TS)
                err = None
                if ind not in TS:
                    err = 'ends at %r which is not in the set %r' % (ind, TS)
                elif not p or p[0] != s or p[-1] != ind:
                    err = 'path %r does not go from %d to %r' % (p, s, ind)
                else:
                    pw = path_weight(p, w)
                    if pw is None:
                        err = 'path %r does not walk along mesh edges' % (p,)
                    elif abs(dist[ind] - best) > 1e-9 * (1 + best):
                        err = 'ends at %d (distance %.6f) but the nearest member is at %.6f' % (ind, dist[ind], best)
                    elif abs(pw - best) > 1e-9 * (1 + best):
                        err = 'path %r has weight %.6f, minimum to the set is %.6f' % (p, pw, best)
                if err:
                    return {'mesh': name, 'fn': 'shortest_path_to_vertex_set', 'start': s, 'targets': TS, 'weights': mode, 'custom': custom if mode == 'custom' else None, 'error': err}, cases
    return None, cases


def meshes(seed):
    yield 'chain6', polyline([(0, 0, 0), (1, 0, 0), (1, 3, 0), (2, 3, 0), (2.5, 3, 0), (7, 3, 0)], [(0, 1), (1, 2), (2, 3), (3, 4), (4, 5), (1, 3), (0, 2), (3, 5)])
    yield 'cycle5', polyline([(np.cos(k), np.sin(k) * 2, 0) for k in range(5)], [(k, (k + 1) % 5) for k in range(5)])
    yield 'grid4x4', grid(4, 4, True, 0.25, seed)
    yield 'grid3x5q', grid(3, 5, False, 0.1, seed + 1)
    yield 'grid6x6', grid(6, 6, True, 0.3, seed + 2)
    yield 'tets', tetgrid(1)


def random_graphs(seed, count):
    """dense random weighted graphs on 5-7 vertices with widely spread custom weights (detours beat direct edges)"""
    rnd = random.Random(seed)
    for g in range(count):
        n = rnd.randint(5, 7)
        pts = [(rnd.uniform(0, 3), rnd.uniform(0, 3), 0) for _ in range(n)]
        edges = [(i, i + 1) for i in range(n - 1)]
        for i in range(n):
            for j in range(i + 2, n):
                if rnd.random() < 0.5:
                    edges.append((i, j))
        yield 'rand%d_%d' % (seed, g), polyline(pts, edges), edges


def check_random(name, m, edges, seed):
    rnd = random.Random(hash(name) & 0xffff)
    nV = len(m.vertices)
    custom = {e: rnd.choice([0.5, 1.0, 1.0, 2.0, 5.0, 9.0]) for e in range(len(m.edges))}
    w = edge_weights(m, 'custom', custom)
    cases = 0
    for s in range(nV):
        dist = dijkstra(nV, w, s)
        for _ in range(3):
            TS = sorted({rnd.randrange(nV) for _ in range(rnd.randint(2, 3))})
            cases += 1
            try:
                ind, p = shortest_path_to_vertex_set(m, s, TS, weights=custom)
                best = min(dist[t] for t in TS)
                pw = path_weight(p, w) if p else None
                err = None
                if ind not in TS or not p or p[0] != s or p[-1] != ind or pw is None:
                    err = 'invalid result (%r, %r)' % (ind, p)
                elif abs(dist[ind] - best) > 1e-9 or abs(pw - best) > 1e-9:
                    err = 'ends at %d with path weight %.4f; the nearest member of %r is at %.4f' % (ind, pw, TS, best)
            except Exception as e:
                err = 'raised %s: %s' % (type(e).__name__, e)
            if err:
                return {'mesh': name, 'fn': 'shortest_path_to_vertex_set', 'edges': edges, 'custom': custom, 'start': s, 'targets': TS, 'error': err}, cases
        t = rnd.randrange(nV)
        cases += 1
        try:
            p = shortest_path(m, s, t, weights=custom)[t]
            pw = path_weight(p, w)
            err = None if (p[0] == s and p[-1] == t and pw is not None and abs(pw - dist[t]) < 1e-9) else 'path %r weight %r, minimum %.4f' % (p, pw, dist[t])
        except Exception as e:
            err = 'raised %s: %s' % (type(e).__name__, e)
        if err:
            return {'mesh': name, 'fn': 'shortest_path', 'edges': edges, 'custom': custom, 'start': s, 'targets': t, 'error': err}, cases
    return None, cases


def main():
    req = read_request()
    seed = int(req.get('seed', 0) or 0)
    total = 0
    if req['mode'] != 'replay':
        for name, m, edges in random_graphs(seed, 400 if req.get('tier') == 'thorough' else 120):
            f, c = check_random(name, m, edges, seed)
            total += c
            if f:
                respond(failing=f, cases=total)
    for sd in ((seed, seed + 1, seed + 2) if req.get('tier') == 'thorough' else (seed,)):
        for name, m in meshes(sd):
            if req['mode'] == 'replay' and (req.get('case') or {}).get('mesh') != name:
                continue
            f, c = check(m, name, sd)
            total += c
            if f:
                f['seed'] = sd
                respond(failing=f, cases=total)
    respond(failing=None, cases=total)


main()
