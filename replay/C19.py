"""C19 native oracle: samplers stay on their domain (all parameters), Bezier = Bernstein form."""
import itertools, math, random
import numpy as np
from replay.common import *
from replay.meshcheck import analyse
import mouette as M
from mouette.geometry import Vec, AABB
from mouette import sampling
from mouette.splines.bezier import de_casteljau, BezierCurve, BezierPatch


def bernstein(P, t):
    n = len(P) - 1
    return sum(math.comb(n, k) * t ** k * (1 - t) ** (n - k) * np.asarray(P[k], float) for k in range(n + 1))


def cases(seed, thorough):
    rnd = np.random.RandomState(seed)
    cs = [(Vec(0., 0., 0.), 1.), (Vec(1., 2., -3.), .25), (Vec(-4., .5, 2.), 3.), (Vec(10., 10., 10.), 1e-3)]
    for c, r in cs:
        for pc in (False, True):
            def f(c=c, r=r, pc=pc):
                np.random.seed(seed)
                n = 300
                p = sampling.sample_sphere(c, r, n, pc)
                pts = np.array([np.asarray(v) for v in p.vertices]) if pc else np.asarray(p)
                if len(pts) != n:
                    return 'sample_sphere returned %d points, requested %d' % (len(pts), n)
                d = np.abs(np.linalg.norm(pts - np.asarray(c), axis=1) - r).max()
                if d > 1e-9 * (1 + r + np.linalg.norm(c)):
                    return 'sample_sphere: worst | |p-c| - r | = %.3g' % d
            yield ('sample_sphere', dict(center=list(c), radius=r, point_cloud=pc), f)

            def g(c=c, r=r, pc=pc):
                np.random.seed(seed)
                n = 2000
                p = sampling.sample_ball(c, r, n, pc)
                pts = np.array([np.asarray(v) for v in p.vertices]) if pc else np.asarray(p)
                if len(pts) != n:
                    return 'sample_ball returned %d points, requested %d' % (len(pts), n)
                d = np.linalg.norm(pts - np.asarray(c), axis=1).max()
                if d > r * (1 + 1e-9) + 1e-12:
                    return 'sample_ball: max |p-c| = %.4g > radius %.4g' % (d, r)
                if d < 0.5 * r:
                    return 'sample_ball: samples do not fill the ball (max |p-c| = %.4g for radius %.4g)' % (d, r)
            yield ('sample_ball', dict(center=list(c), radius=r, point_cloud=pc), g)
    boxes = [([0., 0.], [1., 1.]), ([2., 2.], [3., 4.]), ([-5., 1., 0.], [-4., 1.5, 10.]), ([1.], [3.]), ([0., 0., 0., 0.], [1., 2., 3., 4.])]
    for lo, hi in boxes:
        for mode, n in (('uniform', 50), ('grid', 3 ** len(lo)), ('grid', 2 ** len(lo))):
            def h(lo=lo, hi=hi, mode=mode, n=n):
                np.random.seed(seed)
                pts = np.asarray(sampling.sample_AABB(AABB(lo, hi), n, mode))
                if len(pts) != n:
                    return 'sample_AABB(%s) returned %d points, requested %d' % (mode, len(pts), n)
                if (pts < np.asarray(lo) - 1e-12).any() or (pts > np.asarray(hi) + 1e-12).any():
                    return 'sample_AABB(%s): points outside the box: min %r max %r' % (mode, pts.min(0).tolist(), pts.max(0).tolist())
                if mode == 'grid' and (not np.allclose(pts.min(0), lo) or not np.allclose(pts.max(0), hi)):
                    return 'sample_AABB(grid): grid does not span the box: min %r max %r' % (pts.min(0).tolist(), pts.max(0).tolist())
            yield ('sample_AABB', dict(lo=lo, hi=hi, mode=mode, n=n), h)
    # polyline / surface
    def poly():
        np.random.seed(seed)
        V = np.array([[0., 0, 0], [1, 0, 0], [1, 2, 0], [1, 2, 5]])
        pl = M.mesh.from_arrays(V, E=np.array([(0, 1), (1, 2), (2, 3)]))
        pts = np.asarray(sampling.sample_polyline(pl, 400))
        if len(pts) != 400:
            return 'sample_polyline count %d' % len(pts)
        cnt = [0, 0, 0]
        for p in pts:
            ok = False
            for k, (a, b) in enumerate([(0, 1), (1, 2), (2, 3)]):
                A, B = V[a], V[b]
                t = np.dot(p - A, B - A) / np.dot(B - A, B - A)
                if -1e-9 <= t <= 1 + 1e-9 and np.linalg.norm(A + t * (B - A) - p) < 1e-9:
                    ok = True; cnt[k] += 1; break
            if not ok:
                return 'sample_polyline: point %r on no edge' % p.tolist()
        if not (cnt[2] > cnt[1] > cnt[0]):
            return 'sample_polyline: shares %r do not follow the lengths 1:2:5' % cnt
    yield ('sample_polyline', {}, poly)

    def surf():
        np.random.seed(seed)
        V = np.array([[0., 0, 0], [4, 0, 0], [0, 1, 0], [0, 0, 3.]])
        F = [(0, 1, 2), (0, 3, 1)]
        m = M.mesh.from_arrays(V, F=np.array(F))
        pts, nrm = sampling.sample_surface(m, 300, return_normals=True)
        if len(pts) != 300:
            return 'sample_surface count'
        cnt = [0, 0]
        for p, n in zip(np.asarray(pts), np.asarray(nrm)):
            ok = False
            for k, f in enumerate(F):
                A, B, C = (V[i] for i in f)
                N = np.cross(B - A, C - A); N = N / np.linalg.norm(N)
                if abs(np.dot(p - A, N)) < 1e-9:
                    T = np.array([B - A, C - A]).T
                    uv = np.linalg.lstsq(T, p - A, rcond=None)[0]
                    if uv.min() >= -1e-9 and uv.sum() <= 1 + 1e-9:
                        ok = True; cnt[k] += 1
                        if not np.allclose(n, N, atol=1e-9):
                            return 'sample_surface: normal %r is not the normal %r of its face' % (n.tolist(), N.tolist())
                        break
            if not ok:
                return 'sample_surface: point %r inside no face' % p.tolist()
        if not cnt[1] > cnt[0]:
            return 'sample_surface: shares %r do not follow the areas 2:6' % cnt
    yield ('sample_surface', {}, surf)
    # Bezier
    for n in (1, 2, 3, 4, 6):
        def bz(n=n):
            r = np.random.RandomState(seed + n)
            P = [Vec(*r.randn(3)) for _ in range(n + 1)]
            P0 = [np.array(p, copy=True) for p in P]
            for t in (0., 1., .5, .25, r.rand()):
                got = np.asarray(de_casteljau(P, t), float)
                if not np.allclose(got, bernstein(P0, t), atol=1e-9):
                    return 'de_casteljau != Bernstein form at t=%r (degree %d)' % (t, n)
                lo, hi = np.min(P0, axis=0), np.max(P0, axis=0)
                if (got < lo - 1e-9).any() or (got > hi + 1e-9).any():
                    return 'de_casteljau leaves the bounding box of the control points'
            if not np.allclose(np.asarray(de_casteljau(P, 0.)), P0[0]) or not np.allclose(np.asarray(de_casteljau(P, 1.)), P0[-1]):
                return 'end control points not interpolated'
            for bad in (-0.1, 1.0001):
                try:
                    de_casteljau(P, bad)
                    return 'parameter %r outside [0,1] accepted' % bad
                except Exception as e:
                    if 'Range' not in type(e).__name__:
                        return 'wrong exception %s' % type(e).__name__
            if any(not np.array_equal(np.asarray(a), b) for a, b in zip(P, P0)):
                return 'control points modified'
        yield ('de_casteljau', dict(degree=n), bz)
    for (a, b) in ((2, 2), (4, 2), (2, 4), (3, 5), (4, 4)):
        def patch(a=a, b=b):
            r = np.random.RandomState(seed + 10 * a + b)
            net = [[Vec(*r.randn(3)) for _ in range(b)] for _ in range(a)]
            bp = BezierPatch(net)
            for (u, v) in ((0, 0), (0, 1), (1, 0), (1, 1), (.3, .7)):
                got = np.asarray(bp.evaluate(u, v), float)
                rows = [bernstein(net[i], u) for i in range(a)]
                exp = bernstein(rows, v)
                if not np.allclose(got, exp, atol=1e-9):
                    return 'patch (%dx%d) != Bernstein form at (%r,%r)' % (a, b, u, v)
            corners = {(0, 0): net[0][0], (1, 0): net[0][-1], (0, 1): net[-1][0], (1, 1): net[-1][-1]}
            for (u, v), c in corners.items():
                if not np.allclose(np.asarray(bp.evaluate(u, v)), np.asarray(c), atol=1e-9):
                    return 'patch (%dx%d) does not interpolate its corner control point at (%d,%d)' % (a, b, u, v)
        yield ('BezierPatch.evaluate', dict(rows=a, cols=b), patch)
    for (n1, n2) in ((2, 2), (3, 5), (5, 3), (4, 4), (2, 6)):
        def surfexp(n1=n1, n2=n2):
            r = np.random.RandomState(seed)
            bp = BezierPatch([[Vec(*r.randn(3)) for _ in range(3)] for _ in range(3)])
            m = bp.as_surface(n1, n2)
            a = analyse(len(m.vertices), [tuple(f) for f in m.faces])
            if a['problems']:
                return 'as_surface(%d,%d): %s' % (n1, n2, a['problems'][0])
            if len(m.vertices) != n1 * n2 or len(m.faces) != (n1 - 1) * (n2 - 1) or a['chi'] != 1 or a['n_border_loops'] != 1:
                return 'as_surface(%d,%d): counts/topology V=%d F=%d chi=%s' % (n1, n2, len(m.vertices), len(m.faces), a['chi'])
        yield ('BezierPatch.as_surface', dict(n1=n1, n2=n2), surfexp)
    for npts in (2, 5, 17):
        def polyexp(npts=npts):
            bc = BezierCurve([Vec(0., 0, 0), Vec(1., 2, 0), Vec(3., 0, 1)])
            pl = bc.as_polyline(npts)
            if len(pl.vertices) != npts or len(pl.edges) != npts - 1 or any(not (0 <= a < npts and 0 <= b < npts) for a, b in pl.edges):
                return 'as_polyline(%d): V=%d E=%d' % (npts, len(pl.vertices), len(pl.edges))
        yield ('BezierCurve.as_polyline', dict(n_pts=npts), polyexp)


def main():
    req = read_request()
    seed = int(req.get('seed', 0) or 0)
    want = None
    if req['mode'] == 'replay':
        want = req.get('case') or {}
    n = 0
    only = (req.get('function') or '').split('.')[-1] if req['mode'] == 'search' else None
    for name, params, f in cases(seed, req.get('tier') == 'thorough'):
        if want is not None and not (want.get('fn') == name and want.get('params') == params):
            continue
        if only and only not in name and name not in only:
            continue
        n += 1
        try:
            err = f()
        except Exception as e:
            err = 'exception %s: %s' % (type(e).__name__, e)
        if err:
            respond(failing={'fn': name, 'params': params, 'error': err}, cases=n)
    respond(failing=None, cases=n)


main()
