"""C06 native oracle: meshes have value semantics -- copy, merge and transforms never alias.

Two kinds of cases:
  * {"kind": "producer", "producer": <name>, "params": {...}, "failed": [<clauses>]}: a named member of a deterministic family of
    small meshes, one per way the library can make a mesh (loaders, procedural generators, from_arrays, merge, copy, subdivision,
    boundary extraction, reorder, path / tree export, sampling, Bezier, PointCloud.append).  A producer also names its *sources*:
    the meshes / caller arrays it was made from, which must never change afterwards.  Every clause of CHECKS is run on a freshly
    built mesh; the list of clauses that fail is part of the case descriptor (so a clause that starts failing on a producer that
    is already in "known" gives a new case), "error" holds one message per failing clause.
        structure            merge = disjoint union of the inputs with running vertex offsets, result type, inputs untouched
        copy                 copy (all 4 option pairs) equals its source, shares no object / array, edits do not leak either way
        copy_connectivity    copy(copy_connectivity=True) does not share the connectivity object          (3 producers)
        translate rotate scale scale_xyz normalize translate_to_origin flatten
                             exact map on every vertex (exactly once), element lists kept, sources untouched, caller's parameters
                             untouched, inverse restores, and the reverse (transforming a source leaves the produced mesh alone);
                             normalize / fit_into_unit_cube / translate_to_origin also check the documented box / barycentre
        translate_by_own_vertex, scale_xyz_default_origin   parameter clauses that do not depend on the producer (2 producers)
        edit                 direct coordinate / element edits on merge and copy results never leak (both directions)
  * {"kind": "sequence", "base": [...], "ops": [...]}: random copy / merge / transform scripts over a pool of meshes, compared
    after every step with a numpy model; failing sequences are shrunk to a minimal script before they are reported.
All expected values are computed here with plain numpy from coordinate / index snapshots taken before the call.
"""
import os, tempfile, shutil, random, json
import numpy as np
from scipy.spatial.transform import Rotation
from replay.common import *
from replay.graphs import grid, polyline, tetgrid
import mouette as M
from mouette import Vec
from mouette.mesh.mesh_data import RawMeshData
from mouette.mesh.subdivision import SurfaceSubdivision, VolumeSubdivision, split_edge, split_double_boundary_edges_triangles
from mouette.geometry import transform as T
from mouette.mesh.mesh import _instanciate_raw_mesh_data, reorder_vertices

TMP = None


# ----------------------------------------------------------------------------------------------------------------------
# snapshots (independent of the library: raw containers -> numpy / tuples)

def coords(m):
    out = np.zeros((len(m.vertices), 3))
    for i, p in enumerate(m.vertices):
        out[i] = np.asarray(p, dtype=float).reshape(-1)[:3]
    return out


def elems(m):
    d = {}
    for what in ('edges', 'faces', 'cells'):
        if hasattr(m, what):
            d[what] = [tuple(int(x) for x in e) for e in getattr(m, what)]
    return d


def corners(m):
    d = {}
    for what in ('face_corners', 'cell_corners', 'cell_faces'):
        if hasattr(m, what):
            c = getattr(m, what)
            d[what] = ([int(x) for x in c._elem], [int(x) for x in c._adj])
    return d


def is_mesh(x):
    return hasattr(x, 'vertices') and hasattr(x.vertices, '_data')


def snap(x):
    if is_mesh(x):
        return ('mesh', coords(x), elems(x))
    return ('array', np.array(x, copy=True))


def snap_diff(label, before, x, tol):
    """None if x still equals its snapshot"""
    if before[0] == 'mesh':
        P = coords(x)
        if P.shape != before[1].shape:
            return '%s now has %d vertices (had %d)' % (label, len(P), len(before[1]))
        if len(P) and not np.allclose(P, before[1], atol=tol, rtol=0):
            i = int(np.argmax(np.abs(P - before[1]).max(axis=1)))
            return '%s changed: its vertex %d went from %s to %s (%d of %d vertices displaced)' % (
                label, i, fmt(before[1][i]), fmt(P[i]), int((np.abs(P - before[1]).max(axis=1) > tol).sum()), len(P))
        if elems(x) != before[2]:
            return '%s changed: its element lists are different' % label
        return None
    now = np.asarray(x)
    if now.shape != before[1].shape or not np.array_equal(now, before[1]):
        return "%s (caller's array) was modified: %s -> %s" % (label, fmt(before[1]), fmt(now))
    return None


def fmt(a):
    a = np.asarray(a)
    if a.size > 9:
        return np.array2string(np.round(a.reshape(-1)[:9].astype(float), 6), separator=',') + '...'
    return np.array2string(np.round(a.astype(float), 6), separator=',').replace('\n', '')


def storage_tol(m):
    for p in m.vertices:
        if np.asarray(p).dtype == np.float32:
            return 2e-5
    return 1e-9


def describe_mismatch(P0, P1, exp, tol, tvec=None):
    if P1.shape != exp.shape:
        return 'has %d vertices, expected %d' % (len(P1), len(exp))
    bad = np.nonzero(np.abs(P1 - exp).max(axis=1) > tol)[0]
    i = int(bad[0])
    s = 'vertex %d: %s -> %s, expected %s' % (i, fmt(P0[i]), fmt(P1[i]), fmt(exp[i]))
    if tvec is not None and np.linalg.norm(tvec) > 0:
        k = float(np.dot(P1[i] - P0[i], tvec) / np.dot(tvec, tvec))
        if abs(k - round(k)) < 1e-6 and np.allclose(P1[i] - P0[i], round(k) * np.asarray(tvec), atol=1e-6):
            s += ' (moved %d times)' % round(k)
    return s + ' [%d of %d vertices wrong: %s]' % (len(bad), len(exp), bad[:8].tolist())


# ----------------------------------------------------------------------------------------------------------------------
# independent rotation matrices (scipy 'xyz' = extrinsic x, then y, then z)

def rot_euler(a, b, c):
    ca, sa, cb, sb, cc, sc = np.cos(a), np.sin(a), np.cos(b), np.sin(b), np.cos(c), np.sin(c)
    Rx = np.array([[1, 0, 0], [0, ca, -sa], [0, sa, ca]])
    Ry = np.array([[cb, 0, sb], [0, 1, 0], [-sb, 0, cb]])
    Rz = np.array([[cc, -sc, 0], [sc, cc, 0], [0, 0, 1]])
    return Rz @ Ry @ Rx


# ----------------------------------------------------------------------------------------------------------------------
# clean building blocks (every vertex a fresh float Vec)

def raw_mesh(pts, edges=(), faces=(), cells=()):
    raw = RawMeshData()
    for p in pts:
        raw.vertices.append(Vec(float(p[0]), float(p[1]), float(p[2])))
    raw.edges += [tuple(e) for e in edges]
    raw.faces += [tuple(f) for f in faces]
    raw.cells += [tuple(c) for c in cells]
    return _instanciate_raw_mesh_data(raw)


def A_quads():      # 2x3 quad grid, 6 vertices
    return grid(2, 3, False, 0.05, 3)


def B_tris():       # 3x3 triangle grid, 9 vertices, shifted
    g = grid(3, 3, True, 0.1, 5)
    for i in range(len(g.vertices)):
        g.vertices[i] = Vec(g.vertices[i] + np.array([4., -1., 0.5]))
    return g


def L_poly():       # 4 vertices, with a branch
    return polyline([(0., 0., 1.), (1., 0., 1.), (1., 2., 1.), (3., 2., 0.)], [(0, 1), (1, 2), (1, 3)])


def V_tets():       # 8 vertices, 6 tets
    return tetgrid(1)


def PC_points():
    return raw_mesh([(0.5, 0.25, -1), (2, 2, 2), (-1, 3, 0.5)])


def MIXED():        # triangle + quad + pentagon sharing edges
    pts = [(0, 0, 0), (1, 0, 0), (1, 1, 0.2), (0, 1, 0), (2, 0.5, 0), (1.5, 2, 0.1), (0.5, 2, 0), (-1, 0.5, 0.3)]
    return raw_mesh(pts, faces=[(0, 1, 2, 3), (1, 4, 2), (2, 4, 5, 6, 3), (0, 3, 7)])


def EAR():          # triangle grid with an extra "ear" triangle whose tip vertex has degree 2
    pts = [(0, 0, 0), (1, 0, 0), (2, 0, 0), (0, 1, 0), (1, 1, 0), (2, 1, 0), (1, 2, 0.1)]
    return raw_mesh(pts, faces=[(0, 1, 4), (0, 4, 3), (1, 2, 5), (1, 5, 4), (3, 4, 6)])


def fvec(*a):
    return Vec(*[float(x) for x in a])


# ----------------------------------------------------------------------------------------------------------------------
# the producer family.  build() -> dict(mesh=<result>, sources=[(label, object)...])

def producers(seed, thorough):
    rnd = np.random.RandomState(seed)
    R = lambda *shape: np.round(rnd.rand(*shape) * 4 - 1, 3)
    P = M.procedural
    fam = []

    def add(name, build, **params):
        fam.append((name, params, build))

    def gen_pts(name, fn, pts, **kw):
        # generators that receive points from the caller: the caller's vectors are sources
        def build():
            vs = [fvec(*p) for p in pts]
            return dict(mesh=fn(*vs, **kw), sources=[('argument P%d' % (i + 1), v) for i, v in enumerate(vs)])
        add(name, build, points=[list(map(float, p)) for p in pts], **kw)

    tri_pts = [(0, 0, 0), (2, 0, 0.5), (0.5, 1.5, 0)]
    tet_pts = [(0, 0, 0), (1, 0, 0), (0, 1, 0), (0.2, 0.3, 1)]
    hex_pts = [(0, 0, 0), (2, 0, 0), (2, 1, 0), (0, 1, 0), (0, 0, 1.5), (2, 0, 1.5), (2, 1, 1.5), (0, 1, 1.5)]
    gen_pts('triangle', P.triangle, tri_pts)
    add('triangle_int', lambda: dict(mesh=P.triangle(Vec(0, 0, 0), Vec(1, 0, 0), Vec(0, 1, 0)), sources=[]), points='Vec(0,0,0),Vec(1,0,0),Vec(0,1,0) (integer literals)')
    gen_pts('quad', P.quad, tri_pts)
    gen_pts('quad_tri', P.quad, tri_pts, triangulate=True)
    gen_pts('tetrahedron', P.tetrahedron, tet_pts)
    gen_pts('tetrahedron_vol', P.tetrahedron, tet_pts, volume=True)
    gen_pts('hexahedron', P.hexahedron, hex_pts)
    gen_pts('hexahedron_tri_col', P.hexahedron, hex_pts, colored=True, triangulate=True)
    gen_pts('hexahedron_4pts', P.hexahedron_4pts, tet_pts)
    gen_pts('cylinder_caps', P.cylinder, [(0, 0, 0), (0.5, 0.2, 2)], radius=0.7, N=5, fill_caps=True)
    gen_pts('cylinder_open', P.cylinder, [(1, 1, 0), (1, 1, 3)], radius=0.5, N=4, fill_caps=False)
    for name, fn, kw in [
        ('unit_grid_3x5', P.unit_grid, dict(nu=3, nv=5)),
        ('unit_grid_4x2_tri_uv', P.unit_grid, dict(nu=4, nv=2, triangulate=True, generate_uvs=True)),
        ('unit_triangle_4', P.unit_triangle, dict(nu=4, nv=4)),
        ('axis_aligned_cube', P.axis_aligned_cube, dict()),
        ('axis_aligned_cube_tri', P.axis_aligned_cube, dict(triangulate=True, colored=True)),
        ('octahedron', P.octahedron, dict()),
        ('icosahedron', P.icosahedron, dict()),
        ('dodecahedron', P.dodecahedron, dict()),
        ('torus_5x3', P.torus, dict(major_segments=5, minor_segments=3, major_radius=2., minor_radius=0.5)),
        ('torus_4x6_tri', P.torus, dict(major_segments=4, minor_segments=6, triangulate=True)),
        ('sphere_fibonacci_12', P.sphere_fibonacci, dict(n_pts=12, radius=1.5)),
        ('sphere_fibonacci_9_points', P.sphere_fibonacci, dict(n_pts=9, build_surface=False)),
        ('ring_5', P.ring, dict(N=5, defect=0.3)),
        ('ring_5_open', P.ring, dict(N=5, defect=0.3, open=True)),
        ('ring_4_open_cover2', P.ring, dict(N=4, defect=0.5, open=True, n_cover=2)),
        ('ring_3_cover2', P.ring, dict(N=3, defect=0.0, n_cover=2)),
        ('flat_ring_5', P.flat_ring, dict(N=5, defect=0.4)),
    ]:
        add(name, (lambda fn=fn, kw=kw: dict(mesh=fn(**kw), sources=[])), **kw)

    def centred(fn, **kw):
        def build():
            c = fvec(1, -2, 0.5)
            return dict(mesh=fn(center=c, **kw), sources=[('argument center', c)])
        return build
    add('icosahedron_centre', centred(P.icosahedron, radius=2.), center=[1, -2, 0.5], radius=2.)
    add('sphere_uv_2x5', centred(P.sphere_uv, n_lat=2, n_long=5, radius=0.5), n_lat=2, n_long=5, center=[1, -2, 0.5], radius=0.5)
    add('icosphere_1', centred(P.icosphere, n_refine=1, radius=1.5), n_refine=1, center=[1, -2, 0.5], radius=1.5)

    chainV = R(5, 3)
    chainV2 = R(4, 2)

    def chain(V, loop):
        def build():
            W = V.copy()
            return dict(mesh=P.chain_of_vertices(W, loop), sources=[('argument vertices', W)])
        return build
    add('chain_of_vertices', chain(chainV, False), vertices=chainV.tolist(), loop=False)
    add('chain_of_vertices_loop_2d', chain(chainV2, True), vertices=chainV2.tolist(), loop=True)
    vfO, vfV = R(3, 3), R(3, 3)

    def vfield():
        o, v = vfO.copy(), vfV.copy()
        return dict(mesh=P.vector_field(o, v, 0.5), sources=[('argument origins', o), ('argument vectors', v)])
    add('vector_field', vfield, origins=vfO.tolist(), vectors=vfV.tolist(), length_mult=0.5)

    def spherify(n):
        def build():
            pc = PC_points()
            return dict(mesh=P.spherify_vertices(pc, 0.1, n), sources=[('input point cloud', pc)])
        return build
    add('spherify_vertices_0', spherify(0), input='PC_points', radius=0.1, n_subdiv=0)

    def cylindrify():
        pl = L_poly()
        return dict(mesh=P.cylindrify_edges(pl, 0.1, 4), sources=[('input polyline', pl)])
    add('cylindrify_edges', cylindrify, input='L_poly', radius=0.1, N=4)

    def dual(mode):
        def build():
            g = B_tris()
            return dict(mesh=P.dual_mesh(g, mode), sources=[('input mesh', g)])
        return build
    add('dual_barycenter', dual('barycenter'), input='B_tris', mode='barycenter')
    add('dual_circumcenter', dual('circumcenter'), input='B_tris', mode='circumcenter')

    ctrl3 = R(4, 3)
    ctrl2 = R(3, 2)
    patch = R(3, 4, 3)

    def bez_curve(C, n):
        def build():
            W = C.copy()
            return dict(mesh=M.splines.BezierCurve(W).as_polyline(n), sources=[('control points', W)])
        return build
    add('bezier_curve_3d', bez_curve(ctrl3, 6), control_points=ctrl3.tolist(), n_pts=6)
    add('bezier_curve_2d', bez_curve(ctrl2, 4), control_points=ctrl2.tolist(), n_pts=4)

    def bez_patch():
        W = patch.copy()
        return dict(mesh=M.splines.BezierPatch(W).as_surface(3, 4), sources=[('control points', W)])
    add('bezier_patch_3x4', bez_patch, control_points=patch.tolist(), n1=3, n2=4)

    # ---- from_arrays
    faV = R(5, 3)
    faF = np.array([[0, 1, 2], [0, 2, 3], [0, 3, 4]])
    faQ = np.array([[0, 1, 2, 3], [0, 3, 4, 1]])
    faE = np.array([[0, 1], [1, 2], [3, 4], [4, 0]])
    faC = np.array([[0, 1, 2, 3], [1, 2, 3, 4]])
    faVi = np.array([[0, 0, 0], [2, 0, 0], [2, 3, 0], [0, 3, 1], [1, 1, 4]])

    def fa(V, **kw):
        def build():
            W = V.copy()
            args = {k: v.copy() for k, v in kw.items()}
            return dict(mesh=M.mesh.from_arrays(W, **args), sources=[('argument V', W)] + [('argument ' + k, v) for k, v in args.items()])
        return build
    add('from_arrays_VF', fa(faV, F=faF), V=faV.tolist(), F=faF.tolist())
    add('from_arrays_V2d_Fquads', fa(faV[:, :2], F=faQ), V=faV[:, :2].tolist(), F=faQ.tolist())
    add('from_arrays_VE', fa(faV, E=faE), V=faV.tolist(), E=faE.tolist())
    add('from_arrays_VC', fa(faV, C=faC), V=faV.tolist(), C=faC.tolist())
    add('from_arrays_V', fa(faV), V=faV.tolist())
    add('from_arrays_Vint_F', fa(faVi, F=faF), V=faVi.tolist(), F=faF.tolist(), dtype='int64')
    add('from_arrays_sliced_V', fa(np.asfortranarray(faV), F=faF), V=faV.tolist(), F=faF.tolist(), order='F')

    # ---- loaders (files written with the library's own exporter, then loaded)
    def loaded(src, ext):
        def build():
            path = os.path.join(TMP, 'c06_%s.%s' % (src.__name__, ext))
            M.mesh.save(src(), path)
            return dict(mesh=M.mesh.load(path), sources=[])
        return build
    for ext in ('obj', 'mesh', 'geogram_ascii', 'stl', 'off', 'xyz'):
        add('load_%s_surface' % ext, loaded(B_tris, ext), saved='B_tris', format=ext)
    for ext in ('mesh', 'tet'):
        add('load_%s_volume' % ext, loaded(V_tets, ext), saved='V_tets', format=ext)
    add('load_obj_quads', loaded(A_quads, 'obj'), saved='A_quads', format='obj')
    add('load_mesh_polyline', loaded(L_poly, 'mesh'), saved='L_poly', format='mesh')

    def load_ply():
        path = os.path.join(TMP, 'c06_hand.ply')
        with open(path, 'w') as f:
            f.write('ply\nformat ascii 1.0\nelement vertex 4\nproperty float x\nproperty float y\nproperty float z\n'
                    'element face 2\nproperty list uchar int vertex_indices\nend_header\n'
                    '0 0 0\n1 0 0\n1 1 0.5\n0 1 0\n3 0 1 2\n3 0 2 3\n')
        return dict(mesh=M.mesh.load(path), sources=[])
    add('load_ply_surface', load_ply, format='ply', vertices=[[0, 0, 0], [1, 0, 0], [1, 1, 0.5], [0, 1, 0]], faces=[[0, 1, 2], [0, 2, 3]])

    # ---- merge
    blocks = {'A': A_quads, 'B': B_tris, 'L': L_poly, 'V': V_tets, 'PC': PC_points, 'EMPTY': M.mesh.SurfaceMesh, 'MIXED': MIXED}

    def merged(spec):
        def build():
            objs = {}
            lst = []
            for k in spec:
                if k not in objs:
                    objs[k] = blocks[k]()
                lst.append(objs[k])
            return dict(mesh=M.mesh.merge(lst), sources=[('input %s' % k, o) for k, o in objs.items()], merge_inputs=lst)
        return build
    specs = [['A', 'B'], ['A', 'A'], ['A', 'B', 'A'], ['PC', 'L', 'A', 'V'], ['A'], ['V', 'B'], ['A', 'EMPTY', 'B'], ['L', 'L', 'PC'], ['MIXED', 'V', 'MIXED']]
    if thorough:
        specs += [['B', 'B', 'B', 'B'], ['V', 'V'], ['PC', 'PC'], ['L', 'B'], ['EMPTY', 'A'], ['MIXED', 'L', 'B', 'A', 'PC']]
    for spec in specs:
        add('merge_' + '_'.join(spec), merged(spec), inputs=spec)

    def nested():
        a, b = A_quads(), B_tris()
        ab = M.mesh.merge([a, b])
        return dict(mesh=M.mesh.merge([ab, a]), sources=[('input a', a), ('input b', b), ('intermediate merge([a,b])', ab)], merge_inputs=[ab, a])
    add('merge_nested', nested, inputs='merge([merge([A,B]), A])')

    # ---- copy (as a producer: the copy is then transformed / edited)
    def copied(src, ca, cc):
        def build():
            s = blocks[src]()
            if cc and hasattr(s, 'connectivity') and hasattr(s, 'faces'):
                s.connectivity.vertex_to_faces(0)
            return dict(mesh=M.mesh.copy(s, ca, cc), sources=[('copied mesh', s)])
        return build
    for src, ca, cc in [('A', False, False), ('B', True, False), ('V', False, True), ('L', True, True), ('PC', False, False), ('MIXED', True, False)]:
        add('copy_%s_%d%d' % (src, ca, cc), copied(src, ca, cc), source=src, copy_attributes=ca, copy_connectivity=cc)

    # ---- subdivision.  in-place operations (documented to modify the given mesh) have no independent source
    def subdiv(src, op, fresh, *args):
        def build():
            s = src()
            with SurfaceSubdivision(s) as sub:
                getattr(sub, op)(*args)
            return dict(mesh=sub.mesh, sources=[('subdivided mesh', s)] if fresh else [])
        return build
    add('subdiv_triangulate_quads', subdiv(A_quads, 'triangulate', False), source='A_quads', op='triangulate')
    add('subdiv_triangulate_mixed', subdiv(MIXED, 'triangulate', False), source='MIXED', op='triangulate')
    add('subdiv_fan_mixed', subdiv(MIXED, 'split_face_as_fan', False, 2), source='MIXED', op='split_face_as_fan', face=2)
    add('subdiv_loop1_tris', subdiv(B_tris, 'loop_subdivision', True, 1), source='B_tris', op='loop_subdivision', n=1)

    def tri_then(src, op, *args):
        # triangulate in a first block (in place), subdivide in a second one
        def build():
            s = src()
            with SurfaceSubdivision(s) as sub0:
                sub0.triangulate()
            s = sub0.mesh
            with SurfaceSubdivision(s) as sub:
                getattr(sub, op)(*args)
            return dict(mesh=sub.mesh, sources=[('subdivided mesh', s)])
        return build
    add('subdiv_loop2_quads', tri_then(A_quads, 'loop_subdivision', 2), source='A_quads, triangulated first', op='loop_subdivision', n=2)
    add('subdiv_3quads_tris', subdiv(B_tris, 'subdivide_triangles_3quads', True), source='B_tris', op='subdivide_triangles_3quads')
    add('subdiv_tri6_mixed', tri_then(MIXED, 'subdivide_triangles_6', 1), source='MIXED, triangulated first', op='subdivide_triangles_6', repeat=1)

    def ear():
        return dict(mesh=split_double_boundary_edges_triangles(EAR()), sources=[])
    add('subdiv_split_double_boundary', ear, source='EAR')
    # the same refinements asked in one block on meshes that are not triangulated yet ("will triangulate the mesh first")
    add('subdiv_loop1_quads_oneblock', subdiv(A_quads, 'loop_subdivision', True, 1), source='A_quads', op='loop_subdivision', n=1)
    add('subdiv_tri6_mixed_oneblock', subdiv(MIXED, 'subdivide_triangles_6', True, 1), source='MIXED', op='subdivide_triangles_6', repeat=1)

    def volsub(op, arg):
        def build():
            s = V_tets()
            with VolumeSubdivision(s) as sub:
                getattr(sub, op)(arg)
            return dict(mesh=sub.mesh, sources=[])
        return build
    add('volsubdiv_cell_fan', volsub('split_cell_as_fan', 1), source='V_tets', op='split_cell_as_fan', cell=1)
    add('volsubdiv_face_center', volsub('split_tet_from_face_center', 0), source='V_tets', op='split_tet_from_face_center', face=0)
    add('split_edge_polyline', lambda: dict(mesh=split_edge(L_poly(), 1), sources=[]), source='L_poly', edge=1)

    # ---- boundary extraction
    def bnd_surface(src):
        def build():
            s = src()
            return dict(mesh=M.processing.extract_boundary_of_surface(s)[0], sources=[('surface', s)])
        return build
    add('boundary_of_surface_grid', bnd_surface(B_tris), source='B_tris')
    add('boundary_of_surface_2loops', bnd_surface(lambda: P.cylinder(fvec(0, 0, 0), fvec(0, 0.5, 2), 0.5, 4, False)), source='cylinder(N=4, fill_caps=False)')
    add('boundary_of_surface_2components', bnd_surface(lambda: raw_mesh(
        [(0, 0, 0), (1, 0, 0), (0, 1, 0), (5, 5, 1), (6, 5, 1), (6, 6, 1), (5, 6, 1)], faces=[(0, 1, 2), (3, 4, 5, 6)])), source='triangle + quad, disconnected')

    def bnd_volume(src):
        def build():
            s = src()
            return dict(mesh=M.processing.extract_boundary_of_volume(s)[0], sources=[('volume', s)])
        return build
    add('boundary_of_volume_tetgrid', bnd_volume(V_tets), source='V_tets')
    add('boundary_of_volume_one_tet', bnd_volume(lambda: raw_mesh(tet_pts, cells=[(0, 1, 2, 3)])), source='one tetrahedron')
    # the boundary_mesh property is a cached view of its volume: only the transform clauses are checked on it
    def bmesh():
        s = V_tets()
        s.enable_boundary_connectivity()
        return dict(mesh=s.boundary_mesh, sources=[])
    add('volume_boundary_mesh', bmesh, source='V_tets', via='enable_boundary_connectivity(); VolumeMesh.boundary_mesh')

    # ---- other producers that build a mesh from another mesh
    def reorder():
        s = B_tris()
        return dict(mesh=reorder_vertices(s, [3, 0, 8, 1, 2, 7, 4, 6, 5]), sources=[('reordered mesh', s)])
    add('reorder_vertices', reorder, source='B_tris', new_indices=[3, 0, 8, 1, 2, 7, 4, 6, 5])

    def path_mesh():
        s = B_tris()
        return dict(mesh=M.processing.shortest_path(s, 0, [8, 2], export_path_mesh=True)[1], sources=[('mesh', s)])
    add('shortest_path_export', path_mesh, source='B_tris', start=0, targets=[8, 2])

    def tree_polyline():
        s = B_tris()
        t = M.processing.trees.EdgeSpanningTree(s, 4)
        t()
        return dict(mesh=t.build_tree_as_polyline(), sources=[('mesh', s)])
    add('edge_tree_as_polyline', tree_polyline, source='B_tris', root=4)

    # a point cloud filled through its own API (PointCloud.append: "shortcut for self.vertices.append(x)")
    def pc_append(twice):
        def build():
            vs = [fvec(0.5, 0.25, -1), fvec(2, 2, 2), fvec(-1, 3, 0.5)]
            pc = M.mesh.PointCloud()
            for v in (vs + [vs[0]] if twice else vs):
                pc.append(v)
            return dict(mesh=pc, sources=[] if twice else [('appended vector %d' % i, v) for i, v in enumerate(vs)])
        return build
    add('pointcloud_append', pc_append(False), points=[[0.5, 0.25, -1], [2, 2, 2], [-1, 3, 0.5]])
    add('pointcloud_append_same_vector_twice', pc_append(True), points=[[0.5, 0.25, -1], [2, 2, 2], [-1, 3, 0.5]], note='vector 0 appended again as vertex 3')

    def sampled(fn, *args):
        def build():
            np.random.seed(seed + 11)
            g = B_tris()
            a = [g if isinstance(x, str) else x for x in args]
            return dict(mesh=fn(*a, return_point_cloud=True), sources=[('sampled mesh', g)] if any(isinstance(x, str) for x in args) else [])
        return build
    add('sample_sphere_points', sampled(M.sampling.sample_sphere, fvec(1, 2, 3), 0.5, 7), center=[1, 2, 3], radius=0.5, n_pts=7)
    add('sample_surface_points', sampled(M.sampling.sample_surface, 'B', 9), mesh='B_tris', n_pts=9)

    if thorough:
        for k in range(6):
            n = int(rnd.randint(3, 9))
            V = R(n, 3)
            F = np.array([rnd.choice(n, 3, replace=False) for _ in range(int(rnd.randint(1, 5)))])
            add('from_arrays_random%d' % k, fa(V, F=F), V=V.tolist(), F=F.tolist())
        add('icosphere_2', centred(P.icosphere, n_refine=2, radius=1.), n_refine=2, center=[1, -2, 0.5], radius=1.)
        add('sphere_uv_4x7', centred(P.sphere_uv, n_lat=4, n_long=7, radius=2.), n_lat=4, n_long=7, center=[1, -2, 0.5], radius=2.)
        add('spherify_vertices_1', spherify(1), input='PC_points', radius=0.1, n_subdiv=1)
        add('unit_grid_6x4', lambda: dict(mesh=P.unit_grid(6, 4), sources=[]), nu=6, nv=4)
        add('torus_8x5', lambda: dict(mesh=P.torus(8, 5, 2., 0.5), sources=[]), major_segments=8, minor_segments=5)
        add('ring_7_open_cover3', lambda: dict(mesh=P.ring(7, 1.0, True, 3), sources=[]), N=7, defect=1.0, open=True, n_cover=3)
        add('subdiv_loop2_tris', subdiv(B_tris, 'loop_subdivision', True, 2), source='B_tris', op='loop_subdivision', n=2)
        add('subdiv_tri6x2_tris', subdiv(B_tris, 'subdivide_triangles_6', True, 2), source='B_tris', op='subdivide_triangles_6', repeat=2)
        add('subdiv_3quads_then_loop', tri_then(lambda: subdiv(B_tris, 'subdivide_triangles_3quads', True)()['mesh'], 'loop_subdivision', 1),
            source='B_tris -> subdivide_triangles_3quads -> triangulate', op='loop_subdivision', n=1)
        add('boundary_of_volume_tetgrid2', bnd_volume(lambda: tetgrid(2)), source='tetgrid(2)')
    return fam


# ----------------------------------------------------------------------------------------------------------------------
# generic transform clause: exact map, exactly once, elements kept, sources untouched, inverse restores, reverse direction

def transform_case(build, label, apply, expect, inverse=None, tvec=None, admissible=None, post=None, reverse=True):
    pr = build()
    m, sources = pr['mesh'], pr['sources']
    if len(m.vertices) == 0:
        return None
    P0, E0 = coords(m), elems(m)
    if admissible is not None and not admissible(P0):
        return None
    tol = storage_tol(m) * (1 + np.abs(P0).max())
    S0 = [snap(s) for _, s in sources]
    try:
        apply(m)
    except Exception as e:
        return '%s raised %s: %s' % (label, type(e).__name__, e)
    P1 = coords(m)
    exp = expect(P0)
    tol1 = tol * (1 + np.abs(exp).max())
    if P1.shape != exp.shape or not np.allclose(P1, exp, atol=tol1, rtol=0):
        return '%s does not move every vertex exactly once by the requested map: %s' % (label, describe_mismatch(P0, P1, exp, tol1, tvec))
    if post is not None:
        e = post(P1, tol1)
        if e:
            return '%s: %s' % (label, e)
    if elems(m) != E0:
        return '%s changed the element lists of the mesh' % label
    for (lab, s), s0 in zip(sources, S0):
        d = snap_diff(lab, s0, s, tol)
        if d:
            return '%s on the produced mesh leaked: %s' % (label, d)
    if inverse is not None:
        try:
            inverse(m)
        except Exception as e:
            return 'inverse of %s raised %s: %s' % (label, type(e).__name__, e)
        P2 = coords(m)
        if not np.allclose(P2, P0, atol=tol1 * 10, rtol=0):
            return '%s followed by its inverse does not restore the coordinates: %s' % (label, describe_mismatch(P1, P2, P0, tol1 * 10))
        for (lab, s), s0 in zip(sources, S0):
            d = snap_diff(lab, s0, s, tol)
            if d:
                return '%s and its inverse on the produced mesh leaked: %s' % (label, d)
    if not reverse:
        return None
    # the reverse: transforming a source mesh moves that source exactly once and leaves the produced mesh alone
    n_src = len([1 for _, s in sources if is_mesh(s)])
    for k in range(n_src):
        pr = build()
        m = pr['mesh']
        lab, s = [(l, s) for l, s in pr['sources'] if is_mesh(s)][k]
        if len(s.vertices) == 0:
            continue
        Pm, Em, Ps = coords(m), elems(m), coords(s)
        if admissible is not None and not admissible(Ps):
            continue
        try:
            apply(s)
        except Exception as e:
            return '%s on %s raised %s: %s' % (label, lab, type(e).__name__, e)
        exp_s = expect(Ps)
        tol_s = 1e-9 * (1 + np.abs(Ps).max()) * (1 + np.abs(exp_s).max())
        if not np.allclose(coords(s), exp_s, atol=tol_s, rtol=0):
            return '%s on %s (after it was used to produce the mesh) does not move every vertex exactly once: %s' % (
                label, lab, describe_mismatch(Ps, coords(s), exp_s, tol_s, tvec))
        d = snap_diff('the produced mesh', ('mesh', Pm, Em), m, tol)
        if d:
            return '%s on %s leaked: %s' % (label, lab, d)
    return None


def bbox(P):
    return P.min(axis=0), P.max(axis=0)


def check_translate(build):
    for t in ([1., 0., 0.], [-0.75, 2.5, 0.125], [0., 0., -3.]):
        tv = np.array(t)
        held = fvec(*t)
        e = transform_case(build, 'translate(%s)' % t, lambda m: T.translate(m, held), lambda P: P + tv,
                           inverse=lambda m: T.translate(m, -held), tvec=tv)
        if e:
            return e
        if not np.array_equal(np.asarray(held), tv):
            return "translate(%s) modified the caller's translation vector: now %s" % (t, fmt(held))
    # the translation vector given as a plain list / as one of the mesh's own stored vertices
    e = transform_case(build, 'translate([0.5,0.5,-1] as ndarray)', lambda m: T.translate(m, np.array([0.5, 0.5, -1.])), lambda P: P + np.array([0.5, 0.5, -1.]), reverse=False)
    if e:
        return e
    return None


def check_translate_by_own_vertex(build):
    # "all transform parameters": the translation vector is one of the mesh's own stored vertices
    for k in (0, 1):
        e = transform_case(build, 'translate(mesh, mesh.vertices[%d])' % k, lambda m: T.translate(m, m.vertices[min(k, len(m.vertices) - 1)]),
                           lambda P: P + P[min(k, len(P) - 1)], reverse=False)
        if e:
            return e
    return None


def check_rotate(build):
    variants = [
        ('Rotation', (0.3, -1.1, 0.7), None),
        ('matrix', (1.2, 0.4, -2.0), (0.5, -0.25, 2.)),
        ('euler list', (0.0, 0.0, np.pi / 2), (1., 1., 0.)),
        ('euler tuple', (-0.6, 2.2, 0.1), 'vertex0'),
        ('Rotation', (np.pi, 0.5, 0.0), (0., 3., -1.)),
    ]
    for kind, ang, orig in variants:
        Rm = rot_euler(*ang)

        def arg(inv):
            mat = Rm.T if inv else Rm
            if kind == 'Rotation':
                return Rotation.from_matrix(mat)
            if kind == 'matrix' or inv:
                return np.array(mat)
            return list(ang) if kind == 'euler list' else tuple(ang)
        held = None if orig is None or orig == 'vertex0' else fvec(*orig)

        def apply(m, inv=False):
            o = m.vertices[0] if orig == 'vertex0' else held
            if o is None:
                T.rotate(m, arg(inv))
            else:
                T.rotate(m, arg(inv), orig=o)

        def expect(P):
            o = np.zeros(3) if orig is None else (P[0].copy() if orig == 'vertex0' else np.array(orig))
            return o + (P - o) @ Rm.T
        label = 'rotate(%s %s, orig=%s)' % (kind, [round(a, 4) for a in ang], orig)
        e = transform_case(build, label, apply, expect, inverse=lambda m: apply(m, True))
        if e:
            return e
        if held is not None and not np.array_equal(np.asarray(held), np.array(orig)):
            return "%s modified the caller's origin: now %s" % (label, fmt(held))
    return None


def check_scale(build):
    for s, orig in ((2.5, None), (0.5, (1., -2., 0.5)), (-1.5, None), (3., 'vertex0'), (1e-3, (0., 1., 0.))):
        held = None if orig is None or orig == 'vertex0' else fvec(*orig)

        def apply(m, f):
            o = m.vertices[0] if orig == 'vertex0' else held
            if o is None:
                T.scale(m, f)
            else:
                T.scale(m, f, orig=o)

        def expect(P):
            o = np.zeros(3) if orig is None else (P[0].copy() if orig == 'vertex0' else np.array(orig))
            return o + s * (P - o)
        label = 'scale(%r, orig=%s)' % (s, orig)
        e = transform_case(build, label, lambda m: apply(m, s), expect, inverse=lambda m: apply(m, 1. / s))
        if e:
            return e
        if held is not None and not np.array_equal(np.asarray(held), np.array(orig)):
            return "%s modified the caller's origin: now %s" % (label, fmt(held))
    return None


def check_scale_xyz(build):
    return _scale_xyz(build, (((2., 0.5, 3.), (1., -2., 0.5)), ((1., 1., -2.), (0., 0., 0.)), ((0.25, 4., 1.), 'vertex0')))


def check_scale_xyz_default_origin(build):
    # docstring: "orig: Fixed point of the scaling. If not provided, it is set at (0,0,0)"
    return _scale_xyz(build, (((2., 3., 0.5), None),))


def _scale_xyz(build, variants):
    for f, orig in variants:
        fa = np.array(f)
        held = None if orig is None or orig == 'vertex0' else fvec(*orig)

        def apply(m, g):
            o = m.vertices[0] if orig == 'vertex0' else held
            if o is None:
                T.scale_xyz(m, g[0], g[1], g[2])
            else:
                T.scale_xyz(m, g[0], g[1], g[2], orig=o)

        def expect(P):
            # orig=None: "If not provided, it is set at (0,0,0)" (docstring)
            o = np.zeros(3) if orig is None else (P[0].copy() if orig == 'vertex0' else np.array(orig))
            return o + fa * (P - o)
        label = 'scale_xyz%s, orig=%s)' % (str(f)[:-1], orig)
        e = transform_case(build, label, lambda m: apply(m, fa), expect, inverse=lambda m: apply(m, 1. / fa))
        if e:
            return e
    return None


def check_normalize(build):
    nondeg = lambda P: len(P) > 0 and (P.max(axis=0) - P.min(axis=0)).max() > 1e-6

    def centred(P):
        lo, hi = bbox(P)
        return (P - (lo + hi) / 2) * 2. / (hi - lo).max()

    def anchored(P):
        lo, hi = bbox(P)
        return (P - lo) / (hi - lo).max()

    def post_centred(P, tol):
        lo, hi = bbox(P)
        if np.abs((lo + hi) / 2).max() > tol or abs((hi - lo).max() - 2.) > tol:
            return 'bounding box is %s .. %s: centre %s (expected 0), largest extent %.9g (expected 2)' % (fmt(lo), fmt(hi), fmt((lo + hi) / 2), (hi - lo).max())

    def post_anchored(P, tol):
        lo, hi = bbox(P)
        if np.abs(lo).max() > tol or abs((hi - lo).max() - 1.) > tol:
            return 'bounding box is %s .. %s: minimum corner expected at 0, largest extent %.9g (expected 1)' % (fmt(lo), fmt(hi), (hi - lo).max())
    for label, fn, exp, post in (
        ('normalize(center_at_zero=True)', lambda m: T.normalize(m), centred, post_centred),
        ('normalize(center_at_zero=False)', lambda m: T.normalize(m, center_at_zero=False), anchored, post_anchored),
        ('fit_into_unit_cube', lambda m: T.fit_into_unit_cube(m), anchored, post_anchored),
    ):
        e = transform_case(build, label, fn, exp, admissible=nondeg, post=post)
        if e:
            return e
    return None


def check_translate_to_origin(build):
    def post(P, tol):
        if np.abs(P.mean(axis=0)).max() > tol:
            return 'barycentre of the vertices is %s, expected 0' % fmt(P.mean(axis=0))
    return transform_case(build, 'translate_to_origin', lambda m: T.translate_to_origin(m), lambda P: P - P.mean(axis=0), post=post)


def check_flatten(build):
    def zero(d):
        def f(P):
            Q = P.copy()
            Q[:, d] = 0.
            return Q
        return f
    for d in (0, 1, 2):
        e = transform_case(build, 'flatten(dim=%d)' % d, lambda m: T.flatten(m, d), zero(d))
        if e:
            return e
    pr = build()
    P = coords(pr['mesh'])
    if len(P):
        var = np.sort(P.var(axis=0))
        if var[1] - var[0] > 1e-6 * (1 + var[2]):       # unambiguous smallest variance
            d = int(np.argmin(P.var(axis=0)))
            return transform_case(build, 'flatten(dim=None)', lambda m: T.flatten(m), zero(d), reverse=False)
    return None


# ----------------------------------------------------------------------------------------------------------------------
# merge = disjoint union with running offsets

def canon_face(f):
    k = f.index(min(f))
    return tuple(f[k:] + f[:k])


def check_structure(build):
    pr = build()
    if 'merge_inputs' not in pr:
        return None
    # rebuild to snapshot the inputs before merging is not possible (merge already ran) -> inputs must still be what the clean blocks give
    inputs = pr['merge_inputs']
    res = pr['mesh']
    off = 0
    expV, expE, expF, expC = [], [], [], []
    dim = 0
    for inp in inputs:
        P = coords(inp)
        expV.append(P)
        el = elems(inp)
        expE += [tuple(sorted(x + off for x in e)) for e in el.get('edges', [])]
        expF += [canon_face(tuple(x + off for x in f)) for f in el.get('faces', [])]
        expC += [tuple(x + off for x in c) for c in el.get('cells', [])]
        dim = max(dim, 3 if el.get('cells') else 2 if el.get('faces') else 1 if el.get('edges') else 0)
        off += len(P)
    expV = np.vstack(expV) if expV else np.zeros((0, 3))
    want = [M.mesh.PointCloud, M.mesh.PolyLine, M.mesh.SurfaceMesh, M.mesh.VolumeMesh][dim]
    if type(res) is not want:
        return 'merge returned a %s, expected a %s (largest dimensionality of the inputs)' % (type(res).__name__, want.__name__)
    P = coords(res)
    if P.shape != expV.shape:
        return 'merge has %d vertices, the inputs have %d in total' % (len(P), len(expV))
    if not np.array_equal(P, expV):
        i = int(np.nonzero(np.abs(P - expV).max(axis=1) > 0)[0][0])
        return 'merge vertex %d is %s, expected %s (concatenation of the inputs)' % (i, fmt(P[i]), fmt(expV[i]))
    el = elems(res)
    got = {'edges': sorted(tuple(sorted(e)) for e in el.get('edges', [])), 'faces': sorted(canon_face(f) for f in el.get('faces', [])), 'cells': sorted(el.get('cells', []))}
    for what, exp in (('edges', expE), ('faces', expF), ('cells', expC)):
        exp = sorted(exp)
        if got[what] != exp:
            missing = [x for x in exp if x not in got[what]][:4]
            extra = [x for x in got[what] if x not in exp][:4]
            return 'merge %s are not the inputs\' %s shifted by the running vertex count: %d elements (expected %d); missing %r, unexpected %r' % (
                what, what, len(got[what]), len(exp), missing, extra)
    # every index in range
    for what in ('edges', 'faces', 'cells'):
        for x in el.get(what, []):
            if min(x) < 0 or max(x) >= len(P):
                return 'merge %s element %r out of range' % (what, x)
    # merging did not change the inputs: compare with freshly built blocks
    pr2 = build()
    for (lab, s), (_, s2) in zip(pr['sources'], pr2['sources']):
        if is_mesh(s) and lab.startswith('input '):
            d = snap_diff(lab, snap(s2), s, 0.)
            if d:
                return 'merge changed an input: ' + d
    if M.mesh.merge([]) is not None:
        return 'merge([]) did not return None'
    return None


# ----------------------------------------------------------------------------------------------------------------------
# direct edits (merge / copy results only: "editing the result never changes an input, nor the reverse")

def check_edit(build, name):
    if not (name.startswith('merge_') or name.startswith('copy_')):
        return None
    pr = build()
    n = len(pr['mesh'].vertices)
    if n == 0:
        return None
    for i in sorted({0, n // 2, n - 1}):
        for how in ('coordinate write', 'in-place +='):
            pr = build()
            m, sources = pr['mesh'], pr['sources']
            P0 = coords(m)
            S0 = [snap(s) for _, s in sources]
            if how == 'coordinate write':
                m.vertices[i][0] = 7.5
                exp = P0.copy(); exp[i, 0] = 7.5
            else:
                v = m.vertices[i]
                v += np.array([1., 2., 3.])
                exp = P0.copy(); exp[i] += [1., 2., 3.]
            P1 = coords(m)
            if not np.array_equal(P1, exp):
                return '%s on vertex %d of the result changed other vertices of the result: %s' % (how, i, describe_mismatch(P0, P1, exp, 0.))
            for (lab, s), s0 in zip(sources, S0):
                d = snap_diff(lab, s0, s, 0.)
                if d:
                    return '%s on vertex %d of the result leaked: %s' % (how, i, d)
    # element / container edits on the result
    pr = build()
    m, sources = pr['mesh'], pr['sources']
    S0 = [snap(s) for _, s in sources]
    m.vertices.append(fvec(9, 9, 9))
    for what in ('edges', 'faces', 'cells'):
        if hasattr(m, what) and len(getattr(m, what)):
            c = getattr(m, what)
            c[0] = tuple(reversed(tuple(c[0])))
            c.append(tuple(c[0]))
    for (lab, s), s0 in zip(sources, S0):
        d = snap_diff(lab, s0, s, 0.)
        if d:
            return 'appending / replacing elements of the result leaked: %s' % d
    # the reverse: edits on each source
    pr0 = build()
    for k in range(len([1 for _, s in pr0['sources'] if is_mesh(s)])):
        pr = build()
        m = pr['mesh']
        lab, s = [(l, s) for l, s in pr['sources'] if is_mesh(s)][k]
        if len(s.vertices) == 0:
            continue
        before = snap(m)
        Ps = coords(s)
        s.vertices[0][1] = -3.25
        exp = Ps.copy(); exp[0, 1] = -3.25
        if not np.array_equal(coords(s), exp):
            return 'coordinate write on vertex 0 of %s changed other vertices of it: %s' % (lab, describe_mismatch(Ps, coords(s), exp, 0.))
        s.vertices.append(fvec(8, 8, 8))
        for what in ('edges', 'faces', 'cells'):
            if hasattr(s, what) and len(getattr(s, what)):
                c = getattr(s, what)
                c[0] = tuple(reversed(tuple(c[0])))
        d = snap_diff('the result', before, m, 0.)
        if d:
            return 'editing %s leaked: %s' % (lab, d)
    return None


# ----------------------------------------------------------------------------------------------------------------------
# copy

def attr_values(cont, n):
    out = {}
    for name in sorted(cont.attributes):
        a = cont.get_attribute(name)
        out[name] = [np.array(a[i], copy=True) for i in range(n)]
    return out


def attrs_equal(a, b):
    if sorted(a) != sorted(b):
        return 'attribute names %r vs %r' % (sorted(a), sorted(b))
    for k in a:
        for i, (x, y) in enumerate(zip(a[k], b[k])):
            if np.shape(x) != np.shape(y) or not np.all(np.asarray(x) == np.asarray(y)):
                return 'attribute %r differs at element %d: %r vs %r' % (k, i, x, y)
    return None


CONTAINERS = ('vertices', 'edges', 'faces', 'cells', 'face_corners', 'cell_corners', 'cell_faces')


def check_copy(build):
    for ca in (False, True):
        for cc in (False, True):
            opts = 'copy(copy_attributes=%s, copy_connectivity=%s)' % (ca, cc)
            pr = build()
            m = pr['mesh']
            n = len(m.vertices)
            # give the source some attributes
            sa = m.vertices.create_attribute('c06_scalar', float)
            va = m.vertices.create_attribute('c06_vec', float, 3, dense=True)
            for i in range(n):
                if i % 2 == 0:
                    sa[i] = 0.5 * i + 1
                va[i] = [i, -i, 2.5]
            if hasattr(m, 'faces') and len(m.faces):
                fa_ = m.faces.create_attribute('c06_face', int)
                fa_[0] = 4
                fv = m.faces.create_attribute('c06_fvec', float, 2)
                fv[len(m.faces) - 1] = [1.5, 2.5]
            P0, E0, C0 = coords(m), elems(m), corners(m)
            A0 = {c: attr_values(getattr(m, c), len(getattr(m, c))) for c in CONTAINERS if hasattr(m, c)}
            try:
                c = M.mesh.copy(m, copy_attributes=ca, copy_connectivity=cc)
            except Exception as e:
                return '%s raised %s: %s' % (opts, type(e).__name__, e)
            if type(c) is not type(m):
                return '%s returned a %s for a %s' % (opts, type(c).__name__, type(m).__name__)
            if len(P0) != len(c.vertices) or not np.array_equal(coords(c), P0):
                return '%s: coordinates of the copy differ from the source (%d vs %d vertices)' % (opts, len(c.vertices), len(P0))
            if elems(c) != E0:
                return '%s: element lists of the copy differ from the source' % opts
            if corners(c) != C0:
                return '%s: corner containers of the copy differ from the source' % opts
            if coords(m).tolist() != P0.tolist() or elems(m) != E0 or corners(m) != C0:
                return '%s changed its source' % opts
            if ca:
                for cn in A0:
                    e = attrs_equal(A0[cn], attr_values(getattr(c, cn), len(getattr(c, cn))))
                    if e:
                        return '%s: attributes on %s not equal: %s' % (opts, cn, e)
            # no shared mutable state: objects
            for cn in CONTAINERS:
                if not hasattr(m, cn):
                    continue
                a, b = getattr(m, cn), getattr(c, cn)
                if a is b:
                    return '%s: container %s is the same object in the copy and the source' % (opts, cn)
                for fld in ('_data', '_elem', '_adj', '_attr'):
                    if hasattr(a, fld) and getattr(a, fld) is getattr(b, fld):
                        return '%s: %s.%s is the same object in the copy and the source' % (opts, cn, fld)
                if ca:
                    for name in a.attributes:
                        if b.has_attribute(name) and (a.get_attribute(name) is b.get_attribute(name) or a.get_attribute(name)._data is b.get_attribute(name)._data
                                                      or (isinstance(a.get_attribute(name)._data, np.ndarray) and np.shares_memory(a.get_attribute(name)._data, b.get_attribute(name)._data))):
                            return '%s: attribute %r on %s shares its storage with the source' % (opts, name, cn)
            for i in range(n):
                if c.vertices[i] is m.vertices[i] or np.shares_memory(np.asarray(c.vertices[i]), np.asarray(m.vertices[i])):
                    return '%s: vertex %d of the copy shares its coordinate array with the source' % (opts, i)
            for what in ('edges', 'faces', 'cells'):
                if hasattr(m, what):
                    for i in range(len(getattr(m, what))):
                        x, y = getattr(m, what)[i], getattr(c, what)[i]
                        if x is y and not isinstance(x, tuple):
                            return '%s: %s[%d] is the same mutable object (%s) in the copy and the source' % (opts, what, i, type(x).__name__)
            # behaviour: edit the copy everywhere, the source must not change; then the reverse
            for first, second, who in ((c, m, 'copy'), (m, c, 'source')):
                B = (coords(second), elems(second), corners(second), {cn: attr_values(getattr(second, cn), len(getattr(second, cn))) for cn in CONTAINERS if hasattr(second, cn)})
                for i in range(len(first.vertices)):
                    first.vertices[i][2] = 11. + i
                first.vertices.append(fvec(1, 2, 3))
                for what in ('edges', 'faces', 'cells'):
                    if hasattr(first, what) and len(getattr(first, what)):
                        cont = getattr(first, what)
                        if isinstance(cont[0], list):
                            cont[0][0] = 12345
                        else:
                            cont[0] = tuple(reversed(tuple(cont[0])))
                        cont.append(tuple(cont[-1]))
                if hasattr(first, 'face_corners') and len(first.face_corners):
                    first.face_corners._elem[0] = 777
                    first.face_corners.append(0, 0)
                if True:
                    for cn in CONTAINERS:
                        if hasattr(first, cn):
                            cont = getattr(first, cn)
                            for name in list(cont.attributes):
                                a = cont.get_attribute(name)
                                if len(cont) == 0:
                                    continue
                                try:
                                    v = a[0]
                                    if np.ndim(v) > 0:
                                        v[0] = 31415.0       # in-place change of a stored vector value
                                        a[0] = v
                                    else:
                                        a[0] = type(a[0])(99) if not isinstance(a[0], (bool, np.bool_)) else (not a[0])
                                except Exception:
                                    pass
                now = (coords(second), elems(second), corners(second), {cn: attr_values(getattr(second, cn), len(getattr(second, cn))) for cn in CONTAINERS if hasattr(second, cn)})
                if now[0].shape != B[0].shape or not np.array_equal(now[0], B[0]):
                    return '%s: editing the %s changed the coordinates / vertex count of the other mesh' % (opts, who)
                if now[1] != B[1]:
                    return '%s: editing the %s changed the element lists of the other mesh' % (opts, who)
                if now[2] != B[2]:
                    return '%s: editing the %s changed the corner containers of the other mesh' % (opts, who)
                for cn in B[3]:
                    e = attrs_equal(B[3][cn], now[3][cn])
                    if e:
                        return '%s: editing the %s changed attributes of the other mesh on %s: %s' % (opts, who, cn, e)
    return None


def check_copy_connectivity(build, name):
    pr = build()
    m = pr['mesh']
    if not hasattr(m, 'connectivity'):
        return None
    if hasattr(m, 'faces'):
        m.connectivity.vertex_to_faces(0)
    c = M.mesh.copy(m, copy_connectivity=True)
    if c.connectivity is m.connectivity:
        return 'copy(copy_connectivity=True): copy.connectivity is the very object source.connectivity (its .mesh is the %s): shared mutable state' % (
            'source' if c.connectivity.mesh is m else 'copy')
    if c.connectivity.mesh is not c:
        return 'copy(copy_connectivity=True): copy.connectivity.mesh is not the copy'
    return None


CHECKS = ['structure', 'copy', 'copy_connectivity', 'translate', 'translate_by_own_vertex', 'rotate', 'scale', 'scale_xyz', 'scale_xyz_default_origin',
          'normalize', 'translate_to_origin', 'flatten', 'edit']
CC_PRODUCERS = ('unit_grid_3x5', 'load_mesh_polyline', 'load_mesh_volume')     # one per mesh type with a connectivity object
PARAM_PRODUCERS = ('torus_5x3', 'load_obj_surface')                             # transform-parameter clauses that do not depend on the producer (vertex 0 is not the origin)


def applicable(name, check):
    if check == 'structure':
        return name.startswith('merge_')
    if check == 'edit':
        return name.startswith('merge_') or name.startswith('copy_')
    if check == 'copy_connectivity':
        return name in CC_PRODUCERS
    if check in ('translate_by_own_vertex', 'scale_xyz_default_origin'):
        return name in PARAM_PRODUCERS
    return True


def where(e):
    import traceback
    tb = traceback.extract_tb(e.__traceback__)
    lib = [f for f in tb if '/mouette/' in f.filename]
    return (' at %s:%d' % (lib[-1].filename.split('/mouette/')[-1], lib[-1].lineno)) if lib else ' (raised in the oracle at line %d)' % tb[-1].lineno


def run_producer(name, build, checks):
    """-> (failed checks, error text, number of checks run)"""
    try:
        pr = build()
        if pr['mesh'] is None:
            return ['build'], 'build: the producer returned None', 1
    except Exception as e:
        return ['build'], 'build: producing the mesh raised %s: %s%s' % (type(e).__name__, e, where(e)), 1
    failed, errs, k = [], [], 0
    for check in checks:
        if not applicable(name, check):
            continue
        k += 1
        err = run_check(name, build, check)
        if err:
            failed.append(check)
            errs.append('%s: %s' % (check, err if len(err) < 420 else err[:420] + '...'))
    return failed, ' || '.join(errs), k


def run_check(name, build, check):
    try:
        if check == 'structure':
            return check_structure(build)
        if check == 'copy':
            return check_copy(build)
        if check == 'copy_connectivity':
            return check_copy_connectivity(build, name)
        if check == 'edit':
            return check_edit(build, name)
        return {'translate': check_translate, 'rotate': check_rotate, 'scale': check_scale, 'scale_xyz': check_scale_xyz, 'normalize': check_normalize,
                'translate_to_origin': check_translate_to_origin, 'flatten': check_flatten, 'translate_by_own_vertex': check_translate_by_own_vertex,
                'scale_xyz_default_origin': check_scale_xyz_default_origin}[check](build)
    except Exception as e:
        return 'raised %s: %s%s' % (type(e).__name__, e, where(e))


# ----------------------------------------------------------------------------------------------------------------------
# sequences of copy / merge / transform calls over a pool of meshes, against a numpy model

BASES = {'A': A_quads, 'B': B_tris, 'L': L_poly, 'V': V_tets, 'PC': PC_points}
TVECS = [[1., 0., 0.], [-0.5, 2., 0.25], [0., -3., 1.5]]
ANGLES = [[0., 0., np.pi / 2], [0.3, -1.1, 0.7], [2., 0.2, -0.4]]
ORIGS = [None, [1., -1., 0.5]]
FACTORS = [2., 0.5, -1.25]


def model_of(m):
    return {'P': coords(m), 'E': elems(m), 'type': type(m).__name__}


def seq_apply(pool, model, op):
    """apply op on the real meshes and on the model"""
    kind = op[0]
    if kind == 'copy':
        pool.append(M.mesh.copy(pool[op[1]], copy_attributes=bool(op[2])))
        model.append({'P': model[op[1]]['P'].copy(), 'E': {k: [tuple(x) for x in v] for k, v in model[op[1]]['E'].items()}, 'type': model[op[1]]['type']})
    elif kind == 'merge':
        pool.append(M.mesh.merge([pool[i] for i in op[1]]))
        off, P, E, order = 0, [], {'edges': [], 'faces': [], 'cells': []}, ['PointCloud', 'PolyLine', 'SurfaceMesh', 'VolumeMesh']
        typ = 0
        for i in op[1]:
            P.append(model[i]['P'])
            for k in E:
                E[k] += [tuple(x + off for x in e) for e in model[i]['E'].get(k, [])]
            typ = max(typ, order.index(model[i]['type']))
            off += len(model[i]['P'])
        model.append({'P': np.vstack(P), 'E': E, 'type': order[typ]})
    else:
        m, md = pool[op[1]], model[op[1]]
        P = md['P']
        if kind == 'translate':
            T.translate(m, fvec(*TVECS[op[2]]))
            md['P'] = P + np.array(TVECS[op[2]])
        elif kind == 'rotate':
            o = ORIGS[op[3]]
            Rm = rot_euler(*ANGLES[op[2]])
            if o is None:
                T.rotate(m, list(ANGLES[op[2]]))
            else:
                T.rotate(m, Rotation.from_matrix(Rm), orig=fvec(*o))
            o = np.zeros(3) if o is None else np.array(o)
            md['P'] = o + (P - o) @ Rm.T
        elif kind == 'scale':
            o = ORIGS[op[3]]
            if o is None:
                T.scale(m, FACTORS[op[2]])
            else:
                T.scale(m, FACTORS[op[2]], orig=fvec(*o))
            o = np.zeros(3) if o is None else np.array(o)
            md['P'] = o + FACTORS[op[2]] * (P - o)
        elif kind == 'normalize':
            lo, hi = bbox(P)
            T.normalize(m, center_at_zero=bool(op[2]))
            md['P'] = (P - (lo + hi) / 2) * 2 / (hi - lo).max() if op[2] else (P - lo) / (hi - lo).max()
        elif kind == 'translate_to_origin':
            T.translate_to_origin(m)
            md['P'] = P - P.mean(axis=0)
        elif kind == 'flatten':
            T.flatten(m, op[2])
            md['P'] = P.copy()
            md['P'][:, op[2]] = 0.


def seq_compare(pool, model):
    for i, (m, md) in enumerate(zip(pool, model)):
        if type(m).__name__ != md['type']:
            return 'mesh #%d is a %s, expected %s' % (i, type(m).__name__, md['type'])
        P = coords(m)
        if P.shape != md['P'].shape:
            return 'mesh #%d has %d vertices, expected %d' % (i, len(P), len(md['P']))
        tol = 1e-8 * (1 + np.abs(md['P']).max())
        if not np.allclose(P, md['P'], atol=tol, rtol=0):
            j = int(np.nonzero(np.abs(P - md['P']).max(axis=1) > tol)[0][0])
            return 'mesh #%d vertex %d is at %s, expected %s (%d of %d vertices wrong)' % (i, j, fmt(P[j]), fmt(md['P'][j]), int((np.abs(P - md['P']).max(axis=1) > tol).sum()), len(P))
        el = elems(m)
        for k in ('edges', 'faces', 'cells'):
            a = sorted(tuple(sorted(e)) if k == 'edges' else canon_face(e) if k == 'faces' else e for e in el.get(k, []))
            b = sorted(tuple(sorted(e)) if k == 'edges' else canon_face(tuple(e)) if k == 'faces' else tuple(e) for e in md['E'].get(k, []))
            if a != b:
                return 'mesh #%d %s differ from the expected lists (%d vs %d elements)' % (i, k, len(a), len(b))
    return None


def run_sequence(base, ops):
    """-> error string or None.  mesh ids: 0..len(base)-1 are the base meshes, every copy / merge appends one."""
    try:
        pool = [BASES[b]() for b in base]
        model = [model_of(m) for m in pool]
    except Exception as e:
        return 'building the base meshes raised %s: %s' % (type(e).__name__, e)
    for k, op in enumerate(ops):
        try:
            seq_apply(pool, model, op)
        except Exception as e:
            return 'step %d %r raised %s: %s' % (k, op, type(e).__name__, e)
        e = seq_compare(pool, model)
        if e:
            return 'after step %d %r: %s' % (k, op, e)
    return None


def seq_valid(base, ops):
    n = len(base)
    for op in ops:
        refs = list(op[1]) if op[0] == 'merge' else [op[1]]
        if not refs or any(r < 0 or r >= n for r in refs):
            return False
        if op[0] in ('copy', 'merge'):
            n += 1
    return True


def seq_drop_mesh(base, ops, mid):
    """remove mesh id `mid` (a base mesh or the product of an op) and everything that refers to it; renumber"""
    nb = len(base)
    new_base = list(base)
    new_ops = []
    if mid < nb:
        del new_base[mid]
    ren = {}
    cur_old, cur_new = 0, 0
    for i in range(nb):
        if i != mid:
            ren[i] = cur_new
            cur_new += 1
    cur_old = nb
    for op in ops:
        creates = op[0] in ('copy', 'merge')
        refs = list(op[1]) if op[0] == 'merge' else [op[1]]
        if creates and cur_old == mid:
            cur_old += 1
            continue
        if any(r not in ren for r in refs):
            if op[0] == 'merge':
                keep = [ren[r] for r in refs if r in ren]
                if not keep:
                    if creates:
                        cur_old += 1
                    continue
                new_ops.append(['merge', keep])
                ren[cur_old] = cur_new
                cur_new += 1
                cur_old += 1
                continue
            if creates:
                cur_old += 1
            continue
        if op[0] == 'merge':
            new_ops.append(['merge', [ren[r] for r in refs]])
        else:
            new_ops.append([op[0], ren[op[1]]] + list(op[2:]))
        if creates:
            ren[cur_old] = cur_new
            cur_new += 1
            cur_old += 1
    return new_base, new_ops


def seq_bypass(base, ops, k, src):
    """remove the creating op number k (copy / merge) and let every later reference to its product point at its input `src` instead"""
    cid = len(base) + len([o for o in ops[:k] if o[0] in ('copy', 'merge')])
    f = lambda r: src if r == cid else (r - 1 if r > cid else r)
    out = [list(o) for o in ops[:k]]
    for op in ops[k + 1:]:
        out.append(['merge', [f(r) for r in op[1]]] if op[0] == 'merge' else [op[0], f(op[1])] + list(op[2:]))
    return out


def seq_shrink(base, ops):
    base, ops = list(base), [list(o) for o in ops]
    changed = True
    while changed:
        changed = False
        for k in range(len(ops) - 1, -1, -1):
            if ops[k][0] in ('copy', 'merge'):
                for src in ([ops[k][1]] if ops[k][0] == 'copy' else sorted(set(ops[k][1]))):
                    cand = seq_bypass(base, ops, k, src)
                    if seq_valid(base, cand) and run_sequence(base, cand):
                        ops, changed = cand, True
                        break
                if changed:
                    break
        # drop non-creating ops
        for k in range(len(ops) - 1, -1, -1):
            if ops[k][0] not in ('copy', 'merge'):
                cand = ops[:k] + ops[k + 1:]
                if run_sequence(base, cand):
                    ops, changed = cand, True
        # drop meshes (base or created) with their dependants
        n = len(base) + len([o for o in ops if o[0] in ('copy', 'merge')])
        for mid in range(n - 1, -1, -1):
            nb, no = seq_drop_mesh(base, ops, mid)
            if nb and seq_valid(nb, no) and (len(nb), len(no)) < (len(base), len(ops)) and run_sequence(nb, no):
                base, ops, changed = nb, no, True
                break
        # shorten merge lists, simplify parameters
        for k, op in enumerate(ops):
            if op[0] == 'merge' and len(op[1]) > 1:
                for j in range(len(op[1])):
                    cand = [list(o) for o in ops]
                    cand[k] = ['merge', op[1][:j] + op[1][j + 1:]]
                    if run_sequence(base, cand):
                        ops, changed = cand, True
                        break
            elif op[0] != 'merge':
                for j in range(2, len(op)):
                    if op[j] != 0:
                        cand = [list(o) for o in ops]
                        cand[k][j] = 0
                        if run_sequence(base, cand):
                            ops, changed = cand, True
        for j, b in enumerate(base):
            if b != 'A':
                cand = list(base)
                cand[j] = 'A'
                if run_sequence(cand, ops):
                    base, changed = cand, True
    return base, ops


def random_sequence(rnd):
    base = [rnd.choice(list(BASES)) for _ in range(rnd.randint(1, 3))]
    n = len(base)
    ops = []
    for _ in range(rnd.randint(2, 8)):
        r = rnd.random()
        if r < 0.2:
            ops.append(['copy', rnd.randrange(n), rnd.randint(0, 1)])
            n += 1
        elif r < 0.45:
            ops.append(['merge', [rnd.randrange(n) for _ in range(rnd.randint(1, 3))]])
            n += 1
        else:
            kind = rnd.choice(['translate', 'translate', 'rotate', 'scale', 'normalize', 'translate_to_origin', 'flatten'])
            i = rnd.randrange(n)
            if kind == 'translate':
                ops.append([kind, i, rnd.randrange(len(TVECS))])
            elif kind == 'rotate':
                ops.append([kind, i, rnd.randrange(len(ANGLES)), rnd.randrange(len(ORIGS))])
            elif kind == 'scale':
                ops.append([kind, i, rnd.randrange(len(FACTORS)), rnd.randrange(len(ORIGS))])
            elif kind == 'normalize':
                ops.append([kind, i, rnd.randint(0, 1)])
            elif kind == 'flatten':
                ops.append([kind, i, rnd.randrange(3)])
            else:
                ops.append([kind, i])
    return base, ops


def seq_legend():
    return {'bases': 'A=2x3 quad grid, B=3x3 triangle grid, L=polyline(4), V=tetgrid(1), PC=3 points; mesh ids: bases first, then one per copy/merge',
            'translate': TVECS, 'rotate_euler_xyz': ANGLES, 'orig': ORIGS, 'scale': FACTORS,
            'ops': "['copy',id,copy_attributes] ['merge',[ids]] ['translate',id,tvec#] ['rotate',id,angles#,orig#] ['scale',id,factor#,orig#] ['normalize',id,center_at_zero] ['translate_to_origin',id] ['flatten',id,dim]"}


# ----------------------------------------------------------------------------------------------------------------------

def strip(case):
    return json.loads(json.dumps({k: v for k, v in case.items() if k not in ('error', 'legend')}, default=str))


def main():
    global TMP
    req = read_request()
    mode = req.get('mode', 'bounded')
    seed = int(req.get('seed', 0) or 0)
    thorough = req.get('tier') == 'thorough'
    known = [strip(k) for k in (req.get('known') or [])]
    known_hit = []
    budget = Budget(270 if thorough else 50)
    TMP = tempfile.mkdtemp(prefix='c06_')
    n = 0
    try:
        if mode == 'replay':
            case = req.get('case') or {}
            if case.get('kind') == 'sequence':
                err = run_sequence(case['base'], case['ops'])
            else:
                fam = {name: (params, build) for name, params, build in producers(int(case.get('seed', seed)), True)}
                if case.get('producer') not in fam:
                    respond(failing=None, cases=0, note='unknown producer %r' % case.get('producer'))
                failed, err, k = run_producer(case['producer'], fam[case['producer']][1], CHECKS)
                case = dict(case)
                case['failed'] = failed           # the set of failing clauses is part of the descriptor
            out = None
            if err:
                out = dict(strip(case))
                out['error'] = err
            respond(failing=out, cases=1)

        fam = producers(seed, thorough)
        other = {name: params for name, params, _ in producers(seed + 1, thorough)}
        seeded = {name for name, params, _ in fam if json.dumps(params, default=str) != json.dumps(other.get(name), default=str)}
        focus, only = None, None
        if mode == 'search' and req.get('function'):
            last = str(req['function']).split('.')[-1]
            alias = {'fit_into_unit_cube': 'normalize', 'merge': 'structure'}
            if alias.get(last, last) in CHECKS:
                focus = alias.get(last, last)
            else:
                words = {'extract_boundary_of_surface': 'boundary_of_surface', 'extract_boundary_of_volume': 'boundary_of_volume', 'load': 'load_', 'build_path': 'shortest_path',
                         'shortest_path': 'shortest_path', 'loop_subdivision': 'subdiv_loop', 'SurfaceSubdivision': 'subdiv_', 'VolumeSubdivision': 'volsubdiv_',
                         'build_tree_as_polyline': 'edge_tree', '_prepare_vertices': 'from_arrays'}
                key = words.get(last, last)
                hits = [name for name, _, _ in fam if key in name]
                only = set(hits) if hits else None

        def report(case, err):
            case = dict(case)
            if strip(case) in known:
                case['error'] = err
                if strip(case) not in [strip(k) for k in known_hit]:
                    known_hit.append(case)
                return
            case['error'] = err
            respond(failing=case, cases=n, known_hit=known_hit)

        checks = CHECKS if not focus else [c for c in CHECKS if c == focus or c.startswith(focus + '_') or (focus == 'structure' and c == 'edit')]
        for name, params, build in fam:
            if only is not None and name not in only:
                continue
            failed, err, k = run_producer(name, build, checks)
            n += k
            if failed:
                # one case per producer; the list of failing clauses belongs to the descriptor, so a NEW failing clause on a
                # producer that is already known is a new case.  The seed is recorded only where the input depends on it.
                case = {'kind': 'producer', 'producer': name, 'params': params, 'failed': failed}
                if name in seeded:
                    case['seed'] = seed
                report(case, err)
        # sequences
        rnd = random.Random(seed * 7919 + 13)
        count = 0 if only is not None else 400 if thorough else 60
        for _ in range(count):
            if budget.over():
                break
            base, ops = random_sequence(rnd)
            n += 1
            err = run_sequence(base, ops)
            if err:
                sb, so = seq_shrink(base, ops)
                err2 = run_sequence(sb, so) or err
                report({'kind': 'sequence', 'base': sb, 'ops': so, 'legend': seq_legend()}, err2)
        respond(failing=None, cases=n, known_hit=known_hit)
    finally:
        shutil.rmtree(TMP, ignore_errors=True)


main()
