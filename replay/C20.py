"""C20 native oracle: operation scripts on the real UnionFind / PriorityQueue against the abstract
models (partition / multiset).  Used (1) to replay solver counter-models, (2) as the bounded
search that looks for a concrete failing input when an obligation fails."""
import itertools, random, math
from replay.common import *
from mouette.utils import UnionFind, PriorityQueue


class Partition:
    def __init__(self):
        self.cls = {}
        self.order = []

    def add(self, e):
        if e not in self.cls:
            self.cls[e] = len(self.order)
            self.order.append(e)

    def union(self, a, b):
        self.add(a); self.add(b)
        ca, cb = self.cls[a], self.cls[b]
        if ca != cb:
            for k in self.cls:
                if self.cls[k] == cb:
                    self.cls[k] = ca

    def classes(self):
        d = {}
        for e, c in self.cls.items():
            d.setdefault(c, set()).add(e)
        return sorted(map(frozenset, d.values()), key=lambda s: sorted(map(repr, s)))


def check_uf(uf, model, views=True):
    """all observable answers of the real structure against the abstract partition"""
    els = list(model.cls)
    if len(uf) != len(els):
        return 'len=%d expected %d' % (len(uf), len(els))
    if uf.n_elts != len(els):
        return 'n_elts=%d expected %d' % (uf.n_elts, len(els))
    classes = model.classes()
    for e in els:
        if e not in uf:
            return '%r not in uf' % (e,)
    before = [[uf.connected(a, b) for b in els] for a in els]
    for i, a in enumerate(els):
        for j, b in enumerate(els):
            exp = model.cls[a] == model.cls[b]
            if before[i][j] != exp:
                return 'connected(%r,%r)=%r expected %r' % (a, b, before[i][j], exp)
    if uf.n_comps != len(classes):
        return 'n_comps=%d expected %d' % (uf.n_comps, len(classes))
    roots = uf.roots()
    if len(roots) != len(classes):
        return 'roots()=%r has %d entries, partition has %d classes' % (sorted(roots), len(roots), len(classes))
    seen = set()
    for r in roots:
        if not (isinstance(r, (int,)) or hasattr(r, '__index__')) or not (0 <= r < len(els)):
            return 'root %r is not an element index' % (r,)
        seen.add(model.cls[uf[r]])
        if uf.find(uf[r]) != r:
            return 'root %r is not the representative of its own element' % (r,)
    if len(seen) != len(classes):
        return 'roots() does not have one root per class: %r' % (sorted(roots),)
    comps = uf.components()
    got = sorted(map(frozenset, comps), key=lambda s: sorted(map(repr, s)))
    if got != classes or sum(len(c) for c in comps) != len(els):
        return 'components()=%r expected %r' % (comps, [sorted(map(repr, c)) for c in classes])
    if views:
        for e in els:
            c = uf.component(e)
            exp = {x for x in els if model.cls[x] == model.cls[e]}
            if set(c) != exp:
                return 'component(%r)=%r expected %r' % (e, c, exp)
        cm = uf.component_mapping()
        if set(cm) != set(els):
            return 'component_mapping keys %r' % (sorted(map(repr, cm)),)
        for e in els:
            exp = {x for x in els if model.cls[x] == model.cls[e]}
            if set(cm[e]) != exp:
                return 'component_mapping[%r]=%r expected %r' % (e, cm[e], exp)
    # queries must not change the partition
    for i, a in enumerate(els):
        for j, b in enumerate(els):
            if uf.connected(a, b) != before[i][j]:
                return 'partition changed by queries'
    return None


def run_uf_script(script, views=True, check_each=True, first_query=None):
    try:
        return _run_uf_script(script, views, check_each, first_query)
    except Exception as e:
        return 'exception %s: %s' % (type(e).__name__, e)


def _run_uf_script(script, views=True, check_each=True, first_query=None):
    uf, model = UnionFind(), Partition()
    for k, op in enumerate(script):
        if op[0] == 'add':
            uf.add(op[1]); model.add(op[1])
        elif op[0] == 'union':
            uf.union(op[1], op[2]); model.union(op[1], op[2])
        elif op[0] == 'find':
            if op[1] in model.cls:
                r = uf.find(op[1])
                if not (0 <= r < len(model.cls)) or model.cls[uf[r]] != model.cls[op[1]]:
                    return 'find(%r)=%r not in the class' % (op[1], r)
            else:
                try:
                    uf.find(op[1])
                    return 'find of absent element did not raise'
                except ValueError:
                    pass
        if check_each or k == len(script) - 1:
            if first_query == 'roots':
                # query order matters for lazily compressed forests: roots()/components() FIRST
                roots = uf.roots()
                if len(roots) != len(model.classes()):
                    return 'roots()=%r (queried first) has %d entries, partition has %d classes' % (sorted(roots), len(roots), len(model.classes()))
                comps = uf.components()
                if sorted(map(frozenset, comps), key=lambda s: sorted(map(repr, s))) != model.classes():
                    return 'components()=%r (queried first)' % (comps,)
            err = check_uf(uf, model, views)
            if err:
                return err
    return None


def uf_scripts(elts, maxlen):
    ops = [('add', e) for e in elts] + [('union', a, b) for a in elts for b in elts] + [('find', e) for e in elts[:1]]
    for n in range(1, maxlen + 1):
        for s in itertools.product(ops, repeat=n):
            yield list(s)


# ---------------------------------------------------------------- priority queue

def run_pq_script(script):
    try:
        return _run_pq_script(script)
    except Exception as e:
        return 'exception %s: %s' % (type(e).__name__, e)


def _run_pq_script(script):
    q = PriorityQueue()
    model = []      # list of (x, p)
    for op in script:
        if q.empty() != (len(model) == 0):
            return 'empty()=%r but model has %d pending item(s): %r' % (q.empty(), len(model), model)
        if op[0] == 'push':
            q.push(op[1], op[2]); model.append((op[1], op[2]))
        elif op[0] in ('get', 'pop'):
            if not model:
                try:
                    getattr(q, op[0])()
                    return '%s on empty queue did not raise' % op[0]
                except IndexError:
                    continue
            it = getattr(q, op[0])()
            key = (it.x, it.priority)
            if key not in model:
                return '%s() returned %r which is not pending (%r)' % (op[0], key, model)
            mn = min(p for _, p in model)
            if it.priority != mn:
                return '%s() returned priority %r, minimum pending is %r' % (op[0], it.priority, mn)
            model.remove(key)
        elif op[0] == 'front':
            if model:
                f = q.front
                if (f.x, f.priority) not in model or f.priority != min(p for _, p in model):
                    return 'front=%r not a minimum pending item' % ((f.x, f.priority),)
    if q.empty() != (len(model) == 0):
        return 'empty()=%r but model has %d pending item(s)' % (q.empty(), len(model))
    # drain
    out = []
    while not q.empty():
        it = q.get()
        out.append((it.x, it.priority))
        if len(out) > len(model) + 2:
            break
    if sorted(map(repr, out)) != sorted(map(repr, model)):
        return 'drain gives %r, pending were %r' % (out, model)
    if [p for _, p in out] != sorted(p for _, p in out):
        return 'drain not in non-decreasing priority order: %r' % (out,)
    return None


def pq_scripts(maxlen):
    pushes = [('push', x, p) for x in ('a', 'b') for p in (1.0, 1.0, -2.5, float('inf'), float('-inf'))]
    pushes = list(dict.fromkeys(pushes))
    ops = pushes + [('get',), ('pop',), ('front',)]
    for n in range(1, maxlen + 1):
        for s in itertools.product(ops, repeat=n):
            yield list(s)


def search(req, seconds=120):
    fn = req.get('function', '') or ''
    bud = Budget(seconds)
    cases = 0
    if 'priority_queue' in fn or req.get('name') in ('pq',):
        for s in pq_scripts(5 if req.get('tier') == 'thorough' else 4):
            cases += 1
            err = run_pq_script(s)
            if err:
                return {'kind': 'pq-script', 'script': s, 'error': err}, cases
            if bud.over():
                break
        return None, cases
    views = req.get('name') == 'uf-views' or 'component' in fn
    fam = [((0, 1, 2), 3), ((0, 1, 2, 3), 3), (('a', 'b', 'c'), 2)]
    if views and req.get('mode') == 'bounded':
        fam = [((0, 1, 2), 3), (('a', 'b', 'c'), 3)]
    for elts, L in fam:
        for s in uf_scripts(list(elts), L):
            cases += 1
            for fq in (None, 'roots'):
                err = run_uf_script(s, views=views, check_each=False, first_query=fq)
                if err:
                    return {'kind': 'uf-script', 'script': s, 'first_query': fq, 'error': err}, cases
            if bud.over():
                break
    # deeper forests: random longer scripts over 6 elements (deterministic seed)
    rnd = random.Random(req.get('seed', 0))
    for _ in range(3000):
        if bud.over():
            break
        els = list(range(6))
        s = [('union', rnd.choice(els), rnd.choice(els)) for _ in range(rnd.randint(3, 7))]
        cases += 1
        for fq in (None, 'roots'):
            err = run_uf_script(s, views=views, check_each=False, first_query=fq)
            if err:
                return {'kind': 'uf-script', 'script': s, 'first_query': fq, 'error': err}, cases
    return None, cases


def replay(case):
    if case is None:
        return None
    if case.get('kind') == 'pq-script':
        return run_pq_script([tuple(o) for o in case['script']])
    if case.get('kind') == 'uf-script':
        conv = lambda x: tuple(x) if isinstance(x, list) else x
        s = [tuple([o[0]] + [conv(a) for a in o[1:]]) for o in case['script']]
        return run_uf_script(s, views=case.get('views', False), check_each=False, first_query=case.get('first_query'))
    return None


def main():
    req = read_request()
    if req['mode'] == 'replay':
        err = replay(req.get('case'))
        respond(failing=req.get('case') if err else None, cases=1, error_message=err)
    f, cases = search(req, 100 if req['mode'] == 'search' else 240)
    respond(failing=f, cases=cases)


main()
