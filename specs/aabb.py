"""Contracts for mouette/geometry/aabb.py, rotations.py, utils/maths.py (property C12; AABB.distance also C11).
Boxes are verified at dimension 3 (the code is dimension-generic through numpy's elementwise operations, which
the facade models componentwise: a stated restriction of the proof, not of the code)."""
from pyvc.spec import *
import specs.geometry

A = 'mouette.geometry.aabb.AABB'
klass(A, fields={'_p1': 'Vec3', '_p2': 'Vec3'})
for p in ('dim', 'mini', 'maxi', 'span', 'center'):
    fn(A + '.' + p, inline=True)

predicate('inbox', 'b, p', 'b._p1[0] <= p[0] and p[0] <= b._p2[0] and b._p1[1] <= p[1] and p[1] <= b._p2[1] and b._p1[2] <= p[2] and p[2] <= b._p2[2]')
predicate('valid_box', 'b', 'b._p1[0] <= b._p2[0] and b._p1[1] <= b._p2[1] and b._p1[2] <= b._p2[2]')
predicate('clamp', 'x, lo, hi', '(lo if x < lo else (hi if x > hi else x))')
predicate('gap', 'x, lo, hi', '(lo - x if x < lo else (x - hi if x > hi else 0))')

fn(A + '.__init__', properties=['C12'], params={'p_min': 'Vec3', 'p_max': 'Vec3'}, modifies=['self.*'],
   ensures=['self._p1 == p_min', 'self._p2 == p_max'])

fn(A + '.contains_point', properties=['C12'], params={'pt': 'Vec3'}, returns='bool',
   ensures=['result == (self._p1[0] <= pt[0] and pt[0] < self._p2[0] and self._p1[1] <= pt[1] and pt[1] < self._p2[1] '
            'and self._p1[2] <= pt[2] and pt[2] < self._p2[2])'])

fn(A + '.project', properties=['C12'], params={'pt': 'Vec3'}, returns='Vec3',
   requires=['valid_box(self)'],
   ensures=['inbox(self, result)',
            # the projection is the componentwise clamp, i.e. the closest point of the closed box in every norm
            'result[0] == clamp(pt[0], self._p1[0], self._p2[0])', 'result[1] == clamp(pt[1], self._p1[1], self._p2[1])',
            'result[2] == clamp(pt[2], self._p1[2], self._p2[2])',
            'implies(inbox(self, pt), result == pt)'])

fn(A + '.distance', properties=['C12', 'C11'], params={'pt': 'Vec3', 'which': 'str'}, returns='real',
   ghost_params={'gx': 'Vec3'},      # an arbitrary point: pruning soundness of the k-d tree (C11) is stated for every point of the box
   requires=['valid_box(self)', 'which == "l2" or which == "l1" or which == "linf"'],
   lets={'g0': 'gap(pt[0], self._p1[0], self._p2[0])', 'g1': 'gap(pt[1], self._p1[1], self._p2[1])', 'g2': 'gap(pt[2], self._p1[2], self._p2[2])'},
   ensures=['result >= 0',
            'implies(which == "l2", result*result == g0*g0 + g1*g1 + g2*g2)',
            'implies(which == "l1", result == g0 + g1 + g2)',
            'implies(which == "linf", result >= g0 and result >= g1 and result >= g2 and (result == g0 or result == g1 or result == g2))',
            'implies(inbox(self, pt), result == 0)',
            # no point of the box is closer to pt than the box distance (what the k-d tree prunes with)
            'implies(which == "l2" and inbox(self, gx), result*result <= dist2(pt, gx))'])

fn(A + '.intersection', properties=['C12'], params={'b1': 'AABB', 'b2': 'AABB'}, returns='AABB',
   ensures=['result._p1[0] == max(b1._p1[0], b2._p1[0]) and result._p1[1] == max(b1._p1[1], b2._p1[1]) and result._p1[2] == max(b1._p1[2], b2._p1[2])',
            'result._p2[0] == min(b1._p2[0], b2._p2[0]) and result._p2[1] == min(b1._p2[1], b2._p2[1]) and result._p2[2] == min(b1._p2[2], b2._p2[2])'])

fn(A + '.do_intersect', properties=['C12'], params={'b1': 'AABB', 'b2': 'AABB'}, returns='bool',
   requires=['valid_box(b1)', 'valid_box(b2)'],
   # intersect exactly when the componentwise overlap has non-negative extent in every dimension
   ensures=['result == (max(b1._p1[0], b2._p1[0]) <= min(b1._p2[0], b2._p2[0]) and max(b1._p1[1], b2._p1[1]) <= min(b1._p2[1], b2._p2[1]) '
            'and max(b1._p1[2], b2._p1[2]) <= min(b1._p2[2], b2._p2[2]))'])

fn(A + '.union', properties=['C12'], params={'b1': 'AABB', 'b2': 'AABB'}, returns='AABB',
   ensures=['result._p1[0] == min(b1._p1[0], b2._p1[0]) and result._p1[1] == min(b1._p1[1], b2._p1[1]) and result._p1[2] == min(b1._p1[2], b2._p1[2])',
            'result._p2[0] == max(b1._p2[0], b2._p2[0]) and result._p2[1] == max(b1._p2[1], b2._p2[1]) and result._p2[2] == max(b1._p2[2], b2._p2[2])'])

fn(A + '.is_empty', properties=['C12', 'C19'], returns='bool',
   ensures=['result == (self._p1[0] >= self._p2[0] or self._p1[1] >= self._p2[1] or self._p1[2] >= self._p2[2])'])

fn(A + '.pad', properties=['C12'], params={'pad': 'Vec3'}, modifies=['self._p1', 'self._p2'],
   ensures=['self._p1[0] == old(self._p1[0]) - max(pad[0], 0) and self._p1[1] == old(self._p1[1]) - max(pad[1], 0) and self._p1[2] == old(self._p1[2]) - max(pad[2], 0)',
            'self._p2[0] == old(self._p2[0]) + max(pad[0], 0) and self._p2[1] == old(self._p2[1]) + max(pad[1], 0) and self._p2[2] == old(self._p2[2]) + max(pad[2], 0)'])

R = 'mouette.geometry.rotations.'
fn(R + 'rotate_2d', properties=['C12'], params={'v': 'Vec2', 'angle': 'real'}, returns='Vec2',
   ensures=['sq2(result) == sq2(v)'])      # isometry (from sin^2+cos^2 = 1)

# rotate_around_axis (Rodrigues through a normalised axis): degree-6 NRA, z3 undecided within budget -> bounded stand-in

Mth = 'mouette.utils.maths.'
fn(Mth + 'principal_angle', properties=['C12'], params={'a': 'real'}, returns='real',
   ensures=['-pi <= result and result <= pi'],
   note='congruence modulo 2*pi (exists k: result == a + 2*pi*k) is nonlinear in (pi, k): left to the bounded stand-in')
fn(Mth + 'angle_diff', properties=['C12'], params={'a': 'real', 'b': 'real'}, returns='real',
   ensures=['-pi <= result and result <= pi'])
