"""Contracts for mouette/mesh/mesh_attributes.py and data_container.py (property C05) -- the part within reach:
type lattice, bounds check, size bookkeeping.  Storage (numpy arrays, dynamically typed values) is covered by
the bounded stand-in (operation scripts comparing sparse and dense storage)."""
from pyvc.spec import *

MA = 'mouette.mesh.mesh_attributes.'
# enum members of Attribute.Type in declaration order: Bool=0, Int=1, Float=2, Complex=3, String=4
fn(MA + '_BaseAttribute._can_be_casted', properties=['C05'], params={'ta': 'int', 'tb': 'int'}, returns='bool',
   requires=['0 <= ta and ta <= 4', '0 <= tb and tb <= 4'],
   # bool -> int -> float widening only
   ensures=['result == (ta == tb or (ta == 0 and tb == 1) or (ta == 0 and tb == 2) or (ta == 1 and tb == 2))'])

klass(MA + 'ArrayAttribute', fields={'n_elem': 'int', 'elemsize': 'int'})
fn(MA + 'ArrayAttribute._check_out_of_bounds', properties=['C05'], params={'key': 'int'},
   requires=['self.n_elem >= 0'],
   # every index outside [0, size), the size included, is out of bounds
   raises={'OutOfBoundsError': 'key < 0 or key >= self.n_elem'})
fn(MA + 'ArrayAttribute.__len__', properties=['C05'], returns='int', ensures=['result == self.n_elem'])
