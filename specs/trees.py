"""Contracts for mouette/processing/trees (property C10) -- exclusion predicate of the vertex tree and the
union-find it builds on.  BFS / Kruskal loops are covered by the bounded stand-in."""
from pyvc.spec import *
import specs.unionfind

ufunc('eid', ['int', 'int'], 'opt[int]')       # the mesh's edge identifier (contract of C01: symmetric, None for non-edges)
ufunc('border_edge', ['int', 'int'], 'bool')   # border classification (contract of C01)

klass('TConn', real='mouette.mesh.datatypes.surface.SurfaceMesh._Connectivity', fields={})
klass('TMesh', real='mouette.mesh.datatypes.surface.SurfaceMesh', fields={'connectivity': 'TConn'})
fn('mouette.mesh.datatypes.linear.PolyLine._Connectivity.edge_id', params={'self': 'TConn', 'V1': 'int', 'V2': 'int'}, returns='opt[int]', trusted=True,
   ensures=['result == eid(V1, V2)'], note='C01: edge identifier of the unordered pair')
fn('mouette.mesh.datatypes.surface.SurfaceMesh.is_edge_on_border', params={'self': 'TMesh', 'u': 'int', 'v': 'int'}, returns='bool', trusted=True,
   ensures=['result == border_edge(u, v)'], note='C01: border classification of an edge')

EST = 'mouette.processing.trees.edge_sp.EdgeSpanningTree'
klass(EST, fields={'mesh': 'TMesh', '_avoidbound': 'bool', '_avoidedges': 'opt[set[int]]'})
fn(EST + '._avoid_edge', properties=['C10'], params={'a': 'int', 'b': 'int'}, returns='bool',
   # an edge is excluded exactly when it is in the exclusion set, or on the border when the border is to be avoided
   ensures=['result == ((self._avoidedges is not None and eid(a, b) is not None and eid(a, b) in self._avoidedges) '
            '           or (self._avoidbound and border_edge(a, b)))'],
   note='surface / volume meshes (isinstance(mesh, PolyLine) is False for the typed receiver)')
