"""Contracts for the closed-form generators of mouette/procedural (property C14): triangle, quad, tetrahedron, hexahedron,
hexahedron_4pts.  No loop: the face lists are literals, so "closed, consistently oriented manifold" is a finite statement over the
returned rows (every directed edge occurs exactly once and its reverse exactly once), proved for every choice of the points and switches."""
from pyvc.spec import *
import specs.geometry, specs.mesh_model, specs.procedural

P = 'mouette.procedural.'
klass('BuiltMesh', fields={'vertices': 'VContainer', 'faces': 'RContainer', 'edges': 'RContainer', 'cells': 'RContainer'})
fn('mouette.mesh.mesh._instanciate_raw_mesh_data', params={'mesh_data': 'RawMeshData', 'dim': 'opt[int]'}, returns='BuiltMesh', trusted=True,
   ensures=['len(result.vertices._data) == len(mesh_data.vertices._data)',
            'all(result.vertices._data[i] == mesh_data.vertices._data[i] for i in range(len(mesh_data.vertices._data)))',
            'len(result.faces._data) == len(mesh_data.faces._data)',
            'all(result.faces._data[i] == mesh_data.faces._data[i] for i in range(len(mesh_data.faces._data)))',
            'len(result.cells._data) == len(mesh_data.cells._data)',
            'all(result.cells._data[i] == mesh_data.cells._data[i] for i in range(len(mesh_data.cells._data)))'],
   note='C02 contract of prepare(): vertices, declared faces and cells are kept in order (generators that declare faces AND cells; faces completed from cells come after the declared ones)')

# every directed edge of every face has its reverse in exactly one place, and occurs itself in exactly one place:
# closed + manifold + consistently oriented (nf faces of arity k)
predicate('closed_oriented', 'F, nf, k', '''all(all(
      any(any(F[g][j] == F[f][(i + 1) % k] and F[g][(j + 1) % k] == F[f][i] for j in range(k)) for g in range(nf))
      and all(all(implies(F[g][j] == F[f][i] and F[g][(j + 1) % k] == F[f][(i + 1) % k], g == f and j == i) for j in range(k)) for g in range(nf))
      and F[f][i] != F[f][(i + 1) % k]
    for i in range(k)) for f in range(nf))''')
predicate('rows_k', 'F, nf, k, nv', 'len(F) == nf and all(len(F[f]) == k and all(0 <= F[f][i] and F[f][i] < nv for i in range(k)) for f in range(nf))')

fn(P + 'flat.triangle', properties=['C14'], params={'P0': 'Vec3', 'P1': 'Vec3', 'P2': 'Vec3'}, returns='BuiltMesh', locals={'out': 'RawMeshData'},
   ensures=['len(result.vertices._data) == 3', 'result.vertices._data[0] == P0 and result.vertices._data[1] == P1 and result.vertices._data[2] == P2',
            'len(result.faces._data) == 1', 'row3(result.faces._data[0], 0, 1, 2)'])

fn(P + 'flat.quad', properties=['C14'], cases=[{'triangulate': False}, {'triangulate': True}],
   params={'P0': 'Vec3', 'P1': 'Vec3', 'P2': 'Vec3', 'triangulate': 'bool'}, returns='BuiltMesh', locals={'out': 'RawMeshData'},
   ensures=['len(result.vertices._data) == 4',
            # the requested corners, the fourth one completing the parallelogram, in cyclic order P0 P1 P3 P2
            'result.vertices._data[0] == P0 and result.vertices._data[1] == P1 and result.vertices._data[3] == P2 and result.vertices._data[2] == P1 + P2 - P0',
            'implies(not triangulate, len(result.faces._data) == 1 and row4(result.faces._data[0], 0, 1, 2, 3))',
            'implies(triangulate, len(result.faces._data) == 2 and row3(result.faces._data[0], 0, 1, 2) and row3(result.faces._data[1], 0, 2, 3))'])

fn(P + 'shapes.tetrahedron', properties=['C14'], cases=[{'volume': False}, {'volume': True}],
   params={'P1': 'Vec3', 'P2': 'Vec3', 'P3': 'Vec3', 'P4': 'Vec3', 'volume': 'bool'}, returns='BuiltMesh', locals={'tet': 'RawMeshData'},
   ensures=['len(result.vertices._data) == 4',
            'result.vertices._data[0] == P1 and result.vertices._data[1] == P2 and result.vertices._data[2] == P3 and result.vertices._data[3] == P4',
            'rows_k(result.faces._data, 4, 3, 4)',
            # face i is opposite vertex i
            'all(all(result.faces._data[f][i] != f for i in range(3)) for f in range(4))',
            'closed_oriented(result.faces._data, 4, 3)',
            # the volume switch is honoured
            'implies(not volume, len(result.cells._data) == 0)',
            'implies(volume, len(result.cells._data) == 1 and row4(result.cells._data[0], 0, 1, 2, 3))'])

HEXA = {'P1': 'Vec3', 'P2': 'Vec3', 'P3': 'Vec3', 'P4': 'Vec3', 'P5': 'Vec3', 'P6': 'Vec3', 'P7': 'Vec3', 'P8': 'Vec3', 'colored': 'bool', 'triangulate': 'bool', 'volume': 'bool'}
fn(P + 'shapes.hexahedron', properties=['C14'],
   cases=[{'colored': False, 'triangulate': False, 'volume': False}, {'colored': False, 'triangulate': True, 'volume': False},
          {'colored': False, 'triangulate': False, 'volume': True}, {'colored': False, 'triangulate': True, 'volume': True}],
   params=HEXA, returns='BuiltMesh', locals={'hexa': 'RawMeshData'},
   ensures=['len(result.vertices._data) == 8',
            'result.vertices._data[0] == P1 and result.vertices._data[1] == P2 and result.vertices._data[2] == P3 and result.vertices._data[3] == P4',
            'result.vertices._data[4] == P5 and result.vertices._data[5] == P6 and result.vertices._data[6] == P7 and result.vertices._data[7] == P8',
            # switches honoured as named
            'implies(volume, len(result.cells._data) == 1 and len(result.cells._data[0]) == 8 and all(result.cells._data[0][i] == i for i in range(8)) and len(result.faces._data) == 0)',
            'implies(not volume, len(result.cells._data) == 0)',
            'implies(not volume and not triangulate, rows_k(result.faces._data, 6, 4, 8) and closed_oriented(result.faces._data, 6, 4))',
            'implies(not volume and triangulate, rows_k(result.faces._data, 12, 3, 8) and closed_oriented(result.faces._data, 12, 3))'])

fn(P + 'shapes.hexahedron_4pts', properties=['C14'], cases=[{'colored': False, 'volume': False}, {'colored': False, 'volume': True}],
   params={'P1': 'Vec3', 'P2': 'Vec3', 'P3': 'Vec3', 'P4': 'Vec3', 'colored': 'bool', 'volume': 'bool'}, returns='BuiltMesh',
   ensures=['len(result.vertices._data) == 8',
            # the parallelepiped on the basis (P2-P1, P3-P1) with bottom corner P1 and top corner P4
            'result.vertices._data[0] == P1 and result.vertices._data[1] == P2 and result.vertices._data[3] == P3 and result.vertices._data[2] == P2 + P3 - P1',
            'result.vertices._data[4] == P4 and result.vertices._data[5] == P4 + P2 - P1 and result.vertices._data[7] == P4 + P3 - P1 and result.vertices._data[6] == P4 + P2 + P3 - 2*P1',
            # the volume switch is honoured as named: one hexahedral cell, or the six quads of the closed surface
            'implies(volume, len(result.cells._data) == 1 and len(result.faces._data) == 0)',
            'implies(not volume, len(result.cells._data) == 0 and rows_k(result.faces._data, 6, 4, 8) and closed_oriented(result.faces._data, 6, 4))'])
