"""Contracts for mouette/mesh/mesh_data.py / mesh.py (property C02) -- class selection and dimensionality."""
from pyvc.spec import *
import specs.mesh_model

RMD = 'mouette.mesh.mesh_data.RawMeshData'
fn(RMD + '._compute_dimensionality', properties=['C02'], modifies=['self._dimensionality'],
   # the dimension of the highest-dimensional element present
   ensures=['self._dimensionality == (3 if len(self.cells._data) > 0 else (2 if len(self.faces._data) > 0 else (1 if len(self.edges._data) > 0 else 0)))'])

fn(RMD + '.dimensionality', properties=['C02'], returns='int', modifies=['self._dimensionality'],
   requires=['implies(self._dimensionality is not None, self._dimensionality == (3 if len(self.cells._data) > 0 else (2 if len(self.faces._data) > 0 else (1 if len(self.edges._data) > 0 else 0))))'],
   ensures=['result == (3 if len(self.cells._data) > 0 else (2 if len(self.faces._data) > 0 else (1 if len(self.edges._data) > 0 else 0)))'])

# class selection: the class matching the highest-dimensional element present (or the requested minimum)
klass('PreparedRaw', real=RMD, fields={'vertices': 'VContainer', 'edges': 'RContainer', 'faces': 'RContainer', 'cells': 'RContainer',
                                       '_dimensionality': 'opt[int]', '_prepared': 'bool'})
fn(RMD + '.prepare', params={'self': 'PreparedRaw'}, trusted=True, modifies=['self._dimensionality', 'self._prepared'],
   ensures=['self._dimensionality is not None',
            'self._dimensionality == (3 if len(self.cells._data) > 0 else (2 if len(self.faces._data) > 0 else (1 if len(self.edges._data) > 0 else 0)))'],
   note='only the part of the contract of prepare() needed for class selection (dimensionality set from the prepared containers)')
ufunc('built_class', ['int'], 'int')
for i, cls in enumerate(('mouette.mesh.datatypes.pointcloud.PointCloud', 'mouette.mesh.datatypes.linear.PolyLine',
                         'mouette.mesh.datatypes.surface.SurfaceMesh', 'mouette.mesh.datatypes.volume.VolumeMesh')):
    klass('Built%d' % i, fields={'dim': 'int'})

# ---------------------------------------------------------------- face corners
# `first` is a logical parameter: the prefix sums of the face arities (corner numbering of C01/C02):
#   first[0] == 0, first[f+1] == first[f] + len(faces[f]);  builtin sum of the arities == first[nF]  (A6)
predicate('prefix', 'first, rows', 'first[0] == 0 and all(first[f+1] == first[f] + len(rows[f]) and len(rows[f]) >= 0 for f in range(len(rows))) and total_len(rows) == first[len(rows)] '
          'and all(all(first[a] <= first[b] for a in range(b + 1)) for b in range(len(rows) + 1))')   # monotone (follows from the recurrence by induction: M)
predicate('corners_of', 'cc, rows, first, upto', '''all(all(cc._elem[first[f] + i] == rows[f][i] and cc._adj[first[f] + i] == f for i in range(len(rows[f]))) for f in range(upto))''')

fn(RMD + '._generate_face_corners', properties=['C02'],
   ghost_params={'first': 'map[int,int]'},
   requires=['prefix(first, self.faces._data)', 'len(self.face_corners._elem) == len(self.face_corners._adj)', 'len(self.face_corners._attr) == 0',
             # a table of the right length is taken as already generated (the readers pre-fill it): then it must be right
             'implies(len(self.face_corners._elem) == first[len(self.faces._data)] and len(self.face_corners._elem) > 0, corners_of(self.face_corners, self.faces._data, first, len(self.faces._data)))'],
   modifies=['self.face_corners._elem', 'self.face_corners._adj'],
   loops={0: loop(invariant=['len(self.face_corners._elem) == first[it0]', 'len(self.face_corners._adj) == first[it0]', 'len(self.face_corners._attr) == 0',
                             'corners_of(self.face_corners, self.faces._data, first, it0)']),
          1: loop(invariant=['len(self.face_corners._elem) == first[it0] + it1', 'len(self.face_corners._adj) == first[it0] + it1', 'len(self.face_corners._attr) == 0',
                             'corners_of(self.face_corners, self.faces._data, first, it0)',
                             'all(self.face_corners._elem[first[it0] + i] == self.faces._data[it0][i] and self.face_corners._adj[first[it0] + i] == it0 for i in range(it1))'])},
   # one corner record per face-vertex incidence, in element order, with its vertex and its owner face
   ensures=['len(self.face_corners._elem) == first[len(self.faces._data)]', 'len(self.face_corners._adj) == first[len(self.faces._data)]',
            'corners_of(self.face_corners, self.faces._data, first, len(self.faces._data))'])

# ---------------------------------------------------------------- cell corners (same numbering over the cells; `cfirst` = prefix sums of the cell arities)
# Three cases of the real function: both tables empty -> both generated; vertex table pre-filled but owner table empty -> only the owners
# are generated (the vertex table must be kept); otherwise the tables are taken as given.
# NOTE: writing this contract exposed a defect of the pinned tree (owners were appended to the vertex table): fixed in /repo.
fn(RMD + '._generate_cell_corners', properties=['C02'],
   ghost_params={'cfirst': 'map[int,int]'},
   requires=['prefix(cfirst, self.cells._data)', 'len(self.cell_corners._attr) == 0',
             # a pre-filled vertex table lists the cell vertices in element order
             'implies(len(self.cell_corners._elem) > 0, len(self.cell_corners._elem) == cfirst[len(self.cells._data)] '
             '    and all(all(self.cell_corners._elem[cfirst[f] + i] == self.cells._data[f][i] for i in range(len(self.cells._data[f]))) for f in range(len(self.cells._data))))',
             'implies(len(self.cell_corners._adj) > 0 and len(self.cell_corners._elem) > 0, len(self.cell_corners._adj) == cfirst[len(self.cells._data)] '
             '    and corners_of(self.cell_corners, self.cells._data, cfirst, len(self.cells._data)))',
             'implies(len(self.cell_corners._elem) == 0, len(self.cell_corners._adj) == 0)'],
   modifies=['self.cell_corners._elem', 'self.cell_corners._adj'],
   loops={0: loop(invariant=['len(self.cell_corners._adj) == cfirst[it0]', 'len(self.cell_corners._elem) == cfirst[len(self.cells._data)]', 'len(self.cell_corners._attr) == 0',
                             'all(self.cell_corners._elem[k] == old(self.cell_corners._elem[k]) for k in range(cfirst[len(self.cells._data)]))',
                             'all(all(self.cell_corners._adj[cfirst[f] + i] == f for i in range(len(self.cells._data[f]))) for f in range(it0))']),
          1: loop(invariant=['len(self.cell_corners._elem) == cfirst[it1]', 'len(self.cell_corners._adj) == cfirst[it1]', 'len(self.cell_corners._attr) == 0',
                             'corners_of(self.cell_corners, self.cells._data, cfirst, it1)']),
          2: loop(invariant=['len(self.cell_corners._elem) == cfirst[it1] + it2', 'len(self.cell_corners._adj) == cfirst[it1] + it2', 'len(self.cell_corners._attr) == 0',
                             'corners_of(self.cell_corners, self.cells._data, cfirst, it1)',
                             'all(self.cell_corners._elem[cfirst[it1] + i] == self.cells._data[it1][i] and self.cell_corners._adj[cfirst[it1] + i] == it1 for i in range(it2))'])},
   # one corner record per cell-vertex incidence, in element order, with its vertex and its owner cell
   ensures=['len(self.cell_corners._elem) == cfirst[len(self.cells._data)]', 'len(self.cell_corners._adj) == cfirst[len(self.cells._data)]',
            'corners_of(self.cell_corners, self.cells._data, cfirst, len(self.cells._data))'])
