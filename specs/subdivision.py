"""Contracts for mouette/mesh/subdivision.py (property C13) -- the polyline edge split, which is plain container code.
The surface / volume refinements run inside an editing block that re-wraps the mesh as raw data and rebuilds it on exit
(numpy, dynamic attribute tables, lazily cached connectivity): they are covered by the bounded stand-in only."""
from pyvc.spec import *
import specs.geometry, specs.mesh_model

klass('PConn', real='mouette.mesh.datatypes.linear.PolyLine._Connectivity', fields={'cleared': 'bool'})
fn('mouette.mesh.datatypes.linear.PolyLine._Connectivity.clear', params={'self': 'PConn'}, trusted=True, modifies=['self.cleared'],
   ensures=['self.cleared'], note='drops every cached adjacency table (C01: recomputed lazily at the next query)')
klass('PLine', real='mouette.mesh.datatypes.linear.PolyLine', fields={'vertices': 'VContainer', 'edges': 'RContainer', 'connectivity': 'PConn'})

SUB = 'mouette.mesh.subdivision.'
fn(SUB + 'split_edge', properties=['C13'], params={'polyline': 'PLine', 'edge_ind': 'int'}, returns='PLine',
   requires=['0 <= edge_ind and edge_ind < len(polyline.edges._data)',
             'all(len(polyline.edges._data[e]) == 2 for e in range(len(polyline.edges._data)))',
             'all(0 <= polyline.edges._data[e][0] and polyline.edges._data[e][0] < len(polyline.vertices._data) '
             '    and 0 <= polyline.edges._data[e][1] and polyline.edges._data[e][1] < len(polyline.vertices._data) for e in range(len(polyline.edges._data)))',
             'len(polyline.vertices._attr) == 0', 'len(polyline.edges._attr) == 0'],
   modifies=['polyline.vertices._data', 'polyline.edges._data', 'polyline.connectivity.cleared'],
   ensures=['result is polyline',
            # documented element counts: one more vertex, one more edge
            'len(polyline.vertices._data) == old(len(polyline.vertices._data)) + 1',
            'len(polyline.edges._data) == old(len(polyline.edges._data)) + 1',
            # all original vertices in place, the new vertex at the centre of the edge it refines
            'all(polyline.vertices._data[i] == old(polyline.vertices._data[i]) for i in range(old(len(polyline.vertices._data))))',
            '2*polyline.vertices._data[old(len(polyline.vertices._data))] == old(polyline.vertices._data[polyline.edges._data[edge_ind][0]]) + old(polyline.vertices._data[polyline.edges._data[edge_ind][1]])',
            # the two halves join the old extremities to the new vertex (sorted pairs: the new index is the largest)
            'len(polyline.edges._data[edge_ind]) == 2 and polyline.edges._data[edge_ind][0] == old(polyline.edges._data[edge_ind][0]) and polyline.edges._data[edge_ind][1] == old(len(polyline.vertices._data))',
            'len(polyline.edges._data[old(len(polyline.edges._data))]) == 2 and polyline.edges._data[old(len(polyline.edges._data))][0] == old(polyline.edges._data[edge_ind][1]) '
            '    and polyline.edges._data[old(len(polyline.edges._data))][1] == old(len(polyline.vertices._data))',
            # every other edge untouched
            'all(implies(e != edge_ind, len(polyline.edges._data[e]) == 2 and polyline.edges._data[e][0] == old(polyline.edges._data[e][0]) and polyline.edges._data[e][1] == old(polyline.edges._data[e][1])) '
            '    for e in range(old(len(polyline.edges._data))))',
            # cached connectivity dropped: every later answer describes the refined polyline
            'polyline.connectivity.cleared'])

# ---------------------------------------------------------------- triangulate_face (triangles and quads)
SS = SUB + 'SurfaceSubdivision'
klass('SubRaw', real='mouette.mesh.mesh_data.RawMeshData', fields={'vertices': 'VContainer', 'faces': 'RContainer', 'edges': 'RContainer'})
klass(SS, fields={'mesh': 'SubRaw'})
predicate('same_row', 'a, b', 'len(a) == len(b) and all(a[q] == b[q] for q in range(len(b)))')
fn(SS + '.triangulate_face', properties=['C13'], params={'face_id': 'int'},
   requires=['0 <= face_id and face_id < len(self.mesh.faces._data)', 'len(self.mesh.faces._attr) == 0',
             # faces of more than four vertices are fanned from their barycentre (split_face_as_fan: sum of a symbolic-length list of
             # vectors, outside the subset): bounded stand-in
             'len(self.mesh.faces._data[face_id]) <= 4'],
   modifies=['self.mesh.faces._data'],
   ensures=[# a triangle (or a degenerate face) is left alone
            'implies(old(len(self.mesh.faces._data[face_id])) < 4, len(self.mesh.faces._data) == old(len(self.mesh.faces._data)) '
            '    and all(len(self.mesh.faces._data[g]) == old(len(self.mesh.faces._data[g])) and all(self.mesh.faces._data[g][q] == old(self.mesh.faces._data[g][q]) for q in range(old(len(self.mesh.faces._data[g])))) for g in range(old(len(self.mesh.faces._data)))))',
            # a quad (A,B,C,D) becomes (A,B,D) in place and (B,C,D) at the end: one more face, the four sides keep their direction,
            # the new diagonal is used once in each direction (consistent orientation)
            'implies(old(len(self.mesh.faces._data[face_id])) == 4, len(self.mesh.faces._data) == old(len(self.mesh.faces._data)) + 1 '
            '    and row3(self.mesh.faces._data[face_id], old(self.mesh.faces._data[face_id][0]), old(self.mesh.faces._data[face_id][1]), old(self.mesh.faces._data[face_id][3])) '
            '    and row3(self.mesh.faces._data[old(len(self.mesh.faces._data))], old(self.mesh.faces._data[face_id][1]), old(self.mesh.faces._data[face_id][2]), old(self.mesh.faces._data[face_id][3])))',
            # every other face untouched
            'all(implies(g != face_id, len(self.mesh.faces._data[g]) == old(len(self.mesh.faces._data[g])) and all(self.mesh.faces._data[g][q] == old(self.mesh.faces._data[g][q]) for q in range(old(len(self.mesh.faces._data[g]))))) '
            '    for g in range(old(len(self.mesh.faces._data))))'])
predicate('row3', 'r, a, b, c', 'len(r) == 3 and r[0] == a and r[1] == b and r[2] == c')
