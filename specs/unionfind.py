"""Contracts for mouette/utils/unionfind.py (property C20).

Abstract model: a partition of the element set.  Ghost fields on the object:
  rep[i]  : index of the representative (root) of element index i
  dist[i] : a measure strictly decreasing along parent links (termination of find)
  cnt[k]  : number of roots among indices < k   (n_comps == cnt[n])
The abstract partition is  cls(e) = rep[_indx[e]].
"""
from pyvc.spec import *

sort('Elt')

UF = 'mouette.utils.unionfind.UnionFind'

klass(UF,
      fields={'n_elts': 'int', 'n_comps': 'int', '_next': 'int', '_elts': 'list[Elt]', '_indx': 'dict[Elt,int]',
              '_par': 'list[int]', '_siz': 'list[int]'},
      ghost={'rep': 'map[int,int]', 'dist': 'map[int,int]', 'cnt': 'map[int,int]'})

predicate('uf_shape', 'u', '''
    u.n_elts >= 0 and u._next == u.n_elts and len(u._elts) == u.n_elts and len(u._par) == u.n_elts
    and len(u._siz) == u.n_elts and len(u._indx) == u.n_elts
    and all(0 <= u._par[i] and u._par[i] < u.n_elts for i in range(u.n_elts))
    and all(u._elts[i] in u._indx and u._indx[u._elts[i]] == i for i in range(u.n_elts))
    and all(0 <= u._indx[e] and u._indx[e] < u.n_elts and u._elts[u._indx[e]] == e for e in u._indx)
''')

predicate('uf_forest', 'u', '''
    all(0 <= u.rep[i] and u.rep[i] < u.n_elts and u._par[u.rep[i]] == u.rep[i] and u.rep[u.rep[i]] == u.rep[i]
        and u.rep[u._par[i]] == u.rep[i] and implies(u._par[i] == i, u.rep[i] == i)
        and u.dist[i] >= 0 and implies(u._par[i] != i, u.dist[u._par[i]] < u.dist[i])
        for i in range(u.n_elts))
''')

predicate('uf_count', 'u', '''
    u.cnt[0] == 0 and u.n_comps == u.cnt[u.n_elts]
    and all(u.cnt[k + 1] == u.cnt[k] + (1 if u._par[k] == k else 0) for k in range(u.n_elts))
''')

predicate('wf', 'u', 'uf_shape(u) and uf_forest(u) and uf_count(u)')
predicate('distinct', 'l', 'all(all(implies(i != j, l[i] != l[j]) for j in range(len(l))) for i in range(len(l)))')

# abstract view: are two present elements in the same class?
predicate('conn', 'u, a, b', 'u.rep[u._indx[a]] == u.rep[u._indx[b]]')

fn(UF + '.__init__', properties=['C20'],
   params={'elements': 'opt[list[Elt]]'},
   locals={'elements': 'list[Elt]'},
   ghost_entry=['self.rep = lam(lambda i: i)\nself.dist = lam(lambda i: 0)\nself.cnt = lam(lambda i: 0)'],
   modifies=['self.*'],
   ensures=['wf(self)',
            # every element is its own class, and the element set is exactly the given collection
            'all(self.rep[i] == i for i in range(self.n_elts))',
            'self.n_comps == self.n_elts',
            'implies(elements is None, self.n_elts == 0)',
            'implies(elements is not None, all(elements[j] in self._indx for j in range(len(elements))))',
            'implies(elements is not None, all(implies(e in self._indx, any(elements[j] == e for j in range(len(elements)))) for e in Elt))',
            # pairwise distinct elements are numbered in the order given
            'implies(elements is not None and distinct(elements), self.n_elts == len(elements) and all(self._indx[elements[j]] == j for j in range(len(elements))))',
            ],
   loops={0: loop(invariant=['wf(self)', 'all(self.rep[i] == i for i in range(self.n_elts))',
                             'self.n_comps == self.n_elts',
                             'implies(distinct(elements), self.n_elts == it0 and all(self._indx[elements[j]] == j for j in range(it0)))',
                             'all(elements[j] in self._indx for j in range(it0))',
                             'all(implies(e in self._indx, any(elements[j] == e for j in range(it0))) for e in Elt)'])})

fn(UF + '.__len__', properties=['C20'], returns='int',
   requires=['wf(self)'], ensures=['result == self.n_elts'])

fn(UF + '.__contains__', properties=['C20'], params={'x': 'Elt'}, returns='bool',
   requires=['wf(self)'], ensures=['result == (x in self._indx)'], inline=False)

fn(UF + '.__getitem__', properties=['C20'], params={'index': 'int'}, returns='Elt',
   requires=['wf(self)'],
   raises={'IndexError': 'index < 0 or index >= self.n_elts'},
   ensures=['result == self._elts[index]'])

fn(UF + '.add', properties=['C20'], params={'x': 'Elt'},
   requires=['wf(self)'],
   modifies=['self._elts', 'self._indx', 'self._par', 'self._siz', 'self._next', 'self.n_elts', 'self.n_comps',
             'self.rep', 'self.dist', 'self.cnt'],
   ghost_exit=['''
n0 = old(self.n_elts)
self.rep = ite(old(x in self._indx), self.rep, mapset(self.rep, n0, n0))
self.dist = ite(old(x in self._indx), self.dist, mapset(self.dist, n0, 0))
self.cnt = ite(old(x in self._indx), self.cnt, mapset(self.cnt, n0 + 1, old(self.cnt[self.n_elts]) + 1))
'''],
   ensures=['wf(self)',
            'x in self._indx',
            # present elements: nothing changes
            'implies(old(x in self._indx), self.n_elts == old(self.n_elts) and self.n_comps == old(self.n_comps))',
            # a new element is a new singleton class
            'implies(not old(x in self._indx), self.n_elts == old(self.n_elts) + 1 and self.n_comps == old(self.n_comps) + 1'
            ' and self._indx[x] == old(self.n_elts) and self.rep[self._indx[x]] == self._indx[x])',
            # every old element keeps its index and its class
            'all(implies(old(e in self._indx), e in self._indx and self._indx[e] == old(self._indx[e])) for e in Elt)',
            'all(implies(e in self._indx, old(e in self._indx) or e == x) for e in Elt)',
            'all(self.rep[i] == old(self.rep[i]) for i in range(old(self.n_elts)))',
            ])

fn(UF + '.find', properties=['C20'], params={'x': 'Elt'}, returns='int',
   requires=['wf(self)'],
   raises={'ValueError': 'x not in self._indx'},
   modifies=['self._par'],
   ensures=['wf(self)', 'result == self.rep[self._indx[x]]',
            # queries never change the partition (rep is a ghost field outside the frame: unchanged)
            'all(self.rep[i] == old(self.rep[i]) for i in range(self.n_elts))'],
   loops={0: loop(invariant=['wf(self)', '0 <= p and p < self.n_elts',
                             'self.rep[p] == self.rep[self._indx[x]]'],
                  decreases='self.dist[p]')},
   locals={'p': 'int', 'q': 'int'})

fn(UF + '.connected', properties=['C20'], params={'x': 'Elt', 'y': 'Elt'}, returns='bool',
   requires=['wf(self)'],
   raises={'ValueError': 'x not in self._indx or y not in self._indx'},
   modifies=['self._par'],
   ensures=['wf(self)', 'result == conn(self, x, y)',
            'all(self.rep[i] == old(self.rep[i]) for i in range(self.n_elts))'])

fn(UF + '.union', properties=['C20'], params={'x': 'Elt', 'y': 'Elt'},
   requires=['wf(self)'],
   modifies=['self._elts', 'self._indx', 'self._par', 'self._siz', 'self._next', 'self.n_elts', 'self.n_comps',
             'self.rep', 'self.dist', 'self.cnt'],
   # ghost update stated on the final parent array: the root that lost its self-loop is the loser
   lets={},
   ghost_exit=['''
ix = self._indx[x]
iy = self._indx[y]
rx = self.rep[ix]
ry = self.rep[iy]
loser = ite(self._par[rx] != rx, rx, ry)
winner = ite(self._par[rx] != rx, ry, rx)
merged = rx != ry
dw = self.dist[winner]
self.cnt = ite(merged, lam(lambda k: self.cnt[k] - (1 if k > loser else 0)), self.cnt)
self.dist = ite(merged, lam(lambda i: self.dist[i] + (dw + 1 if self.rep[i] == loser else 0)), self.dist)
self.rep = ite(merged, lam(lambda i: winner if self.rep[i] == loser else self.rep[i]), self.rep)
'''],
   ensures=['wf(self)', 'x in self._indx and y in self._indx',
            # element set = old set + {x, y}; old indices are kept
            'all(implies(old(e in self._indx), e in self._indx and self._indx[e] == old(self._indx[e])) for e in Elt)',
            'all(implies(e in self._indx, old(e in self._indx) or e == x or e == y) for e in Elt)',
            # merging two present elements changes neither the element set nor, when they were already joined, the count;
            # otherwise exactly one class disappears
            'implies(old(x in self._indx) and old(y in self._indx), self.n_elts == old(self.n_elts) '
            '    and self.n_comps == old(self.n_comps) - (0 if old(conn(self, x, y)) else 1))',
            # the new partition is the least equivalence containing the old one and (x, y):
            'conn(self, x, y)',
            'all(implies(old(a in self._indx) and old(b in self._indx), '
            '    conn(self, a, b) == (old(conn(self, a, b)) or (conn(self, a, x) and conn(self, b, y)) or (conn(self, a, y) and conn(self, b, x))))'
            '    for a in Elt for b in Elt)',
            ])


fn(UF + '.roots', properties=['C20'], returns='set[int]',
   requires=['wf(self)'],
   modifies=['self._par'],
   locals={'acc_c0': 'list[int]'},
   ensures=['wf(self)', 'all(self.rep[i] == old(self.rep[i]) for i in range(self.n_elts))',
            # the result is exactly the set of representatives: one per class of the partition
            'all(self.rep[i] in result for i in range(self.n_elts))',
            'all(0 <= r and r < self.n_elts and self.rep[r] == r for r in result)'],
   loops={'c0': loop(invariant=['wf(self)', 'all(self.rep[i] == old(self.rep[i]) for i in range(self.n_elts))',
                             'self.n_elts == old(self.n_elts)',
                             'all(self._elts[i] == old(self._elts[i]) for i in range(self.n_elts))',
                             'len(acc_c0) == it_c0',
                             'all(acc_c0[j] == self.rep[j] for j in range(it_c0))'])})

fn(UF + '.component', properties=['C20'], params={'x': 'Elt'}, returns='set[Elt]',
   requires=['wf(self)'],
   raises={'ValueError': 'x not in self._indx'},
   modifies=['self._par'],
   locals={'acc_c0': 'list[Elt]', 'root': 'int', 'pos': 'map[int,int]'},
   ensures=['wf(self)', 'all(self.rep[i] == old(self.rep[i]) for i in range(self.n_elts))',
            # exactly the class of x in the abstract partition
            'all((e in result) == (e in self._indx and conn(self, e, x)) for e in Elt)'],
   loops={'c0': loop(invariant=['wf(self)', 'all(self.rep[i] == old(self.rep[i]) for i in range(self.n_elts))',
                             'self.n_elts == old(self.n_elts)', 'x in self._indx',
                             'all(self._elts[i] == old(self._elts[i]) for i in range(self.n_elts))',
                             'all((e in self._indx) == old(e in self._indx) for e in Elt)',
                             'all(implies(e in self._indx, self._indx[e] == old(self._indx[e])) for e in Elt)',
                             'root == self.rep[self._indx[x]]',
                             'all(acc_c0[k] in self._indx and self._indx[acc_c0[k]] < it_c0 and self.rep[self._indx[acc_c0[k]]] == root for k in range(len(acc_c0)))',
                             # ghost witness pos[j]: where element j sits in the accumulator
                             'all(implies(self.rep[j] == root, 0 <= pos[j] and pos[j] < len(acc_c0) and acc_c0[pos[j]] == self._elts[j]) for j in range(it_c0))'],
                  ghost_end=['pos = mapset(pos, it_c0 - 1, len(acc_c0) - 1)'])},
   ghost_entry=['pos = lam(lambda j: 0)'])
