"""Kruskal's loop of EdgeMinimalSpanningTree.compute (property C10), as a region contract on the real statements
`uf = UnionFind(...)` .. `for e in edges: ...`, checked against the union-find contracts of property C20 (not their bodies).

Proved for every mesh, every candidate list `edges` (any order: sortedness is not used) and every weight choice:
  * the tree edge list has exactly |V| - #classes entries: every accepted edge merged two different classes, so the list is acyclic (a forest);
  * the end points of every candidate edge processed so far are joined: the forest spans each component of the admissible graph;
  * every tree edge is the (sorted) pair of end points of a candidate mesh edge, and its end points are joined.
Minimality of the total weight (exchange argument over the sorted order) is not mechanised: bounded stand-in.
The union-find contracts are stated over an abstract element sort; vertex indices are embedded by an injective function."""
from pyvc.spec import *
import specs.mesh_model, specs.unionfind

K = 'mouette.processing.trees.edge_sp.EdgeMinimalSpanningTree'
klass('KMesh', real='mouette.mesh.datatypes.surface.SurfaceMesh', fields={'vertices': 'VContainer', 'edges': 'RContainer'})
fn('mouette.mesh.datatypes.surface.SurfaceMesh.id_vertices', inline=True)
klass(K, fields={'mesh': 'KMesh', 'edges': 'list[tuple[int,int]]'})

predicate('kr_rows', 'm', '''all(len(m.edges._data[e]) == 2 and 0 <= m.edges._data[e][0] and m.edges._data[e][0] < len(m.vertices._data)
    and 0 <= m.edges._data[e][1] and m.edges._data[e][1] < len(m.vertices._data) for e in range(len(m.edges._data)))''')
predicate('kr_joined', 'uf, m, e', 'conn(uf, Elt(m.edges._data[e][0]), Elt(m.edges._data[e][1]))')
predicate('kr_is_edge', 't, m, e', '''(t[0] == m.edges._data[e][0] and t[1] == m.edges._data[e][1]) or (t[0] == m.edges._data[e][1] and t[1] == m.edges._data[e][0])''')

KINV = ['wf(uf)', 'uf.n_elts == len(self.mesh.vertices._data)',
        'all(Elt(v) in uf._indx for v in range(len(self.mesh.vertices._data)))',
        'len(neighbours) == len(self.mesh.vertices._data)',
        # forest: one tree edge per merge
        'len(self.edges) + uf.n_comps == len(self.mesh.vertices._data)',
        # spanning: every candidate processed so far has its end points joined
        'all(kr_joined(uf, self.mesh, edges[k]) for k in range({n}))',
        # every tree edge is a candidate mesh edge (as a sorted pair) whose end points are joined
        'all(t[0] <= t[1] and conn(uf, Elt(t[0]), Elt(t[1])) and any(kr_is_edge(t, self.mesh, edges[k]) for k in range({n})) for t in self.edges)']

fn(K + '.compute#kruskal', of=K + '.compute', properties=['C10'],
   region=('uf = UnionFind', 'for e in edges'),
   locals={'edges': 'list[int]', 'neighbours': 'list[set[int]]', 'uf': 'UnionFind'},
   requires=['kr_rows(self.mesh)', 'len(self.edges) == 0', 'len(neighbours) == len(self.mesh.vertices._data)',
             'all(0 <= edges[k] and edges[k] < len(self.mesh.edges._data) for k in range(len(edges)))'],
   modifies=['self.edges', 'neighbours'],
   loops={0: loop(invariant=[s.format(n='it0') for s in KINV])},
   ensures=[s.format(n='len(edges)') for s in KINV])
