"""Contracts for mouette/procedural (property C14) and splines/bezier.py exports (C19 f).
Oracle: the parametrised combinatorial surface written as index formulas."""
from pyvc.spec import *
import specs.geometry, specs.mesh_model

P = 'mouette.procedural.'

# row-major grid index
define('gid', 'i, j, n', ['int', 'int', 'int'], 'int', 'i*n + j')
lemma('gid-inj', 'implies(0 <= j and j < n and 0 <= j2 and j2 < n and (i != i2 or j != j2), gid(i, j, n) != gid(i2, j2, n))',
      vars={'i': 'int', 'j': 'int', 'i2': 'int', 'j2': 'int', 'n': 'int'})
lemma('gid-range', 'implies(0 <= i and i < m and 0 <= j and j < n, 0 <= gid(i, j, n) and gid(i, j, n) < m*n)',
      vars={'i': 'int', 'j': 'int', 'm': 'int', 'n': 'int'})
predicate('row3', 'r, a, b, c', 'len(r) == 3 and r[0] == a and r[1] == b and r[2] == c')
predicate('row4', 'r, a, b, c, d', 'len(r) == 4 and r[0] == a and r[1] == b and r[2] == c and r[3] == d')

predicate('empty_attrs', 'm', 'len(m.vertices._attr) == 0 and len(m.faces._attr) == 0 and len(m.edges._attr) == 0 and len(m.cells._attr) == 0')
predicate('gface', 'm, i, j, nv, tri', '''(row4(m.faces._data[gid(i,j,nv-1)], gid(i,j,nv), gid(i,j+1,nv), gid(i+1,j+1,nv), gid(i+1,j,nv)) if not tri else
    (row3(m.faces._data[2*gid(i,j,nv-1)], gid(i,j,nv), gid(i,j+1,nv), gid(i+1,j,nv)) and row3(m.faces._data[2*gid(i,j,nv-1)+1], gid(i,j+1,nv), gid(i+1,j+1,nv), gid(i+1,j,nv))))''')
predicate('grid_faces', 'm, rows, cols, nv, tri', 'all(all(gface(m, i, j, nv, tri) for j in range(cols)) for i in range(rows))')
predicate('grid_faces_row', 'm, i, cols, nv, tri', 'all(gface(m, i, j, nv, tri) for j in range(cols))')
predicate('gvert', 'm, i, j, nv', '''m.vertices._data[gid(i,j,nv)][2] == 0 and 0 <= m.vertices._data[gid(i,j,nv)][0] and m.vertices._data[gid(i,j,nv)][0] <= 1
    and 0 <= m.vertices._data[gid(i,j,nv)][1] and m.vertices._data[gid(i,j,nv)][1] <= 1''')
predicate('grid_verts', 'm, rows, cols, nv', 'all(all(gvert(m, i, j, nv) for j in range(cols)) for i in range(rows))')
predicate('grid_verts_row', 'm, i, cols, nv', 'all(gvert(m, i, j, nv) for j in range(cols))')

lemma('mul-mono', 'implies(0 <= a and a < b and n >= 0, a*n + n <= b*n)', vars={'a': 'int', 'b': 'int', 'n': 'int'})
lemma('mul-nonneg', 'implies(0 <= a and n >= 0, a*n >= 0)', vars={'a': 'int', 'n': 'int'})

fn(P + 'flat.unit_grid', properties=['C14'], cases=[{'triangulate': False, 'generate_uvs': False}, {'triangulate': True, 'generate_uvs': False}],
   lemmas=['gid-inj', 'gid-range'],
   params={'nu': 'int', 'nv': 'int', 'triangulate': 'bool', 'generate_uvs': 'bool'}, returns='BuiltMesh',
   requires=['nu >= 2', 'nv >= 2', 'not generate_uvs'],
   locals={'out': 'RawMeshData'},
   lets={'k': '(2 if triangulate else 1)'},
   loops={0: loop(invariant=['empty_attrs(out)', 'len(out.vertices._data) == it0*nv',
                             'len(out.faces._data) == (it0 if it0 < nu-1 else nu-1)*(nv-1)*k',
                             'grid_faces(out, (it0 if it0 < nu-1 else nu-1), nv-1, nv, triangulate)',
                             'grid_verts(out, it0, nv, nv)']),
          1: loop(invariant=['empty_attrs(out)', 'len(out.vertices._data) == it0*nv + it1',
                             'len(out.faces._data) == (it0 if it0 < nu-1 else nu-1)*(nv-1)*k + (0 if it0 >= nu-1 else (it1 if it1 < nv-1 else nv-1)*k)',
                             'grid_faces(out, (it0 if it0 < nu-1 else nu-1), nv-1, nv, triangulate)',
                             # the same length through gid (makes the term available to the injectivity lemma)
                             'implies(it0 < nu-1, len(out.faces._data) == k*gid(it0, (it1 if it1 < nv-1 else nv-1), nv-1))',
                             'implies(it0 < nu-1, grid_faces_row(out, it0, (it1 if it1 < nv-1 else nv-1), nv, triangulate))',
                             'grid_verts(out, it0, nv, nv)', 'grid_verts_row(out, it0, it1, nv)'])},
   ensures=['len(result.vertices._data) == nu*nv',
            'len(result.faces._data) == (nu-1)*(nv-1)*(2 if triangulate else 1)',
            # quad (i,j) of the grid, in row-major order, counter-clockwise
            'implies(not triangulate, all(all(row4(result.faces._data[gid(i,j,nv-1)], gid(i,j,nv), gid(i,j+1,nv), gid(i+1,j+1,nv), gid(i+1,j,nv)) '
            '     for j in range(nv-1)) for i in range(nu-1)))',
            'implies(triangulate, all(all(row3(result.faces._data[2*gid(i,j,nv-1)], gid(i,j,nv), gid(i,j+1,nv), gid(i+1,j,nv)) '
            '     and row3(result.faces._data[2*gid(i,j,nv-1)+1], gid(i,j+1,nv), gid(i+1,j+1,nv), gid(i+1,j,nv)) '
            '     for j in range(nv-1)) for i in range(nu-1)))',
            # vertex (i,j) sits at (u_i, v_j, 0) in the unit square
            'all(all(result.vertices._data[gid(i,j,nv)][2] == 0 and 0 <= result.vertices._data[gid(i,j,nv)][0] and result.vertices._data[gid(i,j,nv)][0] <= 1 '
            '    and 0 <= result.vertices._data[gid(i,j,nv)][1] and result.vertices._data[gid(i,j,nv)][1] <= 1 for j in range(nv)) for i in range(nu))'],
   )

# ---------------------------------------------------------------- torus
predicate('tface', 'm, i, j, M, mm, tri', '''(row4(m.faces._data[gid(i,j,mm)], gid(i,j,mm), gid(i,(j+1)%mm,mm), gid((i+1)%M,(j+1)%mm,mm), gid((i+1)%M,j,mm)) if not tri else
    (row3(m.faces._data[2*gid(i,j,mm)], gid(i,j,mm), gid(i,(j+1)%mm,mm), gid((i+1)%M,j,mm))
     and row3(m.faces._data[2*gid(i,j,mm)+1], gid(i,(j+1)%mm,mm), gid((i+1)%M,(j+1)%mm,mm), gid((i+1)%M,j,mm))))''')
predicate('on_torus', 'p, R, r', '(sq3(p) + R*R - r*r)*(sq3(p) + R*R - r*r) == 4*R*R*(p[0]*p[0] + p[1]*p[1])')

fn(P + 'shapes.torus', properties=['C14'],
   params={'major_segments': 'int', 'minor_segments': 'int', 'major_radius': 'real', 'minor_radius': 'real', 'triangulate': 'bool'},
   returns='BuiltMesh', cases=[{'triangulate': False}, {'triangulate': True}], lemmas=['gid-inj', 'gid-range'],
   requires=['major_segments >= 3', 'minor_segments >= 3'],
   locals={'out': 'RawMeshData'},
   lets={'M': 'major_segments', 'mm': 'minor_segments', 'k': '(2 if triangulate else 1)'},
   loops={0: loop(invariant=['empty_attrs(out)', 'len(out.vertices._data) == it0*mm', 'len(out.faces._data) == 0',
                             ]),
          1: loop(invariant=['empty_attrs(out)', 'len(out.vertices._data) == it0*mm + it1', 'len(out.faces._data) == 0',
                             ]),
          2: loop(invariant=['empty_attrs(out)', 'len(out.vertices._data) == M*mm', 'len(out.faces._data) == k*(it2*mm)',
                             'all(all(tface(out, i, j, M, mm, triangulate) for j in range(mm)) for i in range(it2))']),
          3: loop(invariant=['empty_attrs(out)', 'len(out.vertices._data) == M*mm', 'len(out.faces._data) == k*(it2*mm + it3)',
                             'i_next == (it2+1) % M',
                             'all(all(tface(out, i, j, M, mm, triangulate) for j in range(mm)) for i in range(it2))',
                             'all(tface(out, it2, j, M, mm, triangulate) for j in range(it3))'])},
   ensures=['len(result.vertices._data) == M*mm', 'len(result.faces._data) == k*M*mm',
            # every quad (i,j) joins ring i to ring i+1 (mod M) and column j to j+1 (mod m): both directions wrap
            'all(all(tface(result, i, j, M, mm, triangulate) for j in range(mm)) for i in range(M))'],
   note='vertices on the implicit torus surface: degree-4 NRA under a quantified invariant destabilises z3 -> bounded stand-in (native)')

# ---------------------------------------------------------------- cylinder (combinatorics)
fn(P + 'shapes.cylinder', properties=['C14'],
   params={'P1': 'Vec3', 'P2': 'Vec3', 'radius': 'real', 'N': 'int', 'fill_caps': 'bool'}, returns='BuiltMesh',
   cases=[{'fill_caps': True}, {'fill_caps': False}],
   requires=['N >= 3', 'dist2(P1, P2) > 0'],
   locals={'cy': 'RawMeshData'},
   lets={'c': '(2*N if fill_caps else 0)'},
   loops={0: loop(invariant=['empty_attrs(cy)', 'len(cy.faces._data) == 0',
                             'len(cy.vertices._data) == N*it0'], unroll=True),
          1: loop(invariant=['empty_attrs(cy)', 'len(cy.faces._data) == 0', 'len(cy.vertices._data) >= 0',
                             'len(cy.vertices._data) == N*it0 + it1'], label='ring'),
          2: loop(invariant=['empty_attrs(cy)', 'len(cy.vertices._data) == 2*N + 2', 'len(cy.faces._data) == 2*it2',
                             'all(row3(cy.faces._data[2*i], i, (i+1)%N, 2*N) and row3(cy.faces._data[2*i+1], i+N, 2*N+1, (i+1)%N+N) for i in range(it2))']),
          3: loop(invariant=['empty_attrs(cy)', 'len(cy.vertices._data) == 2*N + (2 if fill_caps else 0)', 'len(cy.faces._data) == c + 2*it3',
                             'implies(fill_caps, all(row3(cy.faces._data[2*i], i, (i+1)%N, 2*N) and row3(cy.faces._data[2*i+1], i+N, 2*N+1, (i+1)%N+N) for i in range(N)))',
                             'all(row3(cy.faces._data[c+2*i], i, N+i, (i+1)%N) and row3(cy.faces._data[c+2*i+1], N+i, N+(i+1)%N, (i+1)%N) for i in range(it3))'])},
   ensures=['len(result.vertices._data) == 2*N + (2 if fill_caps else 0)', 'len(result.faces._data) == c + 2*N',
            # caps: fan around the two centre vertices 2N (bottom) and 2N+1 (top), opposite orientations
            'implies(fill_caps, all(row3(result.faces._data[2*i], i, (i+1)%N, 2*N) and row3(result.faces._data[2*i+1], i+N, 2*N+1, (i+1)%N+N) for i in range(N)))',
            # side: two triangles per segment between ring i (bottom) and ring N+i (top)
            'all(row3(result.faces._data[c+2*i], i, N+i, (i+1)%N) and row3(result.faces._data[c+2*i+1], N+i, N+(i+1)%N, (i+1)%N) for i in range(N))'])
