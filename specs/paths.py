"""Contracts for mouette/processing/paths.py (property C09) -- the part within reach so far."""
from pyvc.spec import *
import specs.geometry

PTH = 'mouette.processing.paths.'
fn(PTH + '_check_weight_argument', properties=['C09'], params={'weights': 'str'},
   raises={'InvalidArgumentValueError': 'not (weights == "one" or weights == "length")'},
   note='string modes: exactly "one" and "length" are accepted')
