"""Contracts for mouette/processing/paths.py (property C09) -- the part within reach so far."""
from pyvc.spec import *
import specs.geometry

PTH = 'mouette.processing.paths.'
fn(PTH + '_check_weight_argument', properties=['C09'], params={'weights': 'str'},
   raises={'InvalidArgumentValueError': 'not (weights == "one" or weights == "length")'},
   note='string modes: exactly "one" and "length" are accepted')

# ---------------------------------------------------------------- path reconstruction of shortest_path (region contract)
# The statements `for t in targets: v = t; while v != start: ...; paths_list[t].reverse()` turn the predecessor table left by
# Dijkstra's loop into vertex lists.  Proved for every predecessor table that is a tree towards `start` (logical parameter `depth`
# strictly decreasing along predecessor links -- what the search loop is relied on to establish: bounded stand-in): the list of
# every target begins at the start, ends at the target, each step goes from a vertex's predecessor to the vertex (so the path walks
# along the edges the predecessor links walk along), and the reconstruction terminates.
predicate('pred_tree', 'path, start, depth', '''(start in path) and all(depth[v] >= 0 and implies(v != start, path[v] is not None and (path[v] in path) and depth[path[v]] < depth[v]) for v in path)''')
predicate('path_ok', 'L, path, start, t', '''len(L) >= 1 and L[0] == start and L[len(L) - 1] == t and all(path[L[k + 1]] is not None and L[k] == path[L[k + 1]] for k in range(len(L) - 1))''')
fn(PTH + 'shortest_path#reconstruct', of=PTH + 'shortest_path', properties=['C09'],
   region=('for t in targets', 'for t in targets'),
   params={'mesh': 'int', 'start': 'int', 'targets': 'set[int]', 'weights': 'str', 'export_path_mesh': 'bool'},   # mesh, weights: not used by the region (placeholder types)
   locals={ 'path': 'dict[int,opt[int]]', 'paths_list': 'dict[int,list[int]]', 'v': 'int'},
   ghost_params={'depth': 'map[int,int]'},
   requires=['pred_tree(path, start, depth)',
             'all((t in path) and (t in paths_list) and len(paths_list[t]) == 0 for t in targets)'],
   modifies=['paths_list'],
   loops={2: loop(invariant=['all((q in paths_list) for q in targets)',
                             'all(path_ok(paths_list[key_at(targets, k)], path, start, key_at(targets, k)) for k in range(it2))',
                             'all(len(paths_list[key_at(targets, k)]) == 0 for k in range(it2, len(targets)))']),
          3: loop(invariant=['all((q in paths_list) for q in targets)', 't == key_at(targets, it2)', '(v in path)',
                             'all(path_ok(paths_list[key_at(targets, k)], path, start, key_at(targets, k)) for k in range(it2))',
                             'all(len(paths_list[key_at(targets, k)]) == 0 for k in range(it2 + 1, len(targets)))',
                             # the list under construction: t first, then predecessors; v is the next vertex to add
                             'len(paths_list[t]) >= 0', 'implies(len(paths_list[t]) == 0, v == t)',
                             'implies(len(paths_list[t]) > 0, paths_list[t][0] == t and path[paths_list[t][len(paths_list[t]) - 1]] is not None and v == path[paths_list[t][len(paths_list[t]) - 1]])',
                             'all(path[paths_list[t][k]] is not None and paths_list[t][k + 1] == path[paths_list[t][k]] for k in range(len(paths_list[t]) - 1))'],
                  decreases='depth[v]')},
   ensures=['all((q in paths_list) and path_ok(paths_list[q], path, start, q) for q in targets)'])
