"""Contracts for mouette/processing/features.py (property C15): the three detection passes decide, edge by edge, exactly the
stated set -- border edges; interior edges whose adjacent face normals have dot product < 0.5 (more than 60 degrees apart);
declared hard edges, interior, with dot product < 0.8 (more than about 37 degrees apart); only the border when only_border.

Model of the objects involved (assumption A-attr): a sparse Attribute is the dict of its explicitly written entries
(`attr[k] = v` stores one entry, iteration yields the written keys, `attr[k]` reads the entry; this is the behaviour the C05
stand-in checks); face normals are total on faces.  The adjacency answers are those of property C01, named by uninterpreted
functions (ef1/ef2: the faces on either side of an edge or None; border_edge)."""
from pyvc.spec import *
import specs.geometry, specs.mesh_model

# Face normals are kept abstract here: the detector only ever takes their dot product.  `ndot` names the value geometry.dot
# returns (its own contract `result == dot3(A, B)` is discharged under properties C07 / C12: the caller is checked against
# the callee's contract, not its body).
sort('Normal')
ufunc('ndot', ['Normal', 'Normal'], 'real')
fn('mouette.geometry.geometry.dot', params={'A': 'Normal', 'B': 'Normal'}, returns='real', trusted=True,
   ensures=['result == ndot(A, B)'], note='contract of geometry.dot (verified under C07/C12 as result == dot3(A,B)); ndot names the dot product')

ufunc('ef1', ['int', 'int'], 'opt[int]')
ufunc('ef2', ['int', 'int'], 'opt[int]')
ufunc('border_edge', ['int', 'int'], 'bool')

klass('FConn', real='mouette.mesh.datatypes.surface.SurfaceMesh._Connectivity', fields={'nF': 'int'})
klass('FContainer', real='mouette.mesh.data_container.DataContainer',
      fields={'_data': 'list[list[int]]', '_attr': 'dict[str,AttrRec]', 'id': 'str', 'hard': 'opt[dict[int,bool]]'})
klass('FMesh', real='mouette.mesh.datatypes.surface.SurfaceMesh',
      fields={'edges': 'FContainer', 'connectivity': 'FConn', 'boundary_edges': 'list[int]'})
fn('mouette.mesh.datatypes.surface.SurfaceMesh._Connectivity.edge_to_faces', params={'self': 'FConn', 'u': 'int', 'v': 'int'},
   returns='tuple[opt[int],opt[int]]', trusted=True,
   ensures=['result == (ef1(u, v), ef2(u, v))',
            'implies(ef1(u, v) is not None, 0 <= ef1(u, v) and ef1(u, v) < self.nF)',
            'implies(ef2(u, v) is not None, 0 <= ef2(u, v) and ef2(u, v) < self.nF)'],
   note='C01: the faces on either side of an edge (None when absent), valid face indices')
fn('mouette.mesh.datatypes.surface.SurfaceMesh.is_edge_on_border', params={'self': 'FMesh', 'u': 'int', 'v': 'int'}, returns='bool', trusted=True,
   ensures=['result == border_edge(u, v)'], note='C01: border classification of an edge')
fn('mouette.mesh.data_container._BaseDataContainer.has_attribute', params={'self': 'FContainer', 'name': 'str'}, returns='bool', trusted=True,
   requires=['name == "hard_edges"'], ensures=['result == (self.hard is not None)'], note='A-attr: attribute table lookup; `hard` names the entry "hard_edges"')
fn('mouette.mesh.data_container._BaseDataContainer.get_attribute', params={'self': 'FContainer', 'name': 'str'}, returns='dict[int,bool]', trusted=True,
   requires=['name == "hard_edges"', 'self.hard is not None'], ensures=['result is self.hard'], note='A-attr: returns the attribute object itself')

FD = 'mouette.processing.features.FeatureEdgeDetector'
klass(FD, fields={'only_border': 'bool', 'fnormals': 'dict[int,Normal]'})

predicate('fmesh_ok', 'self, mesh', '''all(len(mesh.edges._data[e]) == 2 for e in range(len(mesh.edges._data)))
    and mesh.connectivity.nF >= 0 and all((f in self.fnormals) for f in range(mesh.connectivity.nF))''')
# the sharp-angle criterion of edge e (interior edge, normals more than 60 degrees apart)
predicate('sharp', 'self, mesh, e', '''ef1(mesh.edges._data[e][0], mesh.edges._data[e][1]) is not None and ef2(mesh.edges._data[e][0], mesh.edges._data[e][1]) is not None
    and ndot(self.fnormals[ef1(mesh.edges._data[e][0], mesh.edges._data[e][1])], self.fnormals[ef2(mesh.edges._data[e][0], mesh.edges._data[e][1])]) < 0.5''')
# the hard-edge criterion (declared, interior on both counts, normals with dot product < 0.8)
predicate('hard_kept', 'self, mesh, hard, e', '''(e in hard) and hard[e]
    and ef1(mesh.edges._data[e][0], mesh.edges._data[e][1]) is not None and ef2(mesh.edges._data[e][0], mesh.edges._data[e][1]) is not None
    and ndot(self.fnormals[ef1(mesh.edges._data[e][0], mesh.edges._data[e][1])], self.fnormals[ef2(mesh.edges._data[e][0], mesh.edges._data[e][1])]) < 0.8
    and not border_edge(mesh.edges._data[e][0], mesh.edges._data[e][1])''')

fn(FD + '._add_sharp_angles_to_features', properties=['C15'], params={'mesh': 'FMesh', 'feature_attr': 'dict[int,bool]'}, returns='dict[int,bool]',
   requires=['fmesh_ok(self, mesh)'],
   modifies=['feature_attr'],
   loops={0: loop(invariant=['all(implies(sharp(self, mesh, e), (e in feature_attr) and feature_attr[e] == True) for e in range(it0))',
                             'all(implies((k in feature_attr) and not old(k in feature_attr), 0 <= k and k < it0 and sharp(self, mesh, k) and feature_attr[k] == True) for k in Int)',
                             'all(implies(old(k in feature_attr), (k in feature_attr) and (feature_attr[k] == old(feature_attr[k]) or (0 <= k and k < it0 and sharp(self, mesh, k) and feature_attr[k] == True))) for k in Int)'])},
   ensures=['result is feature_attr',
            # every sharp interior edge is flagged (none when only_border) ...
            'all(implies(not self.only_border and sharp(self, mesh, e), (e in feature_attr) and feature_attr[e] == True) for e in range(len(mesh.edges._data)))',
            # ... nothing else is added ...
            'all(implies((k in feature_attr) and not old(k in feature_attr), not self.only_border and 0 <= k and k < len(mesh.edges._data) and sharp(self, mesh, k) and feature_attr[k] == True) for k in Int)',
            # ... and earlier entries are kept (or overwritten with True for a sharp edge)
            'all(implies(old(k in feature_attr), (k in feature_attr) and (feature_attr[k] == old(feature_attr[k]) or (not self.only_border and 0 <= k and k < len(mesh.edges._data) and sharp(self, mesh, k) and feature_attr[k] == True))) for k in Int)'])

fn(FD + '._add_border_to_features', properties=['C15'], params={'mesh': 'FMesh', 'feature_attr': 'dict[int,bool]'}, returns='dict[int,bool]',
   modifies=['feature_attr'],
   loops={0: loop(invariant=['all((mesh.boundary_edges[j] in feature_attr) and feature_attr[mesh.boundary_edges[j]] == True for j in range(it0))',
                             'all(implies((k in feature_attr) and not old(k in feature_attr), feature_attr[k] == True and any(mesh.boundary_edges[j] == k for j in range(it0))) for k in Int)',
                             'all(implies(old(k in feature_attr), (k in feature_attr) and (feature_attr[k] == old(feature_attr[k]) or (feature_attr[k] == True and any(mesh.boundary_edges[j] == k for j in range(it0))))) for k in Int)'])},
   ensures=['result is feature_attr',
            # every border edge is flagged, in every configuration (only_border or not) ...
            'all((mesh.boundary_edges[j] in feature_attr) and feature_attr[mesh.boundary_edges[j]] == True for j in range(len(mesh.boundary_edges)))',
            # ... nothing else is added, earlier entries are kept
            'all(implies((k in feature_attr) and not old(k in feature_attr), feature_attr[k] == True and any(mesh.boundary_edges[j] == k for j in range(len(mesh.boundary_edges)))) for k in Int)',
            'all(implies(old(k in feature_attr), (k in feature_attr) and (feature_attr[k] == old(feature_attr[k]) or (feature_attr[k] == True and any(mesh.boundary_edges[j] == k for j in range(len(mesh.boundary_edges)))))) for k in Int)'])

fn(FD + '._add_hard_edges_to_features', properties=['C15'], params={'mesh': 'FMesh', 'feature_attr': 'dict[int,bool]'}, returns='dict[int,bool]',
   requires=['fmesh_ok(self, mesh)',
             # (separate parameters / fields are separate objects in pyvc's store: the flag attribute is not the hard-edge attribute)
             'implies(mesh.edges.hard is not None, all(0 <= k and k < len(mesh.edges._data) for k in mesh.edges.hard))'],
   modifies=['feature_attr'],
   loops={0: loop(invariant=['all(implies(hard_kept(self, mesh, hard_edges, key_at(hard_edges, j)), (key_at(hard_edges, j) in feature_attr) and feature_attr[key_at(hard_edges, j)] == True) for j in range(it0))',
                             'all(implies((k in feature_attr) and not old(k in feature_attr), hard_kept(self, mesh, hard_edges, k) and feature_attr[k] == True) for k in Int)',
                             'all(implies(old(k in feature_attr), (k in feature_attr) and (feature_attr[k] == old(feature_attr[k]) or (hard_kept(self, mesh, hard_edges, k) and feature_attr[k] == True))) for k in Int)'])},
   ensures=['result is feature_attr',
            # every declared hard edge that is interior and bent by more than ~37 degrees is flagged (none when only_border) ...
            'implies(not self.only_border and mesh.edges.hard is not None, all(implies(hard_kept(self, mesh, mesh.edges.hard, k), (k in feature_attr) and feature_attr[k] == True) for k in mesh.edges.hard))',
            # ... nothing else is added, earlier entries are kept
            'all(implies((k in feature_attr) and not old(k in feature_attr), not self.only_border and mesh.edges.hard is not None and hard_kept(self, mesh, mesh.edges.hard, k) and feature_attr[k] == True) for k in Int)',
            'all(implies(old(k in feature_attr), (k in feature_attr) and (feature_attr[k] == old(feature_attr[k]) or (not self.only_border and mesh.edges.hard is not None and hard_kept(self, mesh, mesh.edges.hard, k) and feature_attr[k] == True))) for k in Int)'])
