"""Contracts for mouette/operators/adjacency.py (property C08, clause "the adjacency and vertex-edge / vertex-face incidence
operators have exactly one entry per incidence with the documented sign and weight").

The functions assemble coordinate triplets (or write entries of a scipy lil_matrix) in Python loops and hand them to scipy.
scipy itself is outside the verifier: `sp.coo_matrix((vals,(rows,cols)), shape)` and `sp.lil_matrix(shape)` are *trusted*
constructors whose result is a record of the triplets / an entry map (assumption A-scipy: the matrix denoted by COO triplets is
the sum of its entries; lil item assignment overwrites one entry; tocsc() keeps the entries).  What is proved is everything the
repository's own code decides: which (row, col, value) triplets exist, for every mesh and every edge count."""
from pyvc.spec import *
import specs.geometry, specs.mesh_model

OP = 'mouette.operators.adjacency.'

klass('OpMesh', real='mouette.mesh.datatypes.surface.SurfaceMesh',
      fields={'vertices': 'VContainer', 'edges': 'RContainer', 'faces': 'RContainer'})
fn('mouette.mesh.datatypes.surface.SurfaceMesh.id_edges', inline=True)

klass('CooMatrix', fields={'vals': 'list[real]', 'rows': 'list[real]', 'cols': 'list[real]', 'nrows': 'int', 'ncols': 'int'})
fn('scipy.sparse.coo_matrix', params={'arg1': 'tuple[list[real],tuple[list[real],list[real]]]', 'shape': 'tuple[int,int]'},
   returns='CooMatrix', trusted=True,
   requires=['len(arg1[0]) == len(arg1[1][0])', 'len(arg1[0]) == len(arg1[1][1])'],
   ensures=['len(result.vals) == len(arg1[0])', 'len(result.rows) == len(arg1[0])', 'len(result.cols) == len(arg1[0])',
            'all(result.vals[k] == arg1[0][k] for k in range(len(arg1[0])))',
            'all(result.rows[k] == arg1[1][0][k] for k in range(len(arg1[0])))',
            'all(result.cols[k] == arg1[1][1][k] for k in range(len(arg1[0])))',
            'result.nrows == shape[0]', 'result.ncols == shape[1]'],
   note='A-scipy: the COO constructor records the triplets it is given (scipy requires the three arrays to have equal length)')

predicate('edge_rows', 'm', 'all(len(m.edges._data[e]) == 2 for e in range(len(m.edges._data)))')
predicate('edge_in_range', 'm', '''all(0 <= m.edges._data[e][0] and m.edges._data[e][0] < len(m.vertices._data)
    and 0 <= m.edges._data[e][1] and m.edges._data[e][1] < len(m.vertices._data) for e in range(len(m.edges._data)))''')

# the index part, common to all weightings: entry 2e is (a_e, b_e), entry 2e+1 is (b_e, a_e)
IDX = ['len(result.vals) == 2*len(mesh.edges._data)', 'result.nrows == len(mesh.vertices._data)', 'result.ncols == len(mesh.vertices._data)',
       'all(result.rows[2*e] == mesh.edges._data[e][0] and result.cols[2*e] == mesh.edges._data[e][1] '
       '    and result.rows[2*e+1] == mesh.edges._data[e][1] and result.cols[2*e+1] == mesh.edges._data[e][0] for e in range(len(mesh.edges._data)))']
IDX_INV = ['len(rows) == 2*m', 'len(cols) == 2*m', 'len(vals) == 2*m', 'm == len(mesh.edges._data)',
           'all(rows[2*e] == mesh.edges._data[e][0] and cols[2*e] == mesh.edges._data[e][1] '
           '    and rows[2*e+1] == mesh.edges._data[e][1] and cols[2*e+1] == mesh.edges._data[e][0] for e in range({it}))']

fn(OP + 'adjacency_matrix#one', of=OP + 'adjacency_matrix', properties=['C08'],
   params={'mesh': 'OpMesh', 'weights': 'str'}, returns='CooMatrix',
   requires=['edge_rows(mesh)', 'weights == "one"'],
   loops={2: loop(invariant=[s.format(it='it2') for s in IDX_INV] + ['all(vals[k] == 1 for k in range(2*m))'])},
   ensures=IDX + ['all(result.vals[k] == 1 for k in range(2*len(mesh.edges._data)))'])

fn(OP + 'adjacency_matrix#length', of=OP + 'adjacency_matrix', properties=['C08'],
   params={'mesh': 'OpMesh', 'weights': 'str'}, returns='CooMatrix',
   requires=['edge_rows(mesh)', 'edge_in_range(mesh)', 'weights == "length"'],
   loops={0: loop(invariant=['len(vals) == 2*m', 'm == len(mesh.edges._data)',
                             'all(vals[2*e] >= 0 and vals[2*e]*vals[2*e] == dist2(mesh.vertices._data[mesh.edges._data[e][0]], mesh.vertices._data[mesh.edges._data[e][1]]) '
                             '    and vals[2*e+1] == vals[2*e] for e in range(it0))']),
          2: loop(invariant=[s.format(it='it2') for s in IDX_INV] +
                  ['all(vals[2*e] >= 0 and vals[2*e]*vals[2*e] == dist2(mesh.vertices._data[mesh.edges._data[e][0]], mesh.vertices._data[mesh.edges._data[e][1]]) '
                   '    and vals[2*e+1] == vals[2*e] for e in range(m))'])},
   ensures=IDX + ['all(result.vals[2*e] >= 0 and result.vals[2*e]*result.vals[2*e] == dist2(mesh.vertices._data[mesh.edges._data[e][0]], mesh.vertices._data[mesh.edges._data[e][1]]) '
                  '    and result.vals[2*e+1] == result.vals[2*e] for e in range(len(mesh.edges._data)))'])

fn(OP + 'adjacency_matrix#custom', of=OP + 'adjacency_matrix', properties=['C08'],
   params={'mesh': 'OpMesh', 'weights': 'dict[int,real]'}, returns='CooMatrix',
   requires=['edge_rows(mesh)', 'all((e in weights) for e in range(len(mesh.edges._data)))'],
   loops={1: loop(invariant=['len(vals) == 2*m', 'm == len(mesh.edges._data)',
                             'all(vals[2*e] == weights[e] and vals[2*e+1] == weights[e] for e in range(it1))']),
          2: loop(invariant=[s.format(it='it2') for s in IDX_INV] +
                  ['all(vals[2*e] == weights[e] and vals[2*e+1] == weights[e] for e in range(m))'])},
   ensures=IDX + ['all(result.vals[2*e] == weights[e] and result.vals[2*e+1] == weights[e] for e in range(len(mesh.edges._data)))'])

# ---- incidence operators: scipy.sparse.lil_matrix modelled as its entry map (row, col) -> value (pyvc/externals.py)
fn(OP + 'vertex_to_edge_operator', properties=['C08'], params={'mesh': 'OpMesh', 'oriented': 'bool'}, returns='dict[tuple[int,int],real]',
   requires=['edge_rows(mesh)'],
   loops={0: loop(invariant=['m == len(mesh.edges._data)', 'orig_coeff == (-1 if oriented else 1)',
                             'all((mesh.edges._data[e][1], e) in mat and mat[(mesh.edges._data[e][1], e)] == 1 for e in range(it0))',
                             'all((mesh.edges._data[e][0], e) in mat and implies(mesh.edges._data[e][0] != mesh.edges._data[e][1], mat[(mesh.edges._data[e][0], e)] == orig_coeff) for e in range(it0))',
                             'all(0 <= k[1] and k[1] < it0 and (k[0] == mesh.edges._data[k[1]][0] or k[0] == mesh.edges._data[k[1]][1]) for k in mat)'])},
   ensures=[# the arrival of every edge has coefficient 1, its origin -1 (oriented) or 1
            'all((mesh.edges._data[e][1], e) in result and result[(mesh.edges._data[e][1], e)] == 1 for e in range(len(mesh.edges._data)))',
            'all((mesh.edges._data[e][0], e) in result and implies(mesh.edges._data[e][0] != mesh.edges._data[e][1], '
            '    result[(mesh.edges._data[e][0], e)] == (-1 if oriented else 1)) for e in range(len(mesh.edges._data)))',
            # exactly one entry per incidence: no entry that is not an (extremity, edge) pair
            'all(0 <= k[1] and k[1] < len(mesh.edges._data) and (k[0] == mesh.edges._data[k[1]][0] or k[0] == mesh.edges._data[k[1]][1]) for k in result)'])

fn(OP + 'vertex_to_face_operator', properties=['C08'], params={'mesh': 'OpMesh'}, returns='dict[tuple[int,int],real]',
   requires=['all(len(mesh.faces._data[f]) >= 1 for f in range(len(mesh.faces._data)))'],
   loops={0: loop(invariant=['all(all((mesh.faces._data[f][i], f) in mat and mat[(mesh.faces._data[f][i], f)]*len(mesh.faces._data[f]) == 1 '
                             '        for i in range(len(mesh.faces._data[f]))) for f in range(it0))',
                             'all(0 <= k[1] and k[1] < it0 and any(mesh.faces._data[k[1]][i] == k[0] for i in range(len(mesh.faces._data[k[1]]))) for k in mat)']),
          1: loop(invariant=['aT*len(mesh.faces._data[it0]) == 1', 'iT == it0', 'T == mesh.faces._data[it0]',
                             'all(all((mesh.faces._data[f][i], f) in mat and mat[(mesh.faces._data[f][i], f)]*len(mesh.faces._data[f]) == 1 '
                             '        for i in range(len(mesh.faces._data[f]))) for f in range(it0))',
                             'all((mesh.faces._data[it0][i], it0) in mat and mat[(mesh.faces._data[it0][i], it0)] == aT for i in range(it1))',
                             'all(0 <= k[1] and k[1] <= it0 and any(mesh.faces._data[k[1]][i] == k[0] for i in range(len(mesh.faces._data[k[1]]))) for k in mat)'])},
   ensures=['all(all((mesh.faces._data[f][i], f) in result and result[(mesh.faces._data[f][i], f)]*len(mesh.faces._data[f]) == 1 '
            '        for i in range(len(mesh.faces._data[f]))) for f in range(len(mesh.faces._data)))',
            'all(0 <= k[1] and k[1] < len(mesh.faces._data) and any(mesh.faces._data[k[1]][i] == k[0] for i in range(len(mesh.faces._data[k[1]]))) for k in result)'])

# ---- graph Laplacian = degree - adjacency, at the level of the coordinate triplets handed to scipy
# The adjacency is what mesh.connectivity.vertex_to_vertices answers (contract of property C01), described here by two
# uninterpreted functions; pre[l] (logical parameter) is the number of triplets written before vertex l.
ufunc('nbr_len', ['int'], 'int')
ufunc('nbr_at', ['int', 'int'], 'int')
klass('GConn', real='mouette.mesh.datatypes.surface.SurfaceMesh._Connectivity', fields={})
klass('GMesh', real='mouette.mesh.datatypes.surface.SurfaceMesh', fields={'vertices': 'VContainer', 'edges': 'RContainer', 'connectivity': 'GConn'})
fn('mouette.mesh.datatypes.surface.SurfaceMesh.id_vertices', inline=True)
fn('mouette.mesh.datatypes.linear.PolyLine._Connectivity.vertex_to_vertices', params={'self': 'GConn', 'V': 'int'}, returns='list[int]', trusted=True,
   ensures=['len(result) == nbr_len(V)', 'all(result[j] == nbr_at(V, j) for j in range(nbr_len(V)))'],
   note='C01: the neighbours of a vertex (fresh list); nbr_len / nbr_at name the answer')
fn('scipy.sparse.csc_matrix', params={'arg1': 'tuple[list[real],tuple[list[real],list[real]]]', 'shape': 'tuple[int,int]'},
   returns='CooMatrix', trusted=True,
   requires=['len(arg1[0]) == len(arg1[1][0])', 'len(arg1[0]) == len(arg1[1][1])'],
   ensures=['len(result.vals) == len(arg1[0])', 'len(result.rows) == len(arg1[0])', 'len(result.cols) == len(arg1[0])',
            'all(result.vals[k] == arg1[0][k] for k in range(len(arg1[0])))',
            'all(result.rows[k] == arg1[1][0][k] for k in range(len(arg1[0])))',
            'all(result.cols[k] == arg1[1][1][k] for k in range(len(arg1[0])))',
            'result.nrows == shape[0]', 'result.ncols == shape[1]'],
   note='A-scipy: csc_matrix((data,(rows,cols))) denotes the sum of the triplets it is given')

LAP = 'mouette.operators.laplacian_op.'
predicate('lap_row', 'data, rows, cols, pre, l',
          '''data[pre[l]] == nbr_len(l) and rows[pre[l]] == l and cols[pre[l]] == l
             and all(data[pre[l] + 1 + j] == -1 and rows[pre[l] + 1 + j] == l and cols[pre[l] + 1 + j] == nbr_at(l, j) for j in range(nbr_len(l)))''')
fn(LAP + 'graph_laplacian', properties=['C08'], params={'mesh': 'GMesh'}, returns='CooMatrix',
   ghost_params={'pre': 'map[int,int]'},
   requires=['pre[0] == 0',
             'all(nbr_len(l) >= 0 and pre[l + 1] == pre[l] + 1 + nbr_len(l) for l in range(len(mesh.vertices._data)))',
             # handshake: the degrees sum to twice the number of edges (C01/C02: vertex_to_vertices is derived from the edge list)
             'pre[len(mesh.vertices._data)] == 2*len(mesh.edges._data) + len(mesh.vertices._data)',
             # prefix sums of non-negative terms are monotone (follows from the recurrence by induction; the induction is not
             # mechanised, so it is stated on the logical parameter)
             'all(all(implies(q <= r, pre[q] <= pre[r]) for r in range(len(mesh.vertices._data) + 1)) for q in range(len(mesh.vertices._data) + 1))'],
   loops={0: loop(invariant=['n == len(mesh.vertices._data)', 'ncoeffs == 2*len(mesh.edges._data) + n', 'len(data) == ncoeffs', 'len(rows) == ncoeffs', 'len(cols) == ncoeffs',
                             'k == pre[it0]',
                             'all(lap_row(data, rows, cols, pre, l) for l in range(it0))']),
          1: loop(invariant=['n == len(mesh.vertices._data)', 'ncoeffs == 2*len(mesh.edges._data) + n', 'len(data) == ncoeffs', 'len(rows) == ncoeffs', 'len(cols) == ncoeffs',
                             'l == it0', '0 <= it0 and it0 < n', 'len(adj) == nbr_len(l)', 'all(adj[j] == nbr_at(l, j) for j in range(nbr_len(l)))',
                             'k == pre[it0] + 1 + it1',
                             'all(lap_row(data, rows, cols, pre, q) for q in range(it0))',
                             'data[pre[l]] == nbr_len(l) and rows[pre[l]] == l and cols[pre[l]] == l',
                             'all(data[pre[l] + 1 + j] == -1 and rows[pre[l] + 1 + j] == l and cols[pre[l] + 1 + j] == nbr_at(l, j) for j in range(it1))'])},
   ensures=['len(result.vals) == 2*len(mesh.edges._data) + len(mesh.vertices._data)',
            'result.nrows == len(mesh.vertices._data)', 'result.ncols == len(mesh.vertices._data)',
            # row l of the triplet list: the degree on the diagonal, then -1 for every neighbour
            'all(lap_row(result.vals, result.rows, result.cols, pre, l) for l in range(len(mesh.vertices._data)))'])
