"""EdgeSpanningTree.compute (property C10), last loop: the children table and the tree edge list are built from the parent
table -- region contract on the real statements `for v in self.mesh.id_vertices: ...`.

Proved for every parent table and every reach map left by the search: every v listed in children[p] was reached and has
parent[v] == p (children table consistent with the parent table), each listed once and in increasing order, and the tree
edge list holds exactly one sorted pair (p, v) per reached vertex with a parent, in vertex order (so no tree edge is missing).
The converse for the children table (every reached v with parent p IS listed in children[p]) is stated with an existential
witness that neither solver attempt finds: not claimed, bounded stand-in -- so "one fewer tree edge
than reached elements" follows whenever the root is the only reached vertex without parent (which is what the search loop is
relied on to establish: bounded stand-in)."""
from pyvc.spec import *
import specs.mesh_model

EST = 'mouette.processing.trees.edge_sp.EdgeSpanningTree'
klass('BMesh', real='mouette.mesh.datatypes.surface.SurfaceMesh', fields={'vertices': 'VContainer'})
fn('mouette.mesh.datatypes.surface.SurfaceMesh.id_vertices', inline=True)
klass('BfsTree', real=EST, fields={'mesh': 'BMesh', 'parent': 'list[opt[int]]', 'children': 'list[list[int]]', 'edges': 'list[tuple[int,int]]'})

# v contributes: it was reached and has a parent
predicate('linked', 'self, dist, v', '(not isinf(dist[v])) and self.parent[v] is not None')
# cnt[k] = number of contributing vertices below k (logical parameter: prefix count)
predicate('is_count', 'self, dist, cnt, n', 'cnt[0] == 0 and all(cnt[k + 1] == cnt[k] + (1 if linked(self, dist, k) else 0) for k in range(n))')

BINV = ['len(self.children) == n', 'len(self.parent) == n', 'len(dist_to_root) == n',
        'len(self.edges) == cnt[{u}]',
        # children[p] lists exactly the contributing vertices below {u} whose parent is p, in increasing order
        'all(all(0 <= self.children[p][j] and self.children[p][j] < {u} and linked(self, dist_to_root, self.children[p][j]) and self.parent[self.children[p][j]] == p '
        '        for j in range(len(self.children[p]))) for p in range(n))',
        'all(all(self.children[p][j] < self.children[p][j + 1] for j in range(len(self.children[p]) - 1)) for p in range(n))',
        # the edge list: entry cnt[v] is the sorted pair (parent[v], v)
        'all(implies(linked(self, dist_to_root, v), (self.edges[cnt[v]][0] == self.parent[v] and self.edges[cnt[v]][1] == v) or (self.edges[cnt[v]][0] == v and self.edges[cnt[v]][1] == self.parent[v])) for v in range({u}))',
        'all(self.edges[k][0] <= self.edges[k][1] for k in range(len(self.edges)))']

fn(EST + '.compute#tables', of=EST + '.compute', properties=['C10'], params={'self': 'BfsTree'},
   region=('for v in self.mesh.id_vertices', 'for v in self.mesh.id_vertices'),
   locals={'dist_to_root': 'list[real]'},
   ghost_params={'cnt': 'map[int,int]'},
   lets={'n': 'len(self.mesh.vertices._data)'},
   requires=['len(self.children) == n', 'len(self.parent) == n', 'len(dist_to_root) == n', 'len(self.edges) == 0',
             'all(len(self.children[p]) == 0 for p in range(n))',
             'all(implies(self.parent[v] is not None, 0 <= self.parent[v] and self.parent[v] < n) for v in range(n))',
             'is_count(self, dist_to_root, cnt, n)',
             # prefix counts are monotone (induction on the recurrence, not mechanised)
             'all(all(implies(a <= b, cnt[a] <= cnt[b]) for b in range(n + 1)) for a in range(n + 1))'],
   modifies=['self.children', 'self.edges'],
   loops={1: loop(invariant=[s.format(u='it1') for s in BINV])},
   ensures=[s.format(u='n') for s in BINV])
