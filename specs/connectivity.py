"""Contracts for the lazily built surface connectivity (property C01): typestate of the caches.

Part A (this file): every accessor is safe on every cache state that the class can be in (fresh = all None,
or built), keeps the typestate, and answers by the half-edge table.  The content of the table is the contract
of _compute_connectivity, assumed here (trusted) and examined by the bounded stand-in / the region proof."""
from pyvc.spec import *
import specs.mesh_model

S = 'mouette.mesh.datatypes.surface.SurfaceMesh._Connectivity'
klass('SMesh', fields={'vertices': 'VContainer', 'faces': 'RContainer', 'edges': 'RContainer', 'face_corners': 'CornerContainer'})
klass(S, fields={'mesh': 'SMesh',
                 '_edge_id': 'opt[dict[tuple[int,int],int]]', '_adjV2V': 'opt[dict[int,list[int]]]',
                 '_half_edges': 'opt[dict[tuple[int,int],list[opt[int]]]]', '_Cn2he': 'opt[dict[int,tuple[int,int]]]',
                 '_adjVF2Cn': 'opt[dict[tuple[int,int],int]]', '_adjV2Cn': 'opt[dict[int,list[int]]]', '_adjF2Cn': 'opt[dict[int,int]]'})

# typestate: the six tables built by _compute_connectivity are None together or built together
predicate('ts', 'c', '''((c._half_edges is None) == (c._Cn2he is None)) and ((c._half_edges is None) == (c._adjVF2Cn is None))
    and ((c._half_edges is None) == (c._adjV2Cn is None)) and ((c._half_edges is None) == (c._adjF2Cn is None))
    and ((c._half_edges is None) == (c._adjV2V is None))''')
predicate('built', 'c', 'c._half_edges is not None')
# structural consistency of the tables (part of what _compute_connectivity establishes)
predicate('tbl', 'c', '''implies(built(c),
    all(c._Cn2he[k] in c._half_edges for k in c._Cn2he)
    and all(len(c._half_edges[k]) == 7 and c._half_edges[k][0] is not None and c._half_edges[k][1] is not None and c._half_edges[k][2] is not None
            and c._half_edges[k][4] is not None and c._half_edges[k][5] is not None and c._half_edges[k][6] is not None for k in c._half_edges)
    and all(f in c._adjF2Cn for f in range(len(c.mesh.faces._data)))
    and all(v in c._adjV2V for v in range(len(c.mesh.vertices._data))))''')
predicate('same_tables', 'c', '''implies(old(built(c)), c._half_edges == old(c._half_edges) and c._Cn2he == old(c._Cn2he) and c._adjVF2Cn == old(c._adjVF2Cn)
    and c._adjV2Cn == old(c._adjV2Cn) and c._adjF2Cn == old(c._adjF2Cn) and c._adjV2V == old(c._adjV2V))''')

CACHES = ['self._half_edges', 'self._Cn2he', 'self._adjVF2Cn', 'self._adjV2Cn', 'self._adjF2Cn', 'self._adjV2V']

fn(S + '._compute_connectivity', trusted=True, requires=[], modifies=CACHES,
   ensures=['built(self)', 'ts(self)', 'tbl(self)'],
   note='content of the tables = spec of the face list: examined by the bounded stand-in (all accessors vs direct inspection of the face list)')

ACC = dict(requires=['ts(self)', 'tbl(self)'], modifies=CACHES)
POST = ['ts(self)', 'built(self)', 'tbl(self)', 'same_tables(self)']     # query order independence: a built table is never changed by a query

fn(S + '.previous_corner', properties=['C01'], params={'C': 'int'}, returns='opt[int]', **ACC,
   ensures=POST + ['result == (None if C not in self._Cn2he else self._half_edges[self._Cn2he[C]][1])'])
fn(S + '.next_corner', properties=['C01'], params={'C': 'int'}, returns='opt[int]', **ACC,
   ensures=POST + ['result == (None if C not in self._Cn2he else self._half_edges[self._Cn2he[C]][2])'])
fn(S + '.opposite_corner', properties=['C01'], params={'C': 'int'}, returns='opt[int]', **ACC,
   ensures=POST + ['result == (None if C not in self._Cn2he else self._half_edges[self._Cn2he[C]][3])'])
fn(S + '.corner_to_half_edge', properties=['C01'], params={'C': 'int'}, returns='opt[tuple[int,int]]', **ACC,
   ensures=POST + ['result == (None if C not in self._Cn2he else self._Cn2he[C])'])
fn(S + '.half_edge_to_corner', properties=['C01'], params={'u': 'int', 'v': 'int'}, returns='opt[int]', **ACC,
   ensures=POST + ['result == (None if (u, v) not in self._half_edges else self._half_edges[(u, v)][0])'])
fn(S + '.direct_face', properties=['C01'], params={'u': 'int', 'v': 'int', 'return_inds': 'bool'}, cases=[{'return_inds': False}], returns='opt[int]', **ACC,
   ensures=POST + ['result == (None if (u, v) not in self._half_edges else self._half_edges[(u, v)][4])'])
fn(S + '.vertex_to_corners', properties=['C01'], params={'V': 'int'}, returns='opt[list[int]]', **ACC,
   ensures=POST + ['(result is None) == (V not in self._adjV2Cn)', 'implies(V in self._adjV2Cn, result == self._adjV2Cn[V])'])
fn(S + '.vertex_to_corner_in_face', properties=['C01'], params={'V': 'int', 'F': 'int'}, returns='opt[int]', **ACC,
   ensures=POST + ['result == (None if (V, F) not in self._adjVF2Cn else self._adjVF2Cn[(V, F)])'])
fn(S + '.face_to_first_corner', properties=['C01'], params={'F': 'int'}, returns='int',
   requires=['ts(self)', 'tbl(self)', '0 <= F and F < len(self.mesh.faces._data)'], modifies=CACHES,
   ensures=POST + ['result == self._adjF2Cn[F]'])
fn('mouette.mesh.datatypes.linear.PolyLine._Connectivity.vertex_to_vertices', properties=['C01'], params={'self': '_Connectivity', 'V': 'int'}, returns='list[int]',
   requires=['ts(self)', 'tbl(self)', '0 <= V and V < len(self.mesh.vertices._data)'], modifies=CACHES,
   note='defined in PolyLine._Connectivity; verified on the surface class (same code)',
   ensures=POST)


# ------------------------------------------------------------------------------------------------------
# Part B: content of the half-edge table (region contract on the real statements of _compute_connectivity)
#
# Region = the statements from `self._half_edges = dict()` to the loop `for iF, F in enumerate(self.mesh.faces)`.
# Dropped (not verified here): the statements before (vertex/corner tables) and after (opposite linking, sorting).
# What the region relies on from the dropped prefix is stated in `requires`: the (vertex, face) -> corner table
# numbers the corners face by face (first[f] + i), as face_corners does (C02 contract, proved in specs/meshdata).
predicate('fprefix', 'first, rows', '''first[0] == 0 and all(first[f+1] == first[f] + len(rows[f]) for f in range(len(rows)))
    and all(all(first[a] <= first[b] for a in range(b + 1)) for b in range(len(rows) + 1))''')
# Corner-indexed description of the face list (logical parameters, tied to the rows by `corner_maps`): for the corner c = first[f] + i,
#   cu[c] -> cv[c] is its directed edge, cp[c] / cn[c] the previous / next corner of the face, cfa[c] = f, cia[c] = i, cja[c] = (i+1) % len.
predicate('corner_maps', 'rows, first, cu, cv, cp, cn, cfa, cia, cja', '''all(all(
        cu[first[f] + i] == rows[f][i] and cv[first[f] + i] == rows[f][(i + 1) % len(rows[f])]
        and cp[first[f] + i] == first[f] + (i - 1) % len(rows[f]) and cn[first[f] + i] == first[f] + (i + 1) % len(rows[f])
        and cfa[first[f] + i] == f and cia[first[f] + i] == i and cja[first[f] + i] == (i + 1) % len(rows[f])
      for i in range(len(rows[f]))) for f in range(len(rows)))''')
# entry of corner c in the two tables
predicate('he_ok', 'c, k, cu, cv, cp, cn, cfa, cia, cja, cid', '''((cu[k], cv[k]) in c._half_edges) and len(c._half_edges[(cu[k], cv[k])]) == 7
    and c._half_edges[(cu[k], cv[k])][0] == k and c._half_edges[(cu[k], cv[k])][1] == cp[k] and c._half_edges[(cu[k], cv[k])][2] == cn[k]
    and c._half_edges[(cu[k], cv[k])][3] is None and c._half_edges[(cu[k], cv[k])][4] == cfa[k]
    and c._half_edges[(cu[k], cv[k])][5] == cia[k] and c._half_edges[(cu[k], cv[k])][6] == cja[k]
    and (k in c._Cn2he) and c._Cn2he[k] == (cu[k], cv[k]) and cid[(cu[k], cv[k])] == k''')

HE_G = {'first': 'map[int,int]', 'cu': 'map[int,int]', 'cv': 'map[int,int]', 'cp': 'map[int,int]', 'cn': 'map[int,int]',
        'cfa': 'map[int,int]', 'cia': 'map[int,int]', 'cja': 'map[int,int]', 'cid': 'map[tuple[int,int],int]'}
HE_ARGS = 'cu, cv, cp, cn, cfa, cia, cja'
HE_ARGS2 = HE_ARGS + ', cid'
fn(S + '._compute_connectivity#half_edges', of=S + '._compute_connectivity', properties=['C01'],
   region=('self._half_edges = dict()', 'for iF, F in enumerate(self.mesh.faces)'),
   ghost_params=HE_G,
   requires=['fprefix(first, self.mesh.faces._data)',
             'all(len(self.mesh.faces._data[f]) >= 1 for f in range(len(self.mesh.faces._data)))',
             'self._adjVF2Cn is not None',
             # corner numbering established by the dropped prefix: the (vertex, face) -> corner table numbers the corners face by face
             'all(all((self.mesh.faces._data[f][i], f) in self._adjVF2Cn and self._adjVF2Cn[(self.mesh.faces._data[f][i], f)] == first[f] + i '
             '        for i in range(len(self.mesh.faces._data[f]))) for f in range(len(self.mesh.faces._data)))',
             'corner_maps(self.mesh.faces._data, first, %s)' % HE_ARGS,
             # oriented manifold: a directed edge belongs to exactly one corner (cid recovers the corner from its directed edge)
             'all(cid[(cu[c], cv[c])] == c for c in range(first[len(self.mesh.faces._data)]))'],
   modifies=['self._half_edges', 'self._Cn2he'],
   loops={2: loop(invariant=['self._half_edges is not None and self._Cn2he is not None',
                             'all(he_ok(self, k, %s) for k in range(first[it2]))' % HE_ARGS2]),
          3: loop(invariant=['self._half_edges is not None and self._Cn2he is not None', 'iF == it2', '0 <= it2 and it2 < len(self.mesh.faces._data)',
                             'n == len(self.mesh.faces._data[it2])', 'first[it2] + n <= first[len(self.mesh.faces._data)]', 'first[it2] >= 0', 'len(F) == n and all(F[q] == self.mesh.faces._data[it2][q] for q in range(n))',
                             # the facts about the current face (instances of the preconditions at f = it2, which are then hidden from the
                             # preservation step: the solver is unstable with the doubly quantified forms in its context)
                             'all(cu[first[it2] + i] == F[i] and cv[first[it2] + i] == F[(i + 1) % n] and cp[first[it2] + i] == first[it2] + (i - 1) % n '
                             '    and cn[first[it2] + i] == first[it2] + (i + 1) % n and cfa[first[it2] + i] == it2 and cia[first[it2] + i] == i and cja[first[it2] + i] == (i + 1) % n for i in range(n))',
                             'self._adjVF2Cn is not None and all((F[i], it2) in self._adjVF2Cn and self._adjVF2Cn[(F[i], it2)] == first[it2] + i for i in range(n))',
                             'all(cid[(cu[first[it2] + i], cv[first[it2] + i])] == first[it2] + i for i in range(n))',
                             'all(he_ok(self, k, %s) for k in range(first[it2] + it3))' % HE_ARGS2],
                  hide=[0, 3, 4, 5])},
   # every corner has its record: directed edge, previous / next corner, face, local indices; no opposite yet
   ensures=['self._half_edges is not None and self._Cn2he is not None',
            'all(he_ok(self, k, %s) for k in range(first[len(self.mesh.faces._data)]))' % HE_ARGS2])
