"""Contracts for the lazily built surface connectivity (property C01): typestate of the caches.

Part A (this file): every accessor is safe on every cache state that the class can be in (fresh = all None,
or built), keeps the typestate, and answers by the half-edge table.  The content of the table is the contract
of _compute_connectivity, assumed here (trusted) and examined by the bounded stand-in / the region proof."""
from pyvc.spec import *
import specs.mesh_model

S = 'mouette.mesh.datatypes.surface.SurfaceMesh._Connectivity'
klass('SMesh', fields={'vertices': 'VContainer', 'faces': 'RContainer', 'edges': 'RContainer', 'face_corners': 'CornerContainer'})
klass(S, fields={'mesh': 'SMesh',
                 '_edge_id': 'opt[dict[tuple[int,int],int]]', '_adjV2V': 'opt[dict[int,list[int]]]',
                 '_half_edges': 'opt[dict[tuple[int,int],list[opt[int]]]]', '_Cn2he': 'opt[dict[int,tuple[int,int]]]',
                 '_adjVF2Cn': 'opt[dict[tuple[int,int],int]]', '_adjV2Cn': 'opt[dict[int,list[int]]]', '_adjF2Cn': 'opt[dict[int,int]]'})

# typestate: the six tables built by _compute_connectivity are None together or built together
predicate('ts', 'c', '''((c._half_edges is None) == (c._Cn2he is None)) and ((c._half_edges is None) == (c._adjVF2Cn is None))
    and ((c._half_edges is None) == (c._adjV2Cn is None)) and ((c._half_edges is None) == (c._adjF2Cn is None))
    and ((c._half_edges is None) == (c._adjV2V is None))''')
predicate('built', 'c', 'c._half_edges is not None')
# structural consistency of the tables (part of what _compute_connectivity establishes)
predicate('tbl', 'c', '''implies(built(c),
    all(c._Cn2he[k] in c._half_edges for k in c._Cn2he)
    and all(len(c._half_edges[k]) == 7 and c._half_edges[k][0] is not None and c._half_edges[k][1] is not None and c._half_edges[k][2] is not None
            and c._half_edges[k][4] is not None and c._half_edges[k][5] is not None and c._half_edges[k][6] is not None for k in c._half_edges)
    and all(f in c._adjF2Cn for f in range(len(c.mesh.faces._data)))
    and all(v in c._adjV2V for v in range(len(c.mesh.vertices._data))))''')
predicate('same_tables', 'c', '''implies(old(built(c)), c._half_edges == old(c._half_edges) and c._Cn2he == old(c._Cn2he) and c._adjVF2Cn == old(c._adjVF2Cn)
    and c._adjV2Cn == old(c._adjV2Cn) and c._adjF2Cn == old(c._adjF2Cn) and c._adjV2V == old(c._adjV2V))''')

CACHES = ['self._half_edges', 'self._Cn2he', 'self._adjVF2Cn', 'self._adjV2Cn', 'self._adjF2Cn', 'self._adjV2V']

fn(S + '._compute_connectivity', trusted=True, requires=[], modifies=CACHES,
   ensures=['built(self)', 'ts(self)', 'tbl(self)'],
   note='content of the tables = spec of the face list: examined by the bounded stand-in (all accessors vs direct inspection of the face list)')

ACC = dict(requires=['ts(self)', 'tbl(self)'], modifies=CACHES)
POST = ['ts(self)', 'built(self)', 'tbl(self)', 'same_tables(self)']     # query order independence: a built table is never changed by a query

fn(S + '.previous_corner', properties=['C01'], params={'C': 'int'}, returns='opt[int]', **ACC,
   ensures=POST + ['result == (None if C not in self._Cn2he else self._half_edges[self._Cn2he[C]][1])'])
fn(S + '.next_corner', properties=['C01'], params={'C': 'int'}, returns='opt[int]', **ACC,
   ensures=POST + ['result == (None if C not in self._Cn2he else self._half_edges[self._Cn2he[C]][2])'])
fn(S + '.opposite_corner', properties=['C01'], params={'C': 'int'}, returns='opt[int]', **ACC,
   ensures=POST + ['result == (None if C not in self._Cn2he else self._half_edges[self._Cn2he[C]][3])'])
fn(S + '.corner_to_half_edge', properties=['C01'], params={'C': 'int'}, returns='opt[tuple[int,int]]', **ACC,
   ensures=POST + ['result == (None if C not in self._Cn2he else self._Cn2he[C])'])
fn(S + '.half_edge_to_corner', properties=['C01'], params={'u': 'int', 'v': 'int'}, returns='opt[int]', **ACC,
   ensures=POST + ['result == (None if (u, v) not in self._half_edges else self._half_edges[(u, v)][0])'])
fn(S + '.direct_face', properties=['C01'], params={'u': 'int', 'v': 'int', 'return_inds': 'bool'}, cases=[{'return_inds': False}], returns='opt[int]', **ACC,
   ensures=POST + ['result == (None if (u, v) not in self._half_edges else self._half_edges[(u, v)][4])'])
fn(S + '.vertex_to_corners', properties=['C01'], params={'V': 'int'}, returns='opt[list[int]]', **ACC,
   ensures=POST + ['(result is None) == (V not in self._adjV2Cn)', 'implies(V in self._adjV2Cn, result == self._adjV2Cn[V])'])
fn(S + '.vertex_to_corner_in_face', properties=['C01'], params={'V': 'int', 'F': 'int'}, returns='opt[int]', **ACC,
   ensures=POST + ['result == (None if (V, F) not in self._adjVF2Cn else self._adjVF2Cn[(V, F)])'])
fn(S + '.face_to_first_corner', properties=['C01'], params={'F': 'int'}, returns='int',
   requires=['ts(self)', 'tbl(self)', '0 <= F and F < len(self.mesh.faces._data)'], modifies=CACHES,
   ensures=POST + ['result == self._adjF2Cn[F]'])
fn('mouette.mesh.datatypes.linear.PolyLine._Connectivity.vertex_to_vertices', properties=['C01'], params={'self': '_Connectivity', 'V': 'int'}, returns='list[int]',
   requires=['ts(self)', 'tbl(self)', '0 <= V and V < len(self.mesh.vertices._data)'], modifies=CACHES,
   note='defined in PolyLine._Connectivity; verified on the surface class (same code)',
   ensures=POST)
