"""Contracts for the lazily built surface connectivity (property C01): typestate of the caches.

Part A (this file): every accessor is safe on every cache state that the class can be in (fresh = all None,
or built), keeps the typestate, and answers by the half-edge table.  The content of the table is the contract
of _compute_connectivity, assumed here (trusted) and examined by the bounded stand-in / the region proof."""
from pyvc.spec import *
import specs.mesh_model

S = 'mouette.mesh.datatypes.surface.SurfaceMesh._Connectivity'
klass('SMesh', fields={'vertices': 'VContainer', 'faces': 'RContainer', 'edges': 'RContainer', 'face_corners': 'CornerContainer'})
klass(S, fields={'mesh': 'SMesh',
                 '_edge_id': 'opt[dict[tuple[int,int],int]]', '_adjV2V': 'opt[dict[int,list[int]]]',
                 '_half_edges': 'opt[dict[tuple[int,int],list[opt[int]]]]', '_Cn2he': 'opt[dict[int,tuple[int,int]]]',
                 '_adjVF2Cn': 'opt[dict[tuple[int,int],int]]', '_adjV2Cn': 'opt[dict[int,list[int]]]', '_adjF2Cn': 'opt[dict[int,int]]'})

# typestate: the six tables built by _compute_connectivity are None together or built together
predicate('ts', 'c', '''((c._half_edges is None) == (c._Cn2he is None)) and ((c._half_edges is None) == (c._adjVF2Cn is None))
    and ((c._half_edges is None) == (c._adjV2Cn is None)) and ((c._half_edges is None) == (c._adjF2Cn is None))
    and ((c._half_edges is None) == (c._adjV2V is None))''')
predicate('built', 'c', 'c._half_edges is not None')
# structural consistency of the tables (part of what _compute_connectivity establishes)
predicate('tbl', 'c', '''implies(built(c),
    all(c._Cn2he[k] in c._half_edges for k in c._Cn2he)
    and all(len(c._half_edges[k]) == 7 and c._half_edges[k][0] is not None and c._half_edges[k][1] is not None and c._half_edges[k][2] is not None
            and c._half_edges[k][4] is not None and c._half_edges[k][5] is not None and c._half_edges[k][6] is not None for k in c._half_edges)
    and all(f in c._adjF2Cn for f in range(len(c.mesh.faces._data)))
    and all(v in c._adjV2V for v in range(len(c.mesh.vertices._data))))''')
predicate('same_tables', 'c', '''implies(old(built(c)), c._half_edges == old(c._half_edges) and c._Cn2he == old(c._Cn2he) and c._adjVF2Cn == old(c._adjVF2Cn)
    and c._adjV2Cn == old(c._adjV2Cn) and c._adjF2Cn == old(c._adjF2Cn) and c._adjV2V == old(c._adjV2V))''')

CACHES = ['self._half_edges', 'self._Cn2he', 'self._adjVF2Cn', 'self._adjV2Cn', 'self._adjF2Cn', 'self._adjV2V']

fn(S + '._compute_connectivity', trusted=True, requires=[], modifies=CACHES,
   ensures=['built(self)', 'ts(self)', 'tbl(self)'],
   note='content of the tables = spec of the face list: examined by the bounded stand-in (all accessors vs direct inspection of the face list)')

ACC = dict(requires=['ts(self)', 'tbl(self)'], modifies=CACHES)
POST = ['ts(self)', 'built(self)', 'tbl(self)', 'same_tables(self)']     # query order independence: a built table is never changed by a query

fn(S + '.previous_corner', properties=['C01'], params={'C': 'int'}, returns='opt[int]', **ACC,
   ensures=POST + ['result == (None if C not in self._Cn2he else self._half_edges[self._Cn2he[C]][1])'])
fn(S + '.next_corner', properties=['C01'], params={'C': 'int'}, returns='opt[int]', **ACC,
   ensures=POST + ['result == (None if C not in self._Cn2he else self._half_edges[self._Cn2he[C]][2])'])
fn(S + '.opposite_corner', properties=['C01'], params={'C': 'int'}, returns='opt[int]', **ACC,
   ensures=POST + ['result == (None if C not in self._Cn2he else self._half_edges[self._Cn2he[C]][3])'])
fn(S + '.corner_to_half_edge', properties=['C01'], params={'C': 'int'}, returns='opt[tuple[int,int]]', **ACC,
   ensures=POST + ['result == (None if C not in self._Cn2he else self._Cn2he[C])'])
fn(S + '.half_edge_to_corner', properties=['C01'], params={'u': 'int', 'v': 'int'}, returns='opt[int]', **ACC,
   ensures=POST + ['result == (None if (u, v) not in self._half_edges else self._half_edges[(u, v)][0])'])
fn(S + '.direct_face', properties=['C01'], params={'u': 'int', 'v': 'int', 'return_inds': 'bool'}, cases=[{'return_inds': False}], returns='opt[int]', **ACC,
   ensures=POST + ['result == (None if (u, v) not in self._half_edges else self._half_edges[(u, v)][4])'])
fn(S + '.vertex_to_corners', properties=['C01'], params={'V': 'int'}, returns='opt[list[int]]', **ACC,
   ensures=POST + ['(result is None) == (V not in self._adjV2Cn)', 'implies(V in self._adjV2Cn, result == self._adjV2Cn[V])'])
fn(S + '.vertex_to_corner_in_face', properties=['C01'], params={'V': 'int', 'F': 'int'}, returns='opt[int]', **ACC,
   ensures=POST + ['result == (None if (V, F) not in self._adjVF2Cn else self._adjVF2Cn[(V, F)])'])
fn(S + '.face_to_first_corner', properties=['C01'], params={'F': 'int'}, returns='int',
   requires=['ts(self)', 'tbl(self)', '0 <= F and F < len(self.mesh.faces._data)'], modifies=CACHES,
   ensures=POST + ['result == self._adjF2Cn[F]'])
fn('mouette.mesh.datatypes.linear.PolyLine._Connectivity.vertex_to_vertices', properties=['C01'], params={'self': '_Connectivity', 'V': 'int'}, returns='list[int]',
   requires=['ts(self)', 'tbl(self)', '0 <= V and V < len(self.mesh.vertices._data)'], modifies=CACHES,
   note='defined in PolyLine._Connectivity; verified on the surface class (same code)',
   ensures=POST)


# ------------------------------------------------------------------------------------------------------
# Part B: content of the half-edge table (region contract on the real statements of _compute_connectivity)
#
# Region = the statements from `self._half_edges = dict()` to the loop `for iF, F in enumerate(self.mesh.faces)`.
# Dropped (not verified here): the statements before (vertex/corner tables) and after (opposite linking, sorting).
# What the region relies on from the dropped prefix is stated in `requires`: the (vertex, face) -> corner table
# numbers the corners face by face (first[f] + i), as face_corners does (C02 contract, proved in specs/meshdata).
predicate('fprefix', 'first, rows', '''first[0] == 0 and all(first[f+1] == first[f] + len(rows[f]) for f in range(len(rows)))
    and all(all(first[a] <= first[b] for a in range(b + 1)) for b in range(len(rows) + 1))''')
predicate('hedge', 'rows, f, i', '(rows[f][i], rows[f][(i + 1) % len(rows[f])])')
predicate('he_entry', 'c, rows, first, f, i', '''hedge(rows, f, i) in c._half_edges
    and len(c._half_edges[hedge(rows, f, i)]) == 7
    and c._half_edges[hedge(rows, f, i)][0] == first[f] + i
    and c._half_edges[hedge(rows, f, i)][1] == first[f] + (i - 1) % len(rows[f])
    and c._half_edges[hedge(rows, f, i)][2] == first[f] + (i + 1) % len(rows[f])
    and c._half_edges[hedge(rows, f, i)][3] is None
    and c._half_edges[hedge(rows, f, i)][4] == f
    and c._half_edges[hedge(rows, f, i)][5] == i
    and c._half_edges[hedge(rows, f, i)][6] == (i + 1) % len(rows[f])''')
predicate('cn_entry', 'c, rows, first, f, i', '(first[f] + i) in c._Cn2he and c._Cn2he[first[f] + i] == hedge(rows, f, i)')

fn(S + '._compute_connectivity#half_edges', of=S + '._compute_connectivity', properties=['C01'],
   region=('self._half_edges = dict()', 'for iF, F in enumerate(self.mesh.faces)'),
   ghost_params={'first': 'map[int,int]', 'wf': 'map[tuple[int,int],int]', 'wi': 'map[tuple[int,int],int]', 'cf': 'map[int,int]', 'ci': 'map[int,int]'},
   lets={'rows': 'self.mesh.faces._data'},
   requires=['fprefix(first, self.mesh.faces._data)',
             'all(len(self.mesh.faces._data[f]) >= 3 for f in range(len(self.mesh.faces._data)))',
             'self._adjVF2Cn is not None',
             # corner numbering established by the dropped prefix
             'all(all((self.mesh.faces._data[f][i], f) in self._adjVF2Cn and self._adjVF2Cn[(self.mesh.faces._data[f][i], f)] == first[f] + i '
             '        for i in range(len(self.mesh.faces._data[f]))) for f in range(len(self.mesh.faces._data)))',
             # oriented manifold: a directed edge occurs in at most one (face, position), stated through the inverse maps wf, wi
             # (logical parameters): (f, i) is recovered from the directed edge
             'all(all(wf[hedge(self.mesh.faces._data, f, i)] == f and wi[hedge(self.mesh.faces._data, f, i)] == i '
             '        for i in range(len(self.mesh.faces._data[f]))) for f in range(len(self.mesh.faces._data)))',
             # the corner numbering first[f] + i is invertible (consequence of the monotone prefix sums; logical parameters cf, ci)
             'all(all(cf[first[f] + i] == f and ci[first[f] + i] == i for i in range(len(self.mesh.faces._data[f]))) for f in range(len(self.mesh.faces._data)))'],
   modifies=['self._half_edges', 'self._Cn2he'],
   loops={2: loop(invariant=['self._half_edges is not None and self._Cn2he is not None',
                             'all(all(he_entry(self, self.mesh.faces._data, first, f, i) for i in range(len(self.mesh.faces._data[f]))) for f in range(it2))',
                             'all(all(cn_entry(self, self.mesh.faces._data, first, f, i) for i in range(len(self.mesh.faces._data[f]))) for f in range(it2))']),
          3: loop(invariant=['self._half_edges is not None and self._Cn2he is not None', 'n == len(self.mesh.faces._data[it2])',
                             'all(all(he_entry(self, self.mesh.faces._data, first, f, i) for i in range(len(self.mesh.faces._data[f]))) for f in range(it2))',
                             'all(he_entry(self, self.mesh.faces._data, first, it2, i) for i in range(it3))',
                             'all(all(cn_entry(self, self.mesh.faces._data, first, f, i) for i in range(len(self.mesh.faces._data[f]))) for f in range(it2))',
                             'all(cn_entry(self, self.mesh.faces._data, first, it2, i) for i in range(it3))'])},
   ensures=['self._half_edges is not None and self._Cn2he is not None',
            # every directed edge (f, i) of the face list has its table entry: corner, previous, next, (opposite not linked yet), face, positions
            'all(all(he_entry(self, self.mesh.faces._data, first, f, i) for i in range(len(self.mesh.faces._data[f]))) for f in range(len(self.mesh.faces._data)))',
            'all(all(cn_entry(self, self.mesh.faces._data, first, f, i) for i in range(len(self.mesh.faces._data[f]))) for f in range(len(self.mesh.faces._data)))'])
