"""Contracts for mouette/processing/parametrization/tutte.py (property C17): the border parametrisation."""
from pyvc.spec import *

T = 'mouette.processing.parametrization.tutte.TutteEmbedding'
klass('TutteMesh', fields={'boundary_vertices': 'list[int]'})
klass(T, fields={'mesh': 'TutteMesh'})

# BoundaryMode members in declaration order: CIRCLE=0, SQUARE=1, CUSTOM=2
fn(T + '._initialize_boundary', properties=['C17'], params={'boundary_mode': 'int'}, cases=[{'boundary_mode': 1}],
   returns='tuple[list[real],list[real]]',
   requires=['len(self.mesh.boundary_vertices) >= 4'],
   locals={'U': 'list[real]', 'V': 'list[real]'},
   lets={'n': 'len(self.mesh.boundary_vertices)', 'q1': 'len(self.mesh.boundary_vertices)//4', 'q2': 'len(self.mesh.boundary_vertices)//2',
         'q3': '(3*len(self.mesh.boundary_vertices))//4'},
   # loop 0 is the circle branch; loops 1..4 fill the four sides of the square
   loops={k: loop(invariant=['len(U) == n and len(V) == n',
                             'U[0] == 0 and V[0] == 0 and U[q1] == 1 and V[q1] == 0 and U[q2] == 1 and V[q2] == 1 and U[q3] == 0 and V[q3] == 1',
                             'all(V[j] == 0 and U[j]*n == 4*j for j in range(1, (q1 if %d > 1 else it1 + 1)))' % k,
                             'all(U[j] == 1 and V[j]*n == 4*(j - q1) for j in range(q1 + 1, (q2 if %d > 2 else (q1 + 1 + it2 if %d == 2 else q1 + 1))))' % (k, k),
                             'all(V[j] == 1 and U[j]*n == n - 4*(j - q2) for j in range(q2 + 1, (q3 if %d > 3 else (q2 + 1 + it3 if %d == 3 else q2 + 1))))' % (k, k),
                             'all(U[j] == 0 and V[j]*n == n - 4*(j - q3) for j in range(q3 + 1, (q3 + 1 + it4 if %d == 4 else q3 + 1)))' % k,
                             'all(U[j] == 0 and V[j] == 0 for j in range(%s, n) if j != q1 and j != q2 and j != q3)' % [None, 'it1 + 1', 'q1 + 1 + it2', 'q2 + 1 + it3', 'q3 + 1 + it4'][k],
                             ]) for k in range(1, 5)},
   ensures=['len(result[0]) == n and len(result[1]) == n',
            # the four corners at the documented indices
            'result[0][0] == 0 and result[1][0] == 0 and result[0][q1] == 1 and result[1][q1] == 0',
            'result[0][q2] == 1 and result[1][q2] == 1 and result[0][q3] == 0 and result[1][q3] == 1',
            # each side strictly between its corners, strictly monotone along the border order => pairwise distinct positions on the square's perimeter
            'all(result[1][j] == 0 and 0 < result[0][j] and result[0][j] < 1 for j in range(1, q1))',
            'all(result[0][j] < result[0][j+1] for j in range(0, q1))',
            'all(result[0][j] == 1 and 0 < result[1][j] and result[1][j] < 1 for j in range(q1 + 1, q2))',
            'all(result[1][j] < result[1][j+1] for j in range(q1, q2))',
            'all(result[1][j] == 1 and 0 < result[0][j] and result[0][j] < 1 for j in range(q2 + 1, q3))',
            'all(result[0][j] > result[0][j+1] for j in range(q2, q3))',
            'all(result[0][j] == 0 and 0 < result[1][j] and result[1][j] < 1 for j in range(q3 + 1, n))',
            'all(result[1][j] > result[1][j+1] for j in range(q3, n - 1))',
            ])

# circle target: every border vertex is placed on the unit circle (A10: rect(1, phi) = (cos phi, sin phi), sin^2 + cos^2 = 1).
# Distinctness of the positions (strict monotonicity of the angle 2 pi i / n on [0, 2 pi)) is a fact about cos/sin that the
# assumed trigonometry (A10) does not contain: bounded stand-in.
fn(T + '._initialize_boundary#circle', of=T + '._initialize_boundary', properties=['C17'], params={'boundary_mode': 'int'}, cases=[{'boundary_mode': 0}],
   returns='tuple[list[real],list[real]]',
   requires=['len(self.mesh.boundary_vertices) >= 3'],
   locals={'U': 'list[real]', 'V': 'list[real]'},
   lets={'n': 'len(self.mesh.boundary_vertices)'},
   loops={0: loop(invariant=['len(U) == n and len(V) == n', 'all(U[j]*U[j] + V[j]*V[j] == 1 for j in range(it0))'])},
   ensures=['len(result[0]) == n and len(result[1]) == n',
            'all(result[0][j]*result[0][j] + result[1][j]*result[1][j] == 1 for j in range(n))'])
