"""Contracts for mouette/utils/priority_queue.py (property C20, used by C09/C11/C16).

Abstract model: the multiset `bag(self.data)` of pending (item, priority) records.
heapq is external (assumed contract A8 in pyvc/externals.py); the order it uses is the *real*
PriorityItem.__lt__, inlined from the source on every run."""
from pyvc.spec import *
import specs.unionfind      # sort Elt

PQ = 'mouette.utils.priority_queue.PriorityQueue'
klass('mouette.utils.priority_queue.PriorityItem', fields={'x': 'Elt', 'priority': 'real'}, value=True)
klass(PQ, fields={'data': 'list[PriorityItem]'})

ufunc('is_heap', ['list[PriorityItem]'], 'bool')
ufunc('bag', ['list[PriorityItem]'], 'map[PriorityItem,int]')

# mathematical facts about the multiset of a list (definition of `bag`), trusted base "B1/B2"
axiom('bag-nonneg', 'bag(l)[v] >= 0', vars={'l': 'list[PriorityItem]', 'v': 'PriorityItem'})
axiom('bag-member', '(bag(l)[v] > 0) == any(l[i] == v for i in range(len(l)))', vars={'l': 'list[PriorityItem]', 'v': 'PriorityItem'})
axiom('heap-empty', 'implies(len(l) == 0, is_heap(l))', vars={'l': 'list[PriorityItem]'})

predicate('pq_ok', 'q', 'is_heap(q.data)')

fn('mouette.utils.priority_queue.PriorityItem.__lt__', properties=['C20'], inline=True)

fn(PQ + '.__init__', properties=['C20'], modifies=['self.*'],
   ensures=['pq_ok(self)', 'all(bag(self.data)[v] == 0 for v in PriorityItem)', 'len(self.data) == 0'])

fn(PQ + '.empty', properties=['C20'], returns='bool', requires=['pq_ok(self)'],
   ensures=['result == all(bag(self.data)[v] == 0 for v in PriorityItem)', 'result == (len(self.data) == 0)'])

fn(PQ + '.push', properties=['C20'], params={'x': 'Elt', 'w': 'real'}, requires=['pq_ok(self)'],
   modifies=['self.data'],
   ensures=['pq_ok(self)', 'len(self.data) == old(len(self.data)) + 1',
            # exactly one more pending copy of (x, w), nothing else changes
            'all(bag(self.data)[v] == old(bag(self.data)[v]) + (1 if (v.x == x and v.priority == w) else 0) for v in PriorityItem)'])

fn(PQ + '.get', properties=['C20'], returns='PriorityItem', requires=['pq_ok(self)'],
   raises={'IndexError': 'len(self.data) == 0'},
   modifies=['self.data'],
   ensures=['pq_ok(self)', 'len(self.data) == old(len(self.data)) - 1',
            'old(bag(self.data)[result]) > 0',                                           # a pending item
            'all(implies(old(bag(self.data)[v]) > 0, not (v.priority < result.priority)) for v in PriorityItem)',   # of minimum priority
            'all(bag(self.data)[v] == old(bag(self.data)[v]) - (1 if v == result else 0) for v in PriorityItem)'])   # handed out once

fn(PQ + '.pop', properties=['C20'], returns='PriorityItem', requires=['pq_ok(self)'],
   raises={'IndexError': 'len(self.data) == 0'},
   modifies=['self.data'],
   ensures=['pq_ok(self)', 'len(self.data) == old(len(self.data)) - 1',
            'old(bag(self.data)[result]) > 0',
            'all(implies(old(bag(self.data)[v]) > 0, not (v.priority < result.priority)) for v in PriorityItem)',
            'all(bag(self.data)[v] == old(bag(self.data)[v]) - (1 if v == result else 0) for v in PriorityItem)'])

fn(PQ + '.front', properties=['C20'], returns='PriorityItem', requires=['pq_ok(self)', 'len(self.data) > 0'],
   ensures=['result == self.data[0]'])
