"""Spec-level model of the mesh containers used by generators and algorithms.

DataContainer is generic in the repository; the contracts type it per use (vertices / rows of indices).
Its small methods (__getitem__, __len__, __iter__, append, +=) are *inlined from the real source*; the
attribute table `_attr` is modelled as an empty dict of attribute records for freshly built raw data
(generators create no attribute unless asked) -- alignment of attributes is property C05's business."""
from pyvc.spec import *

DC = 'mouette.mesh.data_container.DataContainer'
klass('AttrRec', fields={'n': 'int'}, value=True)
klass('VContainer', real=DC, fields={'_data': 'list[Vec3]', '_attr': 'dict[str,AttrRec]', 'id': 'str'})
klass('RContainer', real=DC, fields={'_data': 'list[list[int]]', '_attr': 'dict[str,AttrRec]', 'id': 'str'})
klass('CornerContainer', real='mouette.mesh.data_container.CornerDataContainer',
      fields={'_elem': 'list[int]', '_adj': 'list[int]', '_attr': 'dict[str,AttrRec]', 'id': 'str'})

RMD = 'mouette.mesh.mesh_data.RawMeshData'
klass(RMD, fields={'vertices': 'VContainer', 'edges': 'RContainer', 'faces': 'RContainer', 'cells': 'RContainer',
                   'face_corners': 'CornerContainer', 'cell_corners': 'CornerContainer', 'cell_faces': 'CornerContainer',
                   '_dimensionality': 'opt[int]', '_prepared': 'bool'})

predicate('empty_raw', 'm', '''len(m.vertices._data) == 0 and len(m.edges._data) == 0 and len(m.faces._data) == 0 and len(m.cells._data) == 0
    and len(m.vertices._attr) == 0 and len(m.faces._attr) == 0 and len(m.edges._attr) == 0 and len(m.cells._attr) == 0''')

# trusted here (constructor with no argument builds seven empty containers); stated from mesh_data.py:6-16
fn(RMD + '.__init__', params={'mesh': 'none'}, trusted=True, modifies=['self.*'],
   ensures=['empty_raw(self)'], note='RawMeshData() with no argument: all containers empty')

# A built mesh, as far as generators are concerned: same vertices and faces as the raw data it was built
# from (prepare() completes edges/corners and normalises, contract of C02); `raw` is a ghost link.
klass('BuiltMesh', fields={'vertices': 'VContainer', 'faces': 'RContainer', 'edges': 'RContainer', 'cells': 'RContainer'})
fn('mouette.mesh.mesh._instanciate_raw_mesh_data', params={'mesh_data': 'RawMeshData', 'dim': 'opt[int]'}, returns='BuiltMesh', trusted=True,
   ensures=['len(result.vertices._data) == len(mesh_data.vertices._data)',
            'all(result.vertices._data[i] == mesh_data.vertices._data[i] for i in range(len(mesh_data.vertices._data)))',
            'len(result.faces._data) == len(mesh_data.faces._data)',
            'all(result.faces._data[i] == mesh_data.faces._data[i] for i in range(len(mesh_data.faces._data)))'],
   note='C02 contract of prepare(): vertices and declared faces are kept in order (no cells here)')

BUILT = ['len(result.vertices._data) == len(data.vertices._data)',
         'all(result.vertices._data[i] == data.vertices._data[i] for i in range(len(data.vertices._data)))',
         'len(result.faces._data) == len(data.faces._data)',
         'all(result.faces._data[i] == data.faces._data[i] for i in range(len(data.faces._data)))']
for cls in ('mouette.mesh.datatypes.surface.SurfaceMesh', 'mouette.mesh.datatypes.linear.PolyLine', 'mouette.mesh.datatypes.pointcloud.PointCloud'):
    fn(cls, params={'data': 'RawMeshData'}, returns='BuiltMesh', trusted=True, ensures=BUILT,
       note='constructor from raw data: prepare() keeps vertices and declared faces in order (C02 contract)')
