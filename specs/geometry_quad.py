"""quad_area (property C07): the mean of the two diagonal splittings.
`tri_sq(A,B,C)` = |(B-A) x (C-A)|^2 is a *defined* spec function (uninterpreted symbol + its defining equation): triangle_area is
re-verified against `result >= 0 and 4 result^2 == tri_sq(A,B,C)` with the definition available, and quad_area is checked
against that contract only.  The four triangle areas are logical parameters t1..t4 constrained by the same defining property
(non-negative, 4 t^2 == tri_sq), so no axiom about areas is needed: the property determines each term uniquely."""
from pyvc.spec import *
import specs.geometry
G = 'mouette.geometry.geometry.'
define('tri_sq', 'A, B, C', ['Vec3', 'Vec3', 'Vec3'], 'real', 'sq3(B - A)*sq3(C - A) - dot3(B - A, C - A)*dot3(B - A, C - A)')
fn(G + 'triangle_area', properties=['C07'], params={'A': 'Vec3', 'B': 'Vec3', 'C': 'Vec3'}, returns='real',
   ensures=['result >= 0', '4*result*result == tri_sq(A, B, C)'])
fn(G + 'quad_area', properties=['C07'], params={'A': 'Vec3', 'B': 'Vec3', 'C': 'Vec3', 'D': 'Vec3'}, returns='real',
   ghost_params={'t1': 'real', 't2': 'real', 't3': 'real', 't4': 'real'},
   requires=['t1 >= 0 and 4*t1*t1 == tri_sq(A, B, C)', 't2 >= 0 and 4*t2*t2 == tri_sq(A, C, D)',
             't3 >= 0 and 4*t3*t3 == tri_sq(B, C, D)', 't4 >= 0 and 4*t4*t4 == tri_sq(B, D, A)'],
   # half the sum of the four triangles cut by the two diagonals: the area of every planar convex quad, whatever the starting vertex
   ensures=['2*result == t1 + t2 + t3 + t4'])
