"""Contracts for mouette/geometry/geometry.py and vector.py (properties C07 / C12).
Oracle = the textbook definitions written over the real field (A2)."""
from pyvc.spec import *

G = 'mouette.geometry.geometry.'
V = 'mouette.geometry.vector.Vec.'

predicate('dot3', 'a, b', 'a[0]*b[0] + a[1]*b[1] + a[2]*b[2]')
predicate('sq3', 'a', 'a[0]*a[0] + a[1]*a[1] + a[2]*a[2]')

fn(V + 'norm', inline=True)
fn(V + 'dot', inline=True)
fn(V + 'x', inline=True)
fn(V + 'y', inline=True)
fn(V + 'z', inline=True)

fn(G + 'sign0', properties=['C12'], params={'x': 'real'}, returns='int', ensures=['result == (1 if x >= 0 else -1)'])
fn(G + 'sign', properties=['C12'], params={'x': 'real'}, returns='int', ensures=['result == (1 if x > 0 else (-1 if x < 0 else 0))'])

fn(G + 'dot', properties=['C07', 'C12'], params={'A': 'Vec3', 'B': 'Vec3'}, returns='real', call_inline=True,
   ensures=['result == dot3(A, B)'])

fn(G + 'cross', properties=['C07', 'C12'], params={'A': 'Vec3', 'B': 'Vec3'}, returns='Vec3',
   ensures=['result[0] == A[1]*B[2] - A[2]*B[1]', 'result[1] == A[2]*B[0] - A[0]*B[2]', 'result[2] == A[0]*B[1] - A[1]*B[0]',
            # orthogonality and Lagrange identity follow from the exact components (checked as lemmas of the spec)
            'dot3(result, A) == 0', 'dot3(result, B) == 0',
            'sq3(result) == sq3(A)*sq3(B) - dot3(A,B)*dot3(A,B)'])

fn(G + 'det_2x2', properties=['C07', 'C12'], params={'A': 'Vec2', 'B': 'Vec2'}, returns='real', call_inline=True,
   ensures=['result == A[0]*B[1] - A[1]*B[0]'])

fn(G + 'triangle_area', properties=['C07'], params={'A': 'Vec3', 'B': 'Vec3', 'C': 'Vec3'}, returns='real',
   lets={'u': 'B - A', 'v': 'C - A'},
   ensures=['result >= 0',
            # area^2 * 4 == |(B-A) x (C-A)|^2
            '4*result*result == sq3(u)*sq3(v) - dot3(u,v)*dot3(u,v)'])

fn(G + 'triangle_area_2D', properties=['C07'], params={'A': 'Vec2', 'B': 'Vec2', 'C': 'Vec2'}, returns='real',
   ensures=['result >= 0', '2*result == abs((B[0]-A[0])*(C[1]-A[1]) - (B[1]-A[1])*(C[0]-A[0]))'])

predicate('sq2', 'a', 'a[0]*a[0] + a[1]*a[1]')
predicate('dist2', 'a, b', '(a[0]-b[0])*(a[0]-b[0]) + (a[1]-b[1])*(a[1]-b[1]) + (a[2]-b[2])*(a[2]-b[2])')
predicate('absr', 'x', '(x if x >= 0 else -x)')

fn('mouette.utils.argument_check.check_argument', inline=True)
fn(V + 'normalized', properties=['C12', 'C07'], params={'vec': 'Vec3', 'which': 'str'}, returns='Vec3', call_inline=True,
   requires=['which == "l2"', 'sq3(vec) > 0'],
   ensures=['sq3(result) == 1', 'result[0]*vec[1] == result[1]*vec[0]', 'result[0]*vec[2] == result[2]*vec[0]', 'dot3(result, vec) > 0',
            # numpy's floating-point error configuration is left as it was found
            'np_errstate == old(np_errstate)'],
   on_raise=['np_errstate == old(np_errstate)'])

fn(G + 'norm', properties=['C07', 'C12'], params={'x': 'Vec3', 'which': 'str'}, call_inline=True,
   requires=['which == "l2" or which == "l1" or which == "linf"'], returns='real',
   ensures=['implies(which == "l2", result >= 0 and result*result == sq3(x))',
            'implies(which == "l1", result == absr(x[0]) + absr(x[1]) + absr(x[2]))',
            'implies(which == "linf", result >= absr(x[0]) and result >= absr(x[1]) and result >= absr(x[2]) '
            '   and (result == absr(x[0]) or result == absr(x[1]) or result == absr(x[2])))'])

fn(G + 'distance', properties=['C07', 'C12'], params={'A': 'Vec3', 'B': 'Vec3', 'which': 'str'}, call_inline=True,
   requires=['which == "l2"'], returns='real',
   ensures=['result >= 0', 'result*result == dist2(A, B)'])

fn(G + 'det_3x3', properties=['C07', 'C12'], params={'args': 'any'}, note='*args signature: verified through its callers (inlined)', inline=True)

fn(G + 'angle_3pts', properties=['C07', 'C12'], params={'A': 'Vec3', 'B': 'Vec3', 'C': 'Vec3'}, returns='real',
   ensures=['0 <= result', 'result <= pi'])

fn(G + 'angle_2vec3D', properties=['C12'], params={'V1': 'Vec3', 'V2': 'Vec3'}, returns='real',
   ensures=['0 <= result', 'result <= pi'])

fn(G + 'signed_angle_2vec3D', properties=['C12'], params={'V1': 'Vec3', 'V2': 'Vec3', 'N': 'Vec3'}, returns='real',
   ensures=['-pi <= result', 'result <= pi'])

fn(G + 'intersect_2lines2D', properties=['C12'], params={'p1': 'Vec2', 'd1': 'Vec2', 'p2': 'Vec2', 'd2': 'Vec2'}, returns='opt[Vec2]',
   lets={'det': 'd1[0]*d2[1] - d1[1]*d2[0]'},
   ensures=['(result is None) == (det*det <= sq2(d1)*sq2(d2)/1000000000000000000000000)',     # |det| <= 1e-12 |d1| |d2| (relative parallelism test)
            # the returned point lies on both lines
            'implies(result is not None, (result[0]-p1[0])*d1[1] - (result[1]-p1[1])*d1[0] == 0)',
            'implies(result is not None, (result[0]-p2[0])*d2[1] - (result[1]-p2[1])*d2[0] == 0)'])

fn(G + 'project_to_plane', properties=['C07'], params={'P': 'Vec3', 'N': 'Vec3', 'orig': 'Vec3'}, returns='Vec3',
   requires=['sq3(N) > 0'],
   ensures=['dot3(result - orig, N) == 0',
            # moved along N only
            '(result[0]-P[0])*N[1] == (result[1]-P[1])*N[0]', '(result[0]-P[0])*N[2] == (result[2]-P[2])*N[0]',
            '(result[1]-P[1])*N[2] == (result[2]-P[2])*N[1]'])

predicate('cross3', 'a, b', '(a[1]*b[2] - a[2]*b[1], a[2]*b[0] - a[0]*b[2], a[0]*b[1] - a[1]*b[0])')

fn(G + 'face_basis', properties=['C07'], params={'f': 'any'}, inline=True, note='*f signature; verified through callers')


# circumcenter / cotan: generated VCs are degree-6+ polynomial identities through three normalisations
# (sqrt terms); z3's nlsat does not decide them within the budget -> bounded stand-in (native), see props/C07.py
