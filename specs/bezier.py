"""Contracts for mouette/splines/bezier.py (property C19, Bezier clauses)."""
from pyvc.spec import *
import specs.geometry, specs.mesh_model, specs.procedural

B = 'mouette.splines.bezier.'

# convex hull = intersection of the half-spaces {x : ha.x <= hb} containing all control points.
# (ha, hb) are logical parameters: the contract holds for every half-space, hence for the hull.
fn(B + 'de_casteljau', properties=['C19'],
   params={'P': 'list[Vec3]', 't': 'real'}, returns='Vec3',
   ghost_params={'ha': 'Vec3', 'hb': 'real'},
   requires=['len(P) >= 1', 'all(dot3(ha, P[k]) <= hb for k in range(len(P)))'],
   raises={'InvalidRangeArgumentError': 'not (0 <= t and t <= 1)'},
   locals={'coeffs': 'list[Vec3]'},
   loops={0: loop(invariant=['len(coeffs) == len(P)', 'order == len(P) - 1', '0 <= t and t <= 1',
                             'all(dot3(ha, coeffs[i]) <= hb for i in range(len(P)))',
                             # after j rounds: t == 0 keeps the left end, t == 1 shifts by j
                             'implies(t == 0, all(coeffs[i] == P[i] for i in range(len(P) - it0)))',
                             'implies(t == 1, all(coeffs[i] == P[i + it0] for i in range(len(P) - it0)))']),
          1: loop(invariant=['len(coeffs) == len(P)', 'order == len(P) - 1', '0 <= t and t <= 1', '0 <= it0 and it0 < order',
                             'all(dot3(ha, coeffs[i]) <= hb for i in range(len(P)))',
                             'implies(t == 0, all(coeffs[i] == P[i] for i in range(len(P) - it0)))',
                             'implies(t == 1, all(coeffs[i] == P[i + it0 + 1] for i in range(it1)))',
                             'implies(t == 1, all(coeffs[i] == P[i + it0] for i in range(it1, len(P) - it0)))'])},
   modifies=[],
   ensures=['dot3(ha, result) <= hb',                       # stays in the convex hull of the control points
            'implies(t == 0, result == P[0])', 'implies(t == 1, result == P[len(P) - 1])',     # interpolates the end control points
            ])

# ---- tensor-product patch: a row of curve evaluations, then one curve evaluation across the rows
BP = B + 'BezierPatch'
klass(BP, fields={'pts': 'list[list[Vec3]]'})
predicate('net_ok', 'p', 'len(p.pts) >= 1 and all(len(p.pts[i]) >= 1 for i in range(len(p.pts)))')
predicate('net_in', 'p, ha, hb', 'all(all(dot3(ha, p.pts[i][k]) <= hb for k in range(len(p.pts[i]))) for i in range(len(p.pts)))')
fn(BP + '._evaluate_row', properties=['C19'], params={'u': 'real'}, returns='list[Vec3]',
   ghost_params={'ha': 'Vec3', 'hb': 'real'},
   requires=['net_ok(self)', 'net_in(self, ha, hb)'],
   raises={'InvalidRangeArgumentError': 'not (0 <= u and u <= 1)'},
   locals={'acc_c0': 'list[Vec3]'},
   modifies=[],
   loops={'c0': loop(invariant=['len(acc_c0) == it_c0', 'implies(it_c0 > 0, 0 <= u and u <= 1)',
                                'all(dot3(ha, acc_c0[i]) <= hb for i in range(it_c0))',
                                'implies(u == 0, all(acc_c0[i] == self.pts[i][0] for i in range(it_c0)))',
                                'implies(u == 1, all(acc_c0[i] == self.pts[i][len(self.pts[i]) - 1] for i in range(it_c0)))'])},
   # one point per ROW of the control net (whatever the number of columns), each in the hull, end columns interpolated
   ensures=['len(result) == len(self.pts)',
            'all(dot3(ha, result[i]) <= hb for i in range(len(self.pts)))',
            'implies(u == 0, all(result[i] == self.pts[i][0] for i in range(len(self.pts))))',
            'implies(u == 1, all(result[i] == self.pts[i][len(self.pts[i]) - 1] for i in range(len(self.pts))))'])

fn(BP + '.evaluate', properties=['C19'], params={'u': 'real', 'v': 'real'}, returns='Vec3',
   ghost_params={'ha': 'Vec3', 'hb': 'real'},
   requires=['net_ok(self)', 'net_in(self, ha, hb)'],
   raises={'InvalidRangeArgumentError': 'not (0 <= u and u <= 1 and 0 <= v and v <= 1)'},
   modifies=[],
   ensures=['dot3(ha, result) <= hb',         # in the convex hull of the control net
            # the four corners of the net are interpolated
            'implies(u == 0 and v == 0, result == self.pts[0][0])',
            'implies(u == 1 and v == 0, result == self.pts[0][len(self.pts[0]) - 1])',
            'implies(u == 0 and v == 1, result == self.pts[len(self.pts) - 1][0])',
            'implies(u == 1 and v == 1, result == self.pts[len(self.pts) - 1][len(self.pts[len(self.pts) - 1]) - 1])'])
