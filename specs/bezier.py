"""Contracts for mouette/splines/bezier.py (property C19, Bezier clauses)."""
from pyvc.spec import *
import specs.geometry, specs.mesh_model, specs.procedural

B = 'mouette.splines.bezier.'

# convex hull = intersection of the half-spaces {x : ha.x <= hb} containing all control points.
# (ha, hb) are logical parameters: the contract holds for every half-space, hence for the hull.
fn(B + 'de_casteljau', properties=['C19'],
   params={'P': 'list[Vec3]', 't': 'real'}, returns='Vec3',
   ghost_params={'ha': 'Vec3', 'hb': 'real'},
   requires=['len(P) >= 1', 'all(dot3(ha, P[k]) <= hb for k in range(len(P)))'],
   raises={'InvalidRangeArgumentError': 'not (0 <= t and t <= 1)'},
   locals={'coeffs': 'list[Vec3]'},
   loops={0: loop(invariant=['len(coeffs) == len(P)', 'order == len(P) - 1', '0 <= t and t <= 1',
                             'all(dot3(ha, coeffs[i]) <= hb for i in range(len(P)))',
                             # after j rounds: t == 0 keeps the left end, t == 1 shifts by j
                             'implies(t == 0, all(coeffs[i] == P[i] for i in range(len(P) - it0)))',
                             'implies(t == 1, all(coeffs[i] == P[i + it0] for i in range(len(P) - it0)))']),
          1: loop(invariant=['len(coeffs) == len(P)', 'order == len(P) - 1', '0 <= t and t <= 1', '0 <= it0 and it0 < order',
                             'all(dot3(ha, coeffs[i]) <= hb for i in range(len(P)))',
                             'implies(t == 0, all(coeffs[i] == P[i] for i in range(len(P) - it0)))',
                             'implies(t == 1, all(coeffs[i] == P[i + it0 + 1] for i in range(it1)))',
                             'implies(t == 1, all(coeffs[i] == P[i + it0] for i in range(it1, len(P) - it0)))'])},
   modifies=[],
   ensures=['dot3(ha, result) <= hb',                       # stays in the convex hull of the control points
            'implies(t == 0, result == P[0])', 'implies(t == 1, result == P[len(P) - 1])',     # interpolates the end control points
            ])
