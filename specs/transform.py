"""Contracts for mouette/geometry/transform.py (property C06, clause d: every vertex moved exactly once by exactly the requested map).
Value-level: array identity / aliasing between meshes is the business of the ownership check, not of these contracts."""
from pyvc.spec import *
import specs.geometry, specs.mesh_model

klass('TrMesh', real='mouette.mesh.datatypes.surface.SurfaceMesh', fields={'vertices': 'VContainer'})
TR = 'mouette.geometry.transform.'
fn('mouette.mesh.datatypes.surface.SurfaceMesh.id_vertices', inline=True)

fn(TR + 'translate', properties=['C06'], params={'mesh': 'TrMesh', 'tr': 'Vec3'}, returns='TrMesh',
   requires=['len(mesh.vertices._attr) == 0'],
   modifies=['mesh.vertices._data'],
   loops={0: loop(invariant=['len(mesh.vertices._data) == old(len(mesh.vertices._data))',
                             'all(mesh.vertices._data[j] == old(mesh.vertices._data[j]) + tr for j in range(it0))',
                             'all(mesh.vertices._data[j] == old(mesh.vertices._data[j]) for j in range(it0, len(mesh.vertices._data)))'])},
   ensures=['len(mesh.vertices._data) == old(len(mesh.vertices._data))',
            # every vertex moved exactly once by exactly the requested vector
            'all(mesh.vertices._data[j] == old(mesh.vertices._data[j]) + tr for j in range(len(mesh.vertices._data)))'])

fn(TR + 'scale', properties=['C06'], params={'mesh': 'TrMesh', 'factor': 'real', 'orig': 'Vec3'}, returns='TrMesh',
   modifies=['mesh.vertices._data'],
   loops={0: loop(invariant=['len(mesh.vertices._data) == old(len(mesh.vertices._data))',
                             'all(mesh.vertices._data[j] == orig + factor*(old(mesh.vertices._data[j]) - orig) for j in range(it0))',
                             'all(mesh.vertices._data[j] == old(mesh.vertices._data[j]) for j in range(it0, len(mesh.vertices._data)))'])},
   ensures=['len(mesh.vertices._data) == old(len(mesh.vertices._data))',
            'all(mesh.vertices._data[j] == orig + factor*(old(mesh.vertices._data[j]) - orig) for j in range(len(mesh.vertices._data)))'])

fn(TR + 'scale_xyz', properties=['C06'], params={'mesh': 'TrMesh', 'fx': 'real', 'fy': 'real', 'fz': 'real', 'orig': 'Vec3'}, returns='TrMesh',
   modifies=['mesh.vertices._data'],
   loops={0: loop(invariant=['len(mesh.vertices._data) == old(len(mesh.vertices._data))',
                             'all(mesh.vertices._data[j][0] == orig[0] + fx*(old(mesh.vertices._data[j])[0] - orig[0]) '
                             '    and mesh.vertices._data[j][1] == orig[1] + fy*(old(mesh.vertices._data[j])[1] - orig[1]) '
                             '    and mesh.vertices._data[j][2] == orig[2] + fz*(old(mesh.vertices._data[j])[2] - orig[2]) for j in range(it0))',
                             'all(mesh.vertices._data[j] == old(mesh.vertices._data[j]) for j in range(it0, len(mesh.vertices._data)))'])},
   ensures=['all(mesh.vertices._data[j][0] == orig[0] + fx*(old(mesh.vertices._data[j])[0] - orig[0]) '
            '    and mesh.vertices._data[j][1] == orig[1] + fy*(old(mesh.vertices._data[j])[1] - orig[1]) '
            '    and mesh.vertices._data[j][2] == orig[2] + fz*(old(mesh.vertices._data[j])[2] - orig[2]) for j in range(len(mesh.vertices._data)))'])
