"""Contracts for mouette/mesh/datatypes/volume.py (property C03) -- the cell-to-cell table of a tetrahedral mesh.

_compute_adjacent_cell is verified against the contracts of the two lookups it is built from (face_id: the face spanned by three
vertices, face_to_cells: the cells incident to a face -- named by uninterpreted functions, their own tables being dicts of lists
built in nested loops over keyify keys, decided by the bounded stand-in).  What is proved, for every mesh: entry (c, i) of the table is
looked up through the face that does NOT contain the i-th vertex of cell c (faces (v1,v3,v2), (v0,v2,v3), (v3,v1,v0), (v0,v1,v2): "the i-th
face of a cell is the one opposite its i-th vertex"), it holds the other cell incident to that face when there is one, and no entry
exists (NOT_AN_ID default) when the face has no other cell.  The sparse attribute is modelled as the dict of its written entries (A-attr)."""
from pyvc.spec import *
import specs.mesh_model

ufunc('fid', ['int', 'int', 'int'], 'int')        # face_id of three vertices (C01/C02 contract: symmetric in its arguments)
ufunc('f2c_len', ['int'], 'int')                  # face_to_cells(F): number of incident cells ...
ufunc('f2c_at', ['int', 'int'], 'int')            # ... and the j-th of them
ufunc('other_cell', ['int', 'int'], 'int')        # conforming mesh: the cell across face F from cell c (when there is one)

VC = 'mouette.mesh.datatypes.volume.VolumeMesh._Connectivity'
klass('CFContainer', real='mouette.mesh.data_container.CornerDataContainer', fields={'has_adj': 'bool'})
klass('VMesh', real='mouette.mesh.datatypes.volume.VolumeMesh', fields={'cells': 'RContainer', 'cell_faces': 'CFContainer'})
klass(VC, fields={'mesh': 'VMesh', '_adjC2C': 'opt[dict[tuple[int,int],int]]'})
fn('mouette.mesh.data_container._BaseDataContainer.has_attribute', params={'self': 'CFContainer', 'name': 'str'}, returns='bool', trusted=True,
   requires=['name == "adjacent_cell"'], ensures=['result == self.has_adj'], note='A-attr: attribute table lookup')
fn('mouette.mesh.data_container._BaseDataContainer.create_attribute',
   params={'self': 'CFContainer', 'name': 'str', 'data_type': 'any', 'elem_size': 'int', 'dense': 'bool', 'default_value': 'any', 'size': 'any'},
   returns='dict[tuple[int,int],int]', trusted=True,
   requires=['name == "adjacent_cell"', 'not self.has_adj'], ensures=['len(result) == 0'],
   note='A-attr: a fresh sparse attribute has no written entry (reads give the default NOT_AN_ID)')
fn('mouette.mesh.datatypes.surface.SurfaceMesh._Connectivity.face_id', params={'self': '_Connectivity', 'args': 'tuple[int,int,int]'}, returns='int', trusted=True,
   ensures=['result == fid(args[0], args[1], args[2])'], note='C01: identifier of the face spanned by three vertices (conforming mesh: the face exists)')
fn(VC + '.face_to_cells', params={'iF': 'int'}, returns='list[int]', trusted=True,
   ensures=['len(result) == f2c_len(iF)', 'all(result[j] == f2c_at(iF, j) for j in range(f2c_len(iF)))'],
   note='C03 (bounded): the cells incident to a face')

# the face opposite the i-th vertex of a tetrahedron (v0, v1, v2, v3), in the library's vertex order
predicate('opp_face', 'cell, i', '''(fid(cell[1], cell[3], cell[2]) if i == 0 else (fid(cell[0], cell[2], cell[3]) if i == 1
                                   else (fid(cell[3], cell[1], cell[0]) if i == 2 else fid(cell[0], cell[1], cell[2]))))''')
# entry (c, i) is right: the other cell across the opposite face if there is one, no entry otherwise
predicate('c2c_ok', 'adj, cells, c, i', '''implies(any(f2c_at(opp_face(cells[c], i), j) != c for j in range(f2c_len(opp_face(cells[c], i)))), ((c, i) in adj) and adj[(c, i)] == other_cell(opp_face(cells[c], i), c))
    and implies(all(f2c_at(opp_face(cells[c], i), j) == c for j in range(f2c_len(opp_face(cells[c], i)))), (c, i) not in adj)''')

fn(VC + '._compute_adjacent_cell', properties=['C03'],
   requires=['not self.mesh.cell_faces.has_adj',
             'all(len(self.mesh.cells._data[c]) == 4 for c in range(len(self.mesh.cells._data)))',
             # conforming mesh: a face has at most one cell other than a given one
             'all(all(f2c_at(F, j) == c or f2c_at(F, j) == other_cell(F, c) for j in range(f2c_len(F))) for F in Int for c in Int)'],
   modifies=['self._adjC2C'],
   loops={0: loop(invariant=['self._adjC2C is not None',
                             'all(all(c2c_ok(self._adjC2C, self.mesh.cells._data, c, i) for i in range(4)) for c in range(it0))',
                             'all(implies(k in self._adjC2C, 0 <= k[0] and k[0] < it0 and 0 <= k[1] and k[1] < 4) for k in self._adjC2C)']),
          2: loop(invariant=['self._adjC2C is not None', 'iC == it0', '0 <= iF and iF < 4', 'F == opp_face(self.mesh.cells._data[iC], iF)',
                             'len(cell) == 4 and all(cell[q] == self.mesh.cells._data[iC][q] for q in range(4))',
                             'all(all(c2c_ok(self._adjC2C, self.mesh.cells._data, c, i) for i in range(4)) for c in range(it0))',
                             'all(c2c_ok(self._adjC2C, self.mesh.cells._data, iC, i) for i in range(iF))',
                             'implies(any(f2c_at(F, j) != iC for j in range(it2)), ((iC, iF) in self._adjC2C) and self._adjC2C[(iC, iF)] == other_cell(F, iC))',
                             'implies(all(f2c_at(F, j) == iC for j in range(it2)), (iC, iF) not in self._adjC2C)',
                             'all(implies(k in self._adjC2C, 0 <= k[0] and k[0] <= it0 and 0 <= k[1] and k[1] < 4 and implies(k[0] == it0, k[1] <= iF)) for k in self._adjC2C)'])},
   ensures=['self._adjC2C is not None',
            'all(all(c2c_ok(self._adjC2C, self.mesh.cells._data, c, i) for i in range(4)) for c in range(len(self.mesh.cells._data)))'])

# ---------------------------------------------------------------- cell -> face table of the raw data (tetrahedra)
# RawMeshData._generate_cell_faces: "the i-th face of a cell is the one opposite its i-th vertex", proved on the generator of the table.
RMD = 'mouette.mesh.mesh_data.RawMeshData'
klass('TriContainer', real='mouette.mesh.data_container.DataContainer', fields={'_data': 'list[tuple[int,int,int]]', '_attr': 'dict[str,AttrRec]', 'id': 'str'})
klass('TetRaw', real=RMD, fields={'faces': 'TriContainer', 'cells': 'RContainer', 'cell_faces': 'CornerContainer'})
predicate('opp0', 'c', '(c[1], c[3], c[2])')
predicate('opp1', 'c', '(c[0], c[2], c[3])')
predicate('opp2', 'c', '(c[3], c[1], c[0])')
predicate('opp3', 'c', '(c[0], c[1], c[2])')
predicate('is_face_of', 'fs, f, t', '0 <= f and f < len(fs) and keyify(fs[f]) == keyify(t)')
predicate('cf_ok', 'cf, fs, cells, c', '''cf._adj[4*c] == c and cf._adj[4*c + 1] == c and cf._adj[4*c + 2] == c and cf._adj[4*c + 3] == c
    and is_face_of(fs, cf._elem[4*c], opp0(cells[c])) and is_face_of(fs, cf._elem[4*c + 1], opp1(cells[c]))
    and is_face_of(fs, cf._elem[4*c + 2], opp2(cells[c])) and is_face_of(fs, cf._elem[4*c + 3], opp3(cells[c]))''')
predicate('fid_ok', 'face_id, fs, upto', '''all((keyify(fs[f]) in face_id) and face_id[keyify(fs[f])] == f for f in range(upto))
    and all(0 <= face_id[k] and face_id[k] < upto and keyify(fs[face_id[k]]) == k for k in face_id)''')

fn(RMD + '._generate_cell_faces', properties=['C03'], params={'self': 'TetRaw'},
   locals={'face_id': 'dict[tuple[int,int,int],int]'},
   requires=['len(self.cell_faces._elem) == 0', 'len(self.cell_faces._adj) == 0', 'len(self.cell_faces._attr) == 0',
             'all(len(self.cells._data[c]) == 4 for c in range(len(self.cells._data)))',
             # a shared face is stored once
             'all(all(implies(f != g, keyify(self.faces._data[f]) != keyify(self.faces._data[g])) for g in range(len(self.faces._data))) for f in range(len(self.faces._data)))',
             # faces were completed from cells: the four faces of every tetrahedron are in the face list
             'all(any(keyify(self.faces._data[f]) == keyify(opp0(self.cells._data[c])) for f in range(len(self.faces._data))) '
             '    and any(keyify(self.faces._data[f]) == keyify(opp1(self.cells._data[c])) for f in range(len(self.faces._data))) '
             '    and any(keyify(self.faces._data[f]) == keyify(opp2(self.cells._data[c])) for f in range(len(self.faces._data))) '
             '    and any(keyify(self.faces._data[f]) == keyify(opp3(self.cells._data[c])) for f in range(len(self.faces._data))) for c in range(len(self.cells._data)))'],
   modifies=['self.cell_faces._elem', 'self.cell_faces._adj'],
   loops={0: loop(invariant=['len(self.cell_faces._elem) == 0', 'len(self.cell_faces._adj) == 0', 'len(self.cell_faces._attr) == 0',
                             'fid_ok(face_id, self.faces._data, it0)']),
          1: loop(invariant=['len(self.cell_faces._elem) == 4*it1', 'len(self.cell_faces._adj) == 4*it1', 'len(self.cell_faces._attr) == 0',
                             'fid_ok(face_id, self.faces._data, len(self.faces._data))',
                             'all(cf_ok(self.cell_faces, self.faces._data, self.cells._data, c) for c in range(it1))'])},
   # four records per tetrahedron, in cell order; record 4c+i is owned by c and names the face opposite the i-th vertex of c
   ensures=['len(self.cell_faces._elem) == 4*len(self.cells._data)', 'len(self.cell_faces._adj) == 4*len(self.cells._data)',
            'all(cf_ok(self.cell_faces, self.faces._data, self.cells._data, c) for c in range(len(self.cells._data)))'])
