"""RawMeshData._complete_edges_from_faces (property C02): "an edge list made of the declared edges plus every side of every face
exactly once, each stored low index first" -- region contract on the real nested loop `for f in self.faces: for i in range(nf): ...`.

Proved for every face list (any arities >= 1, repeated and degenerate sides included): the declared edges stay in place; every
non-degenerate side of every face is in the edge list afterwards (as a sorted pair); every appended edge is a sorted pair, is the
side of some face, and differs from every edge before it (so a side shared by two faces, or already declared, is stored once);
the lookup set stays equal to the set of stored edges.
DataContainer.append is used through a *trusted* contract here (appends one row; the alignment of the container's attributes --
the hard_edges flags exist at this point -- is property C05's business)."""
from pyvc.spec import *
import specs.mesh_model

RMD = 'mouette.mesh.mesh_data.RawMeshData'
klass('EContainer', real='mouette.mesh.data_container.DataContainer', fields={'_data': 'list[tuple[int,int]]', 'id': 'str'})
klass('EFRaw', real=RMD, fields={'faces': 'RContainer', 'edges': 'EContainer'})
fn('mouette.mesh.data_container.DataContainer.append', params={'self': 'EContainer', 'val': 'tuple[int,int]'}, trusted=True, modifies=['self._data'],
   ensures=['len(self._data) == old(len(self._data)) + 1', 'self._data[old(len(self._data))] == val',
            'all(self._data[k] == old(self._data[k]) for k in range(old(len(self._data))))'],
   note='appends one row (attribute alignment on growth: C05)')

predicate('side', 'F, f, i', 'keyify(F[f][i], F[f][(i + 1) % len(F[f])])')
predicate('set_is_edges', 'S, E', 'all((E[k] in S) for k in range(len(E))) and all(any(E[k] == s for k in range(len(E))) for s in S)')
# everything appended so far is new, sorted, and a side of some face
predicate('appended_ok', 'E, n0, F', '''all(E[k][0] < E[k][1] and all(E[j] != E[k] for j in range(k))
    and any(any(side(F, f, i) == E[k] for i in range(len(F[f]))) for f in range(len(F))) for k in range(n0, len(E)))''')

EINV = ['len(self.edges._data) >= old(len(self.edges._data))',
        'all(self.edges._data[k] == old(self.edges._data[k]) for k in range(old(len(self.edges._data))))',
        'set_is_edges(edge_set, self.edges._data)',
        'appended_ok(self.edges._data, old(len(self.edges._data)), self.faces._data)']
fn(RMD + '._complete_edges_from_faces#sides', of=RMD + '._complete_edges_from_faces', properties=['C02'], params={'self': 'EFRaw'},
   region=('for f in self.faces', 'for f in self.faces'),
   locals={'edge_set': 'set[tuple[int,int]]'},
   requires=['set_is_edges(edge_set, self.edges._data)',
             'all(len(self.faces._data[f]) >= 1 for f in range(len(self.faces._data)))'],
   modifies=['self.edges._data', 'edge_set'],
   loops={1: loop(invariant=EINV + ['all(all(side(self.faces._data, f, i)[0] == side(self.faces._data, f, i)[1] or (side(self.faces._data, f, i) in edge_set) '
                                    '        for i in range(len(self.faces._data[f]))) for f in range(it1))']),
          2: loop(invariant=EINV + ['nf == len(self.faces._data[it1])', 'len(f) == nf and all(f[q] == self.faces._data[it1][q] for q in range(nf))',
                                    'all(all(side(self.faces._data, g, i)[0] == side(self.faces._data, g, i)[1] or (side(self.faces._data, g, i) in edge_set) '
                                    '        for i in range(len(self.faces._data[g]))) for g in range(it1))',
                                    'all(side(self.faces._data, it1, i)[0] == side(self.faces._data, it1, i)[1] or (side(self.faces._data, it1, i) in edge_set) for i in range(it2))'])},
   ensures=EINV + ['all(all(side(self.faces._data, f, i)[0] == side(self.faces._data, f, i)[1] or any(self.edges._data[k] == side(self.faces._data, f, i) for k in range(len(self.edges._data))) '
                   '        for i in range(len(self.faces._data[f]))) for f in range(len(self.faces._data)))'])
