"""pyvc.engine -- the verifier: generates and discharges the obligations of one function."""
import ast, time, traceback, os
import z3
from .ty import *
from .state import *
from . import state as _state
from .spec import REG
from .source import Index
from .evalx import EvalMixin, PathEnd
from .execs import ExecMixin, Outcome
from .calls import CallMixin, loop_ordinals
from .builtins import BuiltinMixin
from . import externals as _externals
from .numeric import NumericMixin, construct_vec, is_vec, VEC_QUAL


def _in_init(self, cls):
    return bool(self.fnqual) and self.fnqual.endswith('.__init__')


State.in_init = _in_init
State.spec_ghost = property(lambda self: True)


class Result:
    def __init__(self, fn):
        self.fn = fn
        self.status = None          # proved / failed / undecided / out-of-subset / contract-out-of-date / error
        self.obligations = []       # dicts
        self.reason = None
        self.time = 0.0
        self.paths = 0
        self.inlined = []
        self.contracts_used = []
        self.externals_used = []
        self.vacuity = {}
        self.sha = None

    def as_dict(self):
        return dict(self.__dict__)


class Engine(NumericMixin, EvalMixin, ExecMixin, CallMixin, BuiltinMixin):

    def __init__(self, index=None, timeout_ms=20000, feas_ms=300):
        self.index = index or Index()
        self.timeout_ms = timeout_ms
        self.feas_budget_ms = feas_ms
        self.reset()

    def reset(self):
        self.obligations = []
        self.trivial = 0
        self.steps = 0
        self.max_steps = 60000
        self.pending_raises = [[]]
        self.fn_spec_stack = []
        self.loop_ordinals_stack = []
        self.suppress_obligations = False
        self.current_fn = None
        self.verifying = None
        self.inlined = set()
        self.contracts_used = set()
        self.externals_used = set()
        self.config_flags = {}
        self.feas_calls = 0
        self.hint_elem_type = None
        self.hint_dict_type = None
        self.hint_set_type = None
        self.global_axioms = None
        self.finite_side = []
        self.expand_defs = getattr(self, 'expand_defs', False)
        self.case_binding = getattr(self, 'case_binding', {})
        self.case_label = getattr(self, 'case_label', '')
        self.ufuncs_used = set()
        self._axiom_cache = None
        self.init_env = None
        self.init_store = None

    # ------------------------------------------------------------------ statement wrapper collecting raises
    def ex(self, s, st):
        self.pending_raises.append([])
        try:
            outs = list(ExecMixin.ex(self, s, st))
        finally:
            raises = self.pending_raises.pop()
        for r in raises:
            yield r
        yield from outs

    # ------------------------------------------------------------------ axioms
    def axioms(self):
        """registered axioms (closed z3 formulas) whose uninterpreted functions all occur in this proof;
        they are assumed and listed in the trusted base of the evidence"""
        key = (frozenset(self.ufuncs_used), FINITE['K'])
        if self._axiom_cache is not None and self._axiom_cache[0] == key:
            return self._axiom_cache[1]
        out = []
        for name, vars_, body, src, uses in REG.axioms:
            if not uses <= self.ufuncs_used:
                continue
            st = State()
            st.spec = True
            bv = []
            for v, t in vars_.items():
                c = fresh_const(v, sort_of(t))
                bv.append(c)
                st.env[v] = unpack(st, c, t)
            f = self.truth(self.ev1(body, st), st)
            out.append((name, z3.ForAll(bv, f) if bv else f))
        for name in sorted(self.ufuncs_used):
            if name in REG.defs and not self.expand_defs:
                params, body, _ = REG.defs[name]
                argt, rett = REG.ufuncs[name]
                st = State()
                st.spec = True
                bv = []
                for p_, t in zip(params, argt):
                    c = fresh_const(p_, sort_of(t))
                    bv.append(c)
                    st.env[p_] = unpack(st, c, t)
                f = z3.Function(name, *([sort_of(t) for t in argt] + [sort_of(rett)]))
                self.expand_defs = True
                try:
                    rhs = pack(st, self.lift(self.ev1(body, st)), rett)
                finally:
                    self.expand_defs = False
                app = f(*bv)
                out.append(('def:' + name, z3.ForAll(bv, app == rhs, patterns=[app])))
        self._axiom_cache = (key, out)
        return out

    def lemma_formulas(self, names):
        out = []
        for name, vars_, body, src in REG.lemmas:
            if name not in names:
                continue
            st = State()
            st.spec = True
            bv = []
            for v, t in vars_.items():
                c = fresh_const(v, sort_of(t))
                bv.append(c)
                st.env[v] = unpack(st, c, t)
            f = self.truth(self.ev1(body, st), st)
            out.append((name, z3.ForAll(bv, f) if bv else f))
        return out

    def prove_lemma(self, name):
        """-> (status, seconds): the lemma is proved with no hypotheses at all"""
        t0 = time.time()
        self.expand_defs = True
        try:
            (nm, f), = self.lemma_formulas([name])
        finally:
            self.expand_defs = False
        s = z3.Solver()
        s.set('timeout', 60000)
        s.add(z3.Not(f))
        r = s.check()
        return ('discharged' if r == z3.unsat else ('failed' if r == z3.sat else 'unknown')), time.time() - t0

    # ------------------------------------------------------------------ function verification
    def build_initial_state(self, fi, spec):
        st = State()
        st.module = fi.module
        st.cls = fi.cls.qual if fi.cls else None
        st.fnqual = fi.qual
        a = fi.node.args
        names = [x.arg for x in a.posonlyargs + a.args + a.kwonlyargs]
        for n in names:
            if n == 'self' and fi.cls is not None and 'self' not in spec.params:
                cs = REG.cls(fi.cls.qual)
                if cs is None:
                    raise SpecError('no class spec for %s' % fi.cls.qual)
                t = Ty('obj', (), cs.name)
                if fi.node.name == '__init__':
                    st.env[n] = Ref(st.alloc(ObjC(cs.qual, {})), t)
                else:
                    st.env[n] = fresh_value(st, t, 'self')
                continue
            if n in self.case_binding:
                st.env[n] = self.lift(self.case_binding[n])
                continue
            if n not in spec.params:
                raise SpecError('parameter %s of %s has no declared type' % (n, fi.qual))
            st.env[n] = fresh_value(st, spec.params[n], n)
        for gname, gt in spec.ghost_params.items():
            st.env[gname] = fresh_value(st, gt, gname)
        if spec.region:
            for lname, lt in spec.locals.items():
                if lname not in st.env:
                    st.env[lname] = fresh_value(st, lt, lname)
        st.env['np_errstate'] = SV(STR, z3.String('np_errstate0'))      # numpy's process-global error configuration (ghost)
        return st

    def verify(self, qual):
        """-> Result.  Generates all obligations of `qual` against its contract and discharges them
        (once per declared case of constant parameter bindings)."""
        spec = REG.fns.get(qual)
        cases = spec.cases if spec is not None else [{}]
        total = None
        for ci, case in enumerate(cases):
            self.case_binding = dict(case)
            self.case_label = ('case%d:' % ci) if len(cases) > 1 else ''
            r = self.verify_case(qual)
            if self.case_label:
                for o in r.obligations:
                    o['name'] = self.case_label + o['name']
                    o['case'] = {k: repr(v) for k, v in case.items()}
            if total is None:
                total = r
            else:
                total.obligations += r.obligations
                total.time += r.time
                total.paths += r.paths
                order = ['error', 'contract-out-of-date', 'out-of-subset', 'failed', 'undecided', 'proved']
                if order.index(r.status) < order.index(total.status):
                    total.status, total.reason = r.status, r.reason
                total.inlined = sorted(set(total.inlined) | set(r.inlined))
                total.contracts_used = sorted(set(total.contracts_used) | set(r.contracts_used))
                total.externals_used = sorted(set(total.externals_used) | set(r.externals_used))
        self.case_binding, self.case_label = {}, ''
        return total

    def verify_case(self, qual):
        t0 = time.time()
        self.reset()
        res = Result(qual)
        self.current_fn = qual
        self.verifying = qual
        spec = REG.fns.get(qual)
        fi = self.index.fns.get(spec.of if spec is not None and spec.of else qual)
        if fi is None or spec is None:
            res.status = 'contract-out-of-date'
            res.reason = 'function %s not found in the source' % qual if fi is None else 'no contract'
            return res
        res.sha = fi.sha()
        try:
            self.generate(fi, spec, res)
        except OutOfSubset as e:
            res.status = 'out-of-subset'
            res.reason = str(e)
            res.time = time.time() - t0
            return res
        except SpecError as e:
            res.status = 'contract-out-of-date'
            res.reason = str(e)
            res.time = time.time() - t0
            return res
        except Exception as e:
            res.status = 'error'
            res.reason = traceback.format_exc()
            res.time = time.time() - t0
            return res
        self.discharge(res)
        res.inlined = sorted(self.inlined)
        res.contracts_used = sorted(self.contracts_used)
        res.externals_used = sorted(self.externals_used)
        if res.status in ('failed', 'undecided'):
            try:
                self.refute(fi, spec, res)
            except Exception:
                res.refute_error = traceback.format_exc()
            finally:
                from . import state as S_
                S_.FINITE['K'] = None
        # verdicts must not flip under machine load: what is still unknown (and has no counter-model) gets one retry
        # with three times the budget -- after the (cheap) counter-model search, so that a broken obligation is
        # reported quickly and a slow proof still goes through
        for rec in res.obligations:
            ob = rec.pop('retry_ob', None)
            if ob is None or rec['status'] != 'unknown':
                continue
            t1 = time.time()
            groups = [o for o in self.ob_groups.get(rec['name'], [])]
            ok = True
            started = False
            for o in groups:
                if o is ob:
                    started = True
                if not started:
                    continue
                if self.solve_fresh(o):
                    status, model = 'unsat', None
                    rec['backend'] = 'z3 (in-process attempts) + z3 5.1 CLI in a fresh process'
                else:
                    status, model = self.solve(o, max(self.timeout_ms * 3, 120000))
                if status == 'unsat':
                    continue
                ok = False
                if status == 'sat':
                    rec['status'], rec['model'], rec['model_scope'], rec['path'] = 'failed', model, 'unbounded', list(o.path)
                break
            rec['time'] = round(rec['time'] + time.time() - t1, 3)
            if ok:
                rec['status'] = 'discharged'
                rec.pop('path', None)
        st_ = [r['status'] for r in res.obligations]
        if res.obligations and res.status in ('failed', 'undecided', 'proved'):
            res.status = 'failed' if 'failed' in st_ else ('undecided' if 'unknown' in st_ else 'proved')
        res.time = time.time() - t0
        return res

    def generate(self, fi, spec, res):
        st = self.build_initial_state(fi, spec)
        if FINITE['K'] is None:
            for _, lf in self.lemma_formulas(spec.lemmas):
                st.pc.append(lf)
        ss = st.fork()
        ss.spec = True
        self.eval_lets(spec, ss)
        st.env.update({k: v for k, v in ss.env.items() if k in spec.lets})
        self.requires_ids = {}
        for j_, r in enumerate(spec.requires):
            n0_ = len(st.pc)
            st.assume(self.spec_eval_bool(r, st))
            self.requires_ids[j_] = {p_.get_id() for p_ in st.pc[n0_:]}
        # vacuity guard: the precondition must be satisfiable
        s = z3.Solver()
        s.set('timeout', 5000)
        s.add(st.pc)
        rq = s.check()
        res.vacuity['requires_sat'] = str(rq)
        if rq == z3.unsat:
            raise SpecError('precondition of %s is unsatisfiable (vacuous contract)' % fi.qual)
        old = (dict(st.env), dict(st.store))
        self.init_env, self.init_store = old
        st.old = old
        for g in spec.ghost_entry:
            self.run_ghost(g, st)
        self.fn_spec_stack.append(spec)
        self.loop_ordinals_stack.append(loop_ordinals(fi.node))
        self.hint_dict_type = None
        body = fi.node.body
        if spec.region:
            # mechanical extraction of a statement range of the real function (what is dropped: every other
            # statement of the function; the region's `requires` states what they are relied on to establish)
            srcs = [ast.unparse(x) for x in body]
            a = [i for i, x in enumerate(srcs) if x.startswith(spec.region[0])]
            b = [i for i, x in enumerate(srcs) if x.startswith(spec.region[1])]
            if len(a) != 1 or len(b) != 1 or a[0] > b[0]:
                raise SpecError('region %r..%r of %s cannot be located' % (spec.region[0], spec.region[1], fi.qual))
            body = body[a[0]:b[0] + 1]
            for lname, lt in spec.locals.items():
                if lname not in st.env:
                    st.env[lname] = fresh_value(st, lt, lname)
        try:
            outs = list(self.ex_block(body, st))
        finally:
            self.fn_spec_stack.pop()
            self.loop_ordinals_stack.pop()
        outs = self.pending_raises[0] + outs
        self.pending_raises[0] = []
        res.paths = len(outs)
        n_normal = 0
        for o in outs:
            e = o.st
            e.old = old
            if o.kind in ('return', 'normal'):
                n_normal += 1
                val = o.val if o.kind == 'return' else NONEV
                self.check_exit(fi, spec, e, val)
            elif o.kind == 'raise':
                self.check_raise(fi, spec, e, o.val)
            else:
                raise OutOfSubset('break/continue outside loop')
        res.vacuity['normal_exits'] = n_normal

    def exit_env(self, spec, e, val):
        ps = e.fork()
        ps.spec = True
        # parameters keep their entry binding in postconditions (Python rebinding of a parameter is local)
        region_locals = set(spec.locals) if spec.region else set()     # a region's locals are plain variables: final binding
        for k, v in e.old[0].items():
            if k != 'np_errstate' and k not in region_locals:
                ps.env[k] = v
        for k, v in e.env.items():
            if k not in ps.env or k == 'np_errstate' or k in region_locals:
                ps.env[k] = v
        if spec.returns is not None:
            val = self.coerce_to(ps, val, spec.returns)
        ps.env['result'] = val
        ps.store = e.store
        return ps

    def check_exit(self, fi, spec, e, val):
        # ghost code at exit runs on the exit state with parameters visible
        if spec.ghost_exit:
            keep = dict(e.env)
            for k, v in e.old[0].items():
                e.env[k] = v
            e.env['result'] = val
            for g in spec.ghost_exit:
                self.run_ghost(g, e)
            e.env = keep
        ps = self.exit_env(spec, e, val)
        self.eval_lets_post(spec, ps)
        # a declared exception condition must not hold on a normal exit (raises is an iff)
        os_ = ps.fork()
        os_.env, os_.store = dict(e.old[0]), e.old[1]
        os_.spec = True
        self.eval_lets(spec, os_)
        for exc, cond in spec.raises.items():
            c = self.truth(self.ev1(cond, os_), os_)
            self.oblige(e, z3.Not(c), 'raises', 'raises:%s-must-raise' % exc, fi.node)
        if spec.returns is not None and spec.returns.kind != 'opt' and isinstance(self.lift(val), (NoneV, OptV)):
            v = self.lift(val)
            self.oblige(e, z3.BoolVal(False) if isinstance(v, NoneV) else z3.Not(v.none), 'ensures', 'result-not-None', fi.node)
        for j, en in enumerate(spec.ensures):
            g = self.truth(self.ev1(en, ps), ps)
            self.oblige(e, g, 'ensures', 'ensures[%d]' % j, fi.node)
        self.check_frame(fi, spec, e)

    def eval_lets_post(self, spec, ps):
        pass

    def check_raise(self, fi, spec, e, exc):
        if exc not in spec.raises:
            self.oblige(e, z3.BoolVal(False), 'raises', 'raises:unexpected-%s' % exc, fi.node)
            return
        os_ = e.fork()
        os_.env, os_.store = dict(e.old[0]), e.old[1]
        os_.spec = True
        self.eval_lets(spec, os_)
        c = self.truth(self.ev1(spec.raises[exc], os_), os_)
        self.oblige(e, c, 'raises', 'raises:%s-only-if' % exc, fi.node)
        ps = self.exit_env(spec, e, NONEV)
        for j, en in enumerate(spec.on_raise):
            self.oblige(e, self.truth(self.ev1(en, ps), ps), 'ensures', 'on_raise[%d]' % j, fi.node)

    def check_frame(self, fi, spec, e):
        """everything reachable from the parameters that is not listed in `modifies` is unchanged"""
        old_env, old_store = e.old
        mod = set(spec.modifies)
        for pname, pv in old_env.items():
            if not isinstance(pv, Ref):
                continue
            oc = old_store.get(pv.id)
            if isinstance(oc, ObjC):
                if fi.node.name == '__init__' and pname == 'self':
                    continue
                if pname + '.*' in mod:
                    continue
                nc = e.store[pv.id]
                for f, ov in oc.fields.items():
                    path = '%s.%s' % (pname, f)
                    if path in mod:
                        continue
                    nv = nc.fields.get(f)
                    self.frame_eq(e, ov, nv, old_store, 'frame:%s' % path, fi)
                for f in nc.fields:
                    if f not in oc.fields and ('%s.%s' % (pname, f)) not in mod:
                        self.oblige(e, z3.BoolVal(False), 'frame', 'frame:%s.%s-created' % (pname, f), fi.node)
            elif oc is not None and pname not in mod:
                self.frame_eq(e, pv, pv, old_store, 'frame:%s' % pname, fi)

    def frame_eq(self, e, ov, nv, old_store, label, fi):
        if ov is nv and not isinstance(ov, Ref):
            return
        so = e.fork()
        so.store = dict(old_store)
        so.spec = True
        sn = e.fork()
        sn.spec = True
        ov, nv = self.lift(ov), self.lift(nv)
        if isinstance(ov, Ref) and isinstance(nv, Ref):
            if ov.id != nv.id:
                self.oblige(e, z3.BoolVal(False), 'frame', label + '-rebound', fi.node)
                return
            oc, nc = old_store[ov.id], e.store[nv.id]
            if oc is nc:
                return
            if isinstance(oc, ObjC):
                return     # nested objects: not part of the frame unless listed (checked through their own params)
            # structural equality between old and new cell contents
            tmp_o = Ref(so.alloc(oc), ov.t)
            so.store[tmp_o.id] = oc
            merged = e.fork()
            merged.spec = True
            merged.store = dict(e.store)
            merged.store[tmp_o.id] = oc
            g = self.eq(tmp_o, nv, merged)
            self.oblige(e, g, 'frame', label, fi.node)
            return
        if isinstance(ov, OptV) and isinstance(nv, OptV):
            if isinstance(ov.val, Ref) or isinstance(nv.val, Ref):
                self.oblige(e, ov.none == nv.none, 'frame', label + '-noneness', fi.node)
                if isinstance(ov.val, Ref) and isinstance(nv.val, Ref):
                    sub = e.fork()
                    sub.pc.append(z3.Not(ov.none))
                    self.frame_eq(sub, ov.val, nv.val, old_store, label, fi)
                return
        try:
            g = self.eq(ov, nv, sn)
        except OutOfSubset:
            return
        self.oblige(e, g, 'frame', label, fi.node)

    # ------------------------------------------------------------------ solving
    def discharge(self, res):
        groups = {}
        for ob in self.obligations:
            groups.setdefault(ob.name, []).append(ob)
        all_ok = True
        any_fail = False
        unknown_per_base = {}
        self.ob_groups = groups
        for name, obs in groups.items():
            rec = {'name': name, 'kind': obs[0].kind, 'instances': len(obs), 'status': 'discharged', 'time': 0.0,
                   'backend': 'z3', 'where': obs[0].where}
            base = name.split('/')[0]
            for ob in obs:
                t0 = time.time()
                if unknown_per_base.get(base, 0) >= 2:
                    # two conjuncts of this obligation are already open: the others wait for the counter-model search
                    # (which refutes the obligation as a whole) and are solved in the retry pass if it finds nothing
                    status, model = 'unknown', None
                else:
                    status, model = self.solve(ob)
                if status == 'unknown':
                    unknown_per_base[base] = unknown_per_base.get(base, 0) + 1
                if status == 'unknown':
                    rec['retry_ob'] = ob      # retried with three times the budget after the counter-model search (verify_case)
                rec['time'] += time.time() - t0
                if status == 'unsat':
                    continue
                rec['path'] = list(ob.path)
                if status == 'sat':
                    rec['status'] = 'failed'
                    rec['model'] = model
                    rec['model_scope'] = 'unbounded'
                    any_fail = True
                else:
                    rec['status'] = 'unknown'
                    all_ok = False
                break       # one undischarged instance decides the obligation
            rec['time'] = round(rec['time'], 3)
            res.obligations.append(rec)
        if any_fail:
            res.status = 'failed'
        elif not all_ok:
            res.status = 'undecided'
        else:
            res.status = 'proved'
        if not res.obligations:
            res.status = 'undecided'
            res.reason = 'no obligations generated (vacuity guard)'

    def solve(self, ob, timeout_ms=None):
        timeout_ms = timeout_ms or self.timeout_ms
        g = z3.simplify(ob.goal) if not z3.is_quantifier(ob.goal) else ob.goal
        if z3.is_true(g):
            return 'unsat', None
        # 1st attempt: E-matching only (Boogie-style; stable on verification conditions)
        s = z3.Solver()
        s.set('timeout', min(4000, max(2000, timeout_ms // 2)))
        s.set('auto_config', False)
        s.set('smt.mbqi', False)
        ax = [a for _, a in self.axioms()]
        # hidden hypotheses (`hide` of a loop contract: preconditions this loop's preservation step does not need; dropping
        # hypotheses only weakens what is assumed, so `unsat` stays a proof).  A first attempt is made on the reduced
        # context; the full context is used afterwards.
        hidden = self.hidden_for(ob)
        if hidden:
            pc_small = [p_ for p_ in ob.pc if p_.get_id() not in hidden]
            for mbqi_ in (False, True):
                s = z3.Solver()
                s.set('timeout', min(8000, max(3000, timeout_ms // 2)))
                if not mbqi_:
                    s.set('auto_config', False)
                    s.set('smt.mbqi', False)
                s.add(ax)
                s.add(pc_small)
                s.add(z3.Not(ob.goal))
                if s.check() == z3.unsat:
                    return 'unsat', None
        s = z3.Solver()
        s.set('timeout', min(4000, max(2000, timeout_ms // 2)))
        s.set('auto_config', False)
        s.set('smt.mbqi', False)
        s.add(ax)
        s.add(ob.pc)
        s.add(z3.Not(ob.goal))
        r = s.check()
        if r == z3.unsat:
            return 'unsat', None
        # 2nd attempt: manual instantiation + abstraction + nlsat (sound: only weakens the hypotheses)
        try:
            if self.solve_by_instantiation(ob, min(timeout_ms, 8000)):
                return 'unsat', None
        except (z3.Z3Exception, ValueError, RecursionError):
            pass
        # 3rd attempt: default configuration (MBQI on): can also produce counter-models.
        # A small portfolio of random seeds: quantifier instantiation is sensitive to term order, and a
        # verdict must not depend on it (any unsat is a proof; sat is only taken from the first run).
        r = None
        for k_, seed_ in enumerate((0, 7, 23)):
            s = z3.Solver()
            s.set('timeout', timeout_ms if k_ == 0 else max(3000, timeout_ms // 2))
            if seed_:
                s.set('random_seed', seed_)
                s.set('smt.random_seed', seed_)
                s.set('smt.phase_selection', 5)
            s.add(ax)
            s.add(ob.pc)
            s.add(z3.Not(ob.goal))
            r_ = s.check()
            if r_ == z3.unsat:
                return 'unsat', None
            if k_ == 0:
                r, s0 = r_, s
                if r_ == z3.sat:
                    break
            else:
                # the same seed with E-matching only: on large verification conditions either configuration may be the one
                # that happens to find the instances (a verdict must not depend on which)
                s2 = z3.Solver()
                s2.set('timeout', 4000)
                s2.set('auto_config', False)
                s2.set('smt.mbqi', False)
                s2.set('random_seed', seed_)
                s2.set('smt.random_seed', seed_)
                s2.add(ax)
                s2.add(ob.pc)
                s2.add(z3.Not(ob.goal))
                if s2.check() == z3.unsat:
                    return 'unsat', None
        s = s0
        if r == z3.unsat:
            return 'unsat', None
        if r == z3.sat:
            m = s.model()
            if not self.model_is_genuine(m, ob):
                return 'unknown', None
            return 'sat', self.concretize(m, ob)
        return 'unknown', None

    def solve_fresh(self, ob, timeout_s=90):
        """last resort of the retry pass: the same query (axioms + path condition + negated goal) exported as SMT-LIB and
        given to fresh z3 processes (CLI of the z3-solver wheel), default and E-matching-only configurations in parallel.
        The in-process context has by then seen hundreds of queries and its heuristics drift; a fresh process is a
        different, equally valid, run.  Only `unsat` is used."""
        import subprocess, tempfile, shutil
        exe = shutil.which('z3-new') or shutil.which('z3')
        if exe is None:
            return False
        s = z3.Solver()
        s.add([a for _, a in self.axioms()])
        s.add(ob.pc)
        s.add(z3.Not(ob.goal))
        try:
            text = s.to_smt2()
        except Exception:
            return False
        d = tempfile.mkdtemp(prefix='pyvc_')
        try:
            path = os.path.join(d, 'q.smt2')
            with open(path, 'w') as f:
                f.write(text)
            cfgs = [[], ['smt.mbqi=false', 'auto_config=false'], ['smt.random_seed=7', 'sat.random_seed=7'], ['smt.mbqi=false', 'auto_config=false', 'smt.random_seed=23']]
            procs = [subprocess.Popen([exe, '-T:%d' % timeout_s] + c + [path], stdout=subprocess.PIPE, stderr=subprocess.DEVNULL, text=True) for c in cfgs]
            ok = False
            t_end = time.time() + timeout_s + 10
            pending = list(procs)
            while pending and time.time() < t_end and not ok:
                for p_ in list(pending):
                    if p_.poll() is not None:
                        pending.remove(p_)
                        out = (p_.stdout.read() or '').strip().splitlines()
                        if out and out[0].strip() == 'unsat':
                            ok = True
                time.sleep(0.2)
            for p_ in procs:
                if p_.poll() is None:
                    p_.kill()
            return ok
        finally:
            shutil.rmtree(d, ignore_errors=True)

    def hidden_for(self, ob):
        """z3 ids of the precondition conjuncts hidden from this obligation (loop contract option `hide=[requires indices]`)"""
        import re as _re
        m = _re.match(r'(?:case\d+:)?loop(\w+):inv-preserved', ob.name)
        if not m:
            return set()
        spec = REG.fns.get(self.current_fn)
        if spec is None:
            return set()
        k = m.group(1)
        ls = spec.loops.get(int(k)) if k.isdigit() else spec.loops.get(k)
        if ls is None or not getattr(ls, 'hide', None):
            return set()
        out = set()
        for j in ls.hide:
            out |= getattr(self, 'requires_ids', {}).get(j, set())
        return out

    def solve_by_instantiation(self, ob, timeout_ms):
        """skolemise the goal's universal quantifiers, instantiate the universally quantified hypotheses at the
        index terms occurring in the goal, replace every non-arithmetic subterm by a fresh constant (congruence
        is lost: weaker), keep what is pure arithmetic and decide with nlsat / QF_NIA.  unsat => the VC is valid."""
        goal = ob.goal
        sk = []
        while z3.is_quantifier(goal) and goal.is_forall():
            vs = [z3.FreshConst(goal.var_sort(i), 'sk') for i in range(goal.num_vars())]
            goal = z3.substitute_vars(goal.body(), *reversed(vs))
            sk += vs
        goal = z3.simplify(expand_select_store(z3.simplify(goal)))
        if z3.is_quantifier(goal):
            return False
        # candidate instantiation terms: skolems + integer index terms of selects in the goal
        terms = {}
        for v in sk:
            if v.sort().kind() == z3.Z3_INT_SORT:
                terms[v.get_id()] = v

        def collect(e, seen):
            if e.get_id() in seen or z3.is_quantifier(e) or z3.is_var(e):
                return
            seen.add(e.get_id())
            if z3.is_app(e):
                if e.decl().kind() == z3.Z3_OP_SELECT and e.arg(1).sort().kind() == z3.Z3_INT_SORT:
                    terms[e.arg(1).get_id()] = e.arg(1)
                for c in e.children():
                    collect(c, seen)
        collect(goal, set())
        extra = []
        for t in list(terms.values()):
            for d in (1, -1):
                extra.append(z3.simplify(t + d))
        for t in extra:
            terms[t.get_id()] = t
        tl = list(terms.values())[:12]
        hyps = []
        for p in ob.pc:
            if z3.is_quantifier(p):
                if p.is_forall() and p.num_vars() == 1 and p.var_sort(0).kind() == z3.Z3_INT_SORT and not any(z3.is_quantifier(c) for c in [p.body()] if False):
                    for t in tl:
                        inst = z3.simplify(expand_select_store(z3.simplify(z3.substitute_vars(p.body(), t))))
                        if not contains_quantifier(inst):
                            hyps.append(inst)
                continue
            hyps.append(z3.simplify(expand_select_store(z3.simplify(p))))
        # abstraction of non-arithmetic subterms
        table = {}

        def abstract(e):
            if z3.is_quantifier(e) or z3.is_var(e):
                raise ValueError
            k = e.sort().kind()
            if z3.is_app(e):
                dk = e.decl().kind()
                arith_ok = dk in ARITH_OPS or (dk == z3.Z3_OP_UNINTERPRETED and e.num_args() == 0 and k in (z3.Z3_BOOL_SORT, z3.Z3_INT_SORT, z3.Z3_REAL_SORT))
                if z3.is_int_value(e) or z3.is_rational_value(e) or z3.is_true(e) or z3.is_false(e):
                    return e
                if arith_ok and all(c.sort().kind() in (z3.Z3_BOOL_SORT, z3.Z3_INT_SORT, z3.Z3_REAL_SORT) for c in e.children()):
                    ch = [abstract(c) for c in e.children()]
                    return e.decl()(*ch) if ch else e
                if dk == z3.Z3_OP_EQ or dk == z3.Z3_OP_DISTINCT:
                    if all(c.sort().kind() in (z3.Z3_BOOL_SORT, z3.Z3_INT_SORT, z3.Z3_REAL_SORT) for c in e.children()):
                        ch = [abstract(c) for c in e.children()]
                        return e.decl()(*ch)
            if k in (z3.Z3_BOOL_SORT, z3.Z3_INT_SORT, z3.Z3_REAL_SORT):
                key = e.get_id()
                if key not in table:
                    table[key] = z3.FreshConst(e.sort(), 'abs')
                return table[key]
            raise ValueError
        try:
            g_abs = abstract(goal)
        except ValueError:
            return False
        keep = []
        for h in hyps:
            try:
                keep.append(abstract(h))
            except ValueError:
                continue
        use_int = any(v.sort().kind() == z3.Z3_INT_SORT for v in table.values()) or has_int_vars(g_abs)
        if os.environ.get('PYVC_DEBUG_INST'):
            print('INST goal:', g_abs)
            for h in keep:
                print('INST hyp :', str(h)[:400])
        mixed = use_int and (has_real_vars(g_abs) or any(has_real_vars(h) for h in keep))
        if mixed:
            # integers only steer case splits here: treat them as reals (sound for unsat: every integer model is a real model)
            sub = []
            for v in set(list(table.values())):
                pass
            g_abs, keep = int_to_real(g_abs), [int_to_real(h) for h in keep]
            s = z3.Tactic('qfnra-nlsat').solver()
        elif use_int:
            s = z3.SolverFor('QF_NIA')
        else:
            s = z3.Tactic('qfnra-nlsat').solver()
        s.set('timeout', timeout_ms)
        s.add(keep)
        s.add(z3.Not(g_abs))
        return s.check() == z3.unsat

    def model_is_genuine(self, m, ob):
        """guard against spurious `sat` (incomplete theories combinations, lambdas): every ground path
        condition must evaluate to true and the goal to false in the model"""
        try:
            for p in ob.pc:
                if z3.is_quantifier(p):
                    continue
                v = m.eval(p, model_completion=True)
                if z3.is_false(v):
                    return False
            if not z3.is_quantifier(ob.goal):
                g = m.eval(ob.goal, model_completion=True)
                if z3.is_true(g):
                    return False
        except Exception:
            return True
        return True

    # ------------------------------------------------------------------ finite-scope refutation
    def refute(self, fi, spec, res):
        """counter-model search for undischarged obligations: the same generator is re-run with all
        sequence lengths / universes bounded by K and quantifiers expanded (quantifier-free VCs)."""
        from . import state as S
        pending = [o for o in res.obligations if o['status'] in ('unknown',) or (o['status'] == 'failed' and not o.get('model'))]
        if not pending:
            return
        names = {o['name'].split('/')[0] for o in pending}
        t_budget = time.time() + self.refute_budget_s
        for K in (2, 3, 4):
            if not names or time.time() > t_budget:
                break
            S.FINITE['K'] = K
            try:
                sub = Engine(self.index, self.timeout_ms, self.feas_budget_ms)
                sub.case_binding = dict(self.case_binding)
                sub.expand_defs = True        # definitions expanded, lemmas dropped: quantifier-free search
                sub.reset()
                sub.current_fn = fi.qual
                sub.verifying = fi.qual
                r2 = Result(fi.qual)
                try:
                    sub.generate(fi, spec, r2)
                except (OutOfSubset, SpecError) as e:
                    res.refute_error = 'finite-scope generation failed: %s' % e
                    return
                groups = {}
                for ob in sub.obligations:
                    groups.setdefault(ob.name, []).append(ob)
                for name in sorted(names):
                    for ob in groups.get(name, []):
                        if time.time() > t_budget:
                            break
                        s = z3.Solver()
                        s.set('timeout', 10000)
                        s.add([a for _, a in sub.axioms()])
                        s.add(ob.pc)
                        s.add(sub.finite_side)
                        s.add(z3.Not(ob.goal))
                        r = s.check()
                        if r == z3.sat:
                            m = s.model()
                            model = sub.concretize(m, ob)
                            for rec in res.obligations:
                                if rec['name'].split('/')[0] == name and rec['status'] != 'discharged':
                                    rec['status'] = 'failed'
                                    rec['model_scope'] = 'finite K=%d (obligation %s refuted as a whole)' % (K, name)
                                    rec['path'] = list(ob.path)
                                    rec['model'] = model
                            names.discard(name)
                            break
            finally:
                S.FINITE['K'] = None
        if any(o['status'] == 'failed' for o in res.obligations):
            res.status = 'failed'

    refute_budget_s = 120

    # ------------------------------------------------------------------ models -> concrete inputs
    def concretize(self, m, ob=None):
        """evaluate the function's *entry* state (parameters, self fields) in a model -> plain data;
        for obligations inside loops also the state at the obligation (a counterexample to induction
        starts at an arbitrary loop-head state, not necessarily at a reachable one)"""
        out = {}
        if self.init_env is None:
            return out
        for name, v in self.init_env.items():
            try:
                out[name] = self.conc_value(m, v, self.init_store, 0)
            except Exception as e:
                out[name] = '<%s>' % e
        if ob is not None and ob.env is not None and any(str(x).startswith('L') for x in ob.path):
            at = {}
            for name, v in ob.env.items():
                try:
                    at[name] = self.conc_value(m, v, ob.store, 0)
                except Exception as e:
                    at[name] = '<%s>' % e
            out['@state_at_obligation'] = at
        for k, b in self.config_flags.items():
            out['config.' + k] = z3.is_true(m.eval(b, model_completion=True))
        return out

    def conc_value(self, m, v, store, depth):
        if depth > 6:
            return '<deep>'
        v = self.lift(v)
        if isinstance(v, NoneV):
            return None
        if isinstance(v, StrConst):
            return v.s
        if isinstance(v, OptV):
            if z3.is_true(m.eval(v.none, model_completion=True)):
                return None
            return self.conc_value(m, v.val, store, depth + 1)
        if isinstance(v, TupV):
            return {'tuple': [self.conc_value(m, x, store, depth + 1) for x in v.items]}
        if isinstance(v, SV):
            return self.conc_expr(m, v.e, v.t, depth)
        if isinstance(v, Ref):
            c = store[v.id]
            if isinstance(c, ObjC):
                return {'object': c.cls, 'fields': {f: self.conc_value(m, x, store, depth + 1) for f, x in c.fields.items()}}
            return self.conc_expr(m, pack_cell(c), c.t, depth)
        return '<%s>' % type(v).__name__

    def conc_expr(self, m, e, t, depth):
        if depth > 6:
            return '<deep>'
        k = t.kind
        ev = lambda x: m.eval(x, model_completion=True)
        if k == 'int':
            r = ev(e)
            return r.as_long() if z3.is_int_value(r) else str(r)
        if k == 'bool':
            return z3.is_true(ev(e))
        if k == 'real':
            r = ev(e)
            try:
                return {'real': '%s/%s' % (r.numerator_as_long(), r.denominator_as_long())}
            except Exception:
                return {'real': str(r)}
        if k == 'str':
            r = ev(e)
            return r.as_string() if z3.is_string_value(r) else str(r)
        if k in ('sort', 'obj'):
            return {'elt': str(ev(e))}
        if k == 'tuple':
            S = sort_of(t)
            return {'tuple': [self.conc_expr(m, S.accessor(0, i)(e), a, depth + 1) for i, a in enumerate(t.args)]}
        if k == 'opt':
            S = sort_of(t)
            if z3.is_true(ev(S.is_none(e))):
                return None
            return self.conc_expr(m, S.v(e), t.args[0], depth + 1)
        if k == 'list':
            S = sort_of(t)
            n = ev(S.n(e))
            n = n.as_long() if z3.is_int_value(n) else 0
            n = max(0, min(n, 12))
            return [self.conc_expr(m, z3.Select(S.arr(e), i), t.args[0], depth + 1) for i in range(n)]
        if k in ('dict', 'set'):
            S = sort_of(t)
            n = ev(S.n(e))
            n = n.as_long() if z3.is_int_value(n) else 0
            n = max(0, min(n, 12))
            items = []
            for i in range(n):
                key = z3.Select(S.keys(e), i)
                kk = self.conc_expr(m, key, t.args[0], depth + 1)
                if k == 'dict':
                    items.append([kk, self.conc_expr(m, z3.Select(S.val(e), key), t.args[1], depth + 1)])
                else:
                    items.append(kk)
            return {k: items}
        if k == 'map':
            # ghost total maps: sample the first few integer points
            if t.args[0].kind == 'int':
                return {'map': [self.conc_expr(m, z3.Select(e, i), t.args[1], depth + 1) for i in range(6)]}
            return '<map>'
        return '<%s>' % k


def pack_cell(c):
    S = sort_of(c.t)
    if isinstance(c, ListC):
        return S.mk(c.arr, c.n)
    if isinstance(c, DictC):
        return S.mk(c.dom, c.val, c.keys, c.pos, c.n)
    return S.mk(c.dom, c.keys, c.pos, c.n)


def is_pure_arith(e, _seen=None):
    """quantifier-free, only Bool/Int/Real constants and arithmetic / boolean connectives"""
    if _seen is None:
        _seen = set()
    stack = [e]
    while stack:
        x = stack.pop()
        if x.get_id() in _seen:
            continue
        _seen.add(x.get_id())
        if z3.is_quantifier(x) or z3.is_var(x):
            return False
        if not z3.is_app(x):
            return False
        srt = x.sort().kind()
        if srt not in (z3.Z3_BOOL_SORT, z3.Z3_INT_SORT, z3.Z3_REAL_SORT):
            return False
        k = x.decl().kind()
        if k == z3.Z3_OP_UNINTERPRETED and x.num_args() > 0:
            return False
        if k in (z3.Z3_OP_SELECT, z3.Z3_OP_STORE):
            return False
        stack.extend(x.children())
    return True


def has_int_vars(e):
    stack, seen = [e], set()
    while stack:
        x = stack.pop()
        if x.get_id() in seen:
            continue
        seen.add(x.get_id())
        if z3.is_const(x) and x.decl().kind() == z3.Z3_OP_UNINTERPRETED and x.sort().kind() == z3.Z3_INT_SORT:
            return True
        stack.extend(x.children())
    return False


ARITH_OPS = {z3.Z3_OP_ADD, z3.Z3_OP_SUB, z3.Z3_OP_MUL, z3.Z3_OP_DIV, z3.Z3_OP_IDIV, z3.Z3_OP_MOD, z3.Z3_OP_REM, z3.Z3_OP_UMINUS,
             z3.Z3_OP_LE, z3.Z3_OP_LT, z3.Z3_OP_GE, z3.Z3_OP_GT, z3.Z3_OP_AND, z3.Z3_OP_OR, z3.Z3_OP_NOT, z3.Z3_OP_IMPLIES,
             z3.Z3_OP_ITE, z3.Z3_OP_TO_REAL, z3.Z3_OP_TO_INT, z3.Z3_OP_IFF, z3.Z3_OP_XOR, z3.Z3_OP_POWER}


def contains_quantifier(e):
    stack, seen = [e], set()
    while stack:
        x = stack.pop()
        if x.get_id() in seen:
            continue
        seen.add(x.get_id())
        if z3.is_quantifier(x):
            return True
        if z3.is_app(x):
            stack.extend(x.children())
    return False


def has_real_vars(e):
    stack, seen = [e], set()
    while stack:
        x = stack.pop()
        if x.get_id() in seen:
            continue
        seen.add(x.get_id())
        if z3.is_const(x) and x.decl().kind() == z3.Z3_OP_UNINTERPRETED and x.sort().kind() == z3.Z3_REAL_SORT:
            return True
        stack.extend(x.children())
    return False


def expand_select_store(e, _cache=None):
    """select(store(a, k, v), j)  ->  ite(j == k, v, select(a, j))   (read-over-write, applied bottom-up)"""
    if _cache is None:
        _cache = {}
    key = e.get_id()
    if key in _cache:
        return _cache[key]
    if z3.is_quantifier(e) or z3.is_var(e) or not z3.is_app(e) or e.num_args() == 0:
        _cache[key] = e
        return e
    ch = [expand_select_store(c, _cache) for c in e.children()]
    if e.decl().kind() == z3.Z3_OP_SELECT and len(ch) == 2:
        a, j = ch
        r = _sel(a, j)
    elif e.decl().kind() in (z3.Z3_OP_DT_ACCESSOR, z3.Z3_OP_DT_IS) and len(ch) == 1 and z3.is_app(ch[0]) and ch[0].decl().kind() == z3.Z3_OP_ITE:
        c, a, b = ch[0].children()
        r = z3.If(c, expand_select_store(e.decl()(a), _cache), expand_select_store(e.decl()(b), _cache))
    else:
        try:
            r = e.decl()(*ch)
        except Exception:
            r = e
    _cache[key] = r
    return r


def _sel(a, j):
    if z3.is_app(a) and a.decl().kind() == z3.Z3_OP_STORE and a.num_args() == 3:
        base, k, v = a.arg(0), a.arg(1), a.arg(2)
        return z3.If(j == k, v, _sel(base, j))
    return z3.Select(a, j)


def int_to_real(e, _cache=None):
    """relax integer-sorted constants to real-sorted ones (same names): a formula unsatisfiable over the reals
    is unsatisfiable over the integers"""
    if _cache is None:
        _cache = {}
    k = e.get_id()
    if k in _cache:
        return _cache[k]
    if z3.is_int_value(e):
        r = z3.RealVal(e.as_long())
    elif z3.is_const(e) and e.decl().kind() == z3.Z3_OP_UNINTERPRETED and e.sort().kind() == z3.Z3_INT_SORT:
        r = z3.Real('r!' + e.decl().name())
    elif z3.is_app(e) and e.num_args() > 0:
        ch = [int_to_real(c, _cache) for c in e.children()]
        dk = e.decl().kind()
        if dk == z3.Z3_OP_TO_REAL:
            r = ch[0]
        elif dk in (z3.Z3_OP_IDIV, z3.Z3_OP_MOD, z3.Z3_OP_REM, z3.Z3_OP_TO_INT):
            raise z3.Z3Exception('integer-only operator')
        elif dk == z3.Z3_OP_ADD:
            r = ch[0]
            for c in ch[1:]:
                r = r + c
        elif dk == z3.Z3_OP_MUL:
            r = ch[0]
            for c in ch[1:]:
                r = r * c
        elif dk == z3.Z3_OP_SUB:
            r = ch[0]
            for c in ch[1:]:
                r = r - c
        elif dk == z3.Z3_OP_UMINUS:
            r = -ch[0]
        elif dk == z3.Z3_OP_LE:
            r = ch[0] <= ch[1]
        elif dk == z3.Z3_OP_LT:
            r = ch[0] < ch[1]
        elif dk == z3.Z3_OP_GE:
            r = ch[0] >= ch[1]
        elif dk == z3.Z3_OP_GT:
            r = ch[0] > ch[1]
        elif dk == z3.Z3_OP_EQ:
            r = ch[0] == ch[1]
        elif dk == z3.Z3_OP_DISTINCT:
            r = z3.Distinct(*ch)
        elif dk == z3.Z3_OP_ITE:
            r = z3.If(ch[0], ch[1], ch[2])
        else:
            r = e.decl()(*ch)
    else:
        r = e
    _cache[k] = r
    return r
