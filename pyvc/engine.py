"""pyvc.engine -- the verifier: generates and discharges the obligations of one function."""
import ast, time, traceback
import z3
from .ty import *
from .state import *
from . import state as _state
from .spec import REG
from .source import Index
from .evalx import EvalMixin, PathEnd
from .execs import ExecMixin, Outcome
from .calls import CallMixin, loop_ordinals
from .builtins import BuiltinMixin


def _in_init(self, cls):
    return bool(self.fnqual) and self.fnqual.endswith('.__init__')


State.in_init = _in_init
State.spec_ghost = property(lambda self: True)


class Result:
    def __init__(self, fn):
        self.fn = fn
        self.status = None          # proved / failed / undecided / out-of-subset / contract-out-of-date / error
        self.obligations = []       # dicts
        self.reason = None
        self.time = 0.0
        self.paths = 0
        self.inlined = []
        self.contracts_used = []
        self.externals_used = []
        self.vacuity = {}
        self.sha = None

    def as_dict(self):
        return dict(self.__dict__)


class Engine(EvalMixin, ExecMixin, CallMixin, BuiltinMixin):

    def __init__(self, index=None, timeout_ms=20000, feas_ms=300):
        self.index = index or Index()
        self.timeout_ms = timeout_ms
        self.feas_budget_ms = feas_ms
        self.reset()

    def reset(self):
        self.obligations = []
        self.trivial = 0
        self.steps = 0
        self.max_steps = 60000
        self.pending_raises = [[]]
        self.fn_spec_stack = []
        self.loop_ordinals_stack = []
        self.suppress_obligations = False
        self.current_fn = None
        self.verifying = None
        self.inlined = set()
        self.contracts_used = set()
        self.externals_used = set()
        self.config_flags = {}
        self.feas_calls = 0
        self.hint_elem_type = None
        self.hint_dict_type = None
        self.hint_set_type = None
        self.global_axioms = None

    # ------------------------------------------------------------------ statement wrapper collecting raises
    def ex(self, s, st):
        self.pending_raises.append([])
        try:
            outs = list(ExecMixin.ex(self, s, st))
        finally:
            raises = self.pending_raises.pop()
        for r in raises:
            yield r
        yield from outs

    # ------------------------------------------------------------------ axioms
    def axioms(self):
        """registered axioms as closed z3 formulas (assumed: they are listed in the trusted base)"""
        out = []
        for name, vars_, body, src in REG.axioms:
            st = State()
            st.spec = True
            bv = []
            for v, t in vars_.items():
                c = fresh_const(v, sort_of(t))
                bv.append(c)
                st.env[v] = unpack(st, c, t)
            f = self.truth(self.ev1(body, st), st)
            out.append((name, z3.ForAll(bv, f) if bv else f))
        return out

    # ------------------------------------------------------------------ function verification
    def build_initial_state(self, fi, spec):
        st = State()
        st.module = fi.module
        st.cls = fi.cls.qual if fi.cls else None
        st.fnqual = fi.qual
        a = fi.node.args
        names = [x.arg for x in a.posonlyargs + a.args + a.kwonlyargs]
        for n in names:
            if n == 'self' and fi.cls is not None and 'self' not in spec.params:
                cs = REG.cls(fi.cls.qual)
                if cs is None:
                    raise SpecError('no class spec for %s' % fi.cls.qual)
                t = Ty('obj', (), cs.name)
                if fi.node.name == '__init__':
                    st.env[n] = Ref(st.alloc(ObjC(cs.qual, {})), t)
                else:
                    st.env[n] = fresh_value(st, t, 'self')
                continue
            if n not in spec.params:
                raise SpecError('parameter %s of %s has no declared type' % (n, fi.qual))
            st.env[n] = fresh_value(st, spec.params[n], n)
        return st

    def verify(self, qual):
        """-> Result.  Generates all obligations of `qual` against its contract and discharges them."""
        t0 = time.time()
        self.reset()
        res = Result(qual)
        self.current_fn = qual
        self.verifying = qual
        fi = self.index.fns.get(qual)
        spec = REG.fns.get(qual)
        if fi is None or spec is None:
            res.status = 'contract-out-of-date'
            res.reason = 'function %s not found in the source' % qual if fi is None else 'no contract'
            return res
        res.sha = fi.sha()
        try:
            self.generate(fi, spec, res)
        except OutOfSubset as e:
            res.status = 'out-of-subset'
            res.reason = str(e)
            res.time = time.time() - t0
            return res
        except SpecError as e:
            res.status = 'contract-out-of-date'
            res.reason = str(e)
            res.time = time.time() - t0
            return res
        except Exception as e:
            res.status = 'error'
            res.reason = traceback.format_exc()
            res.time = time.time() - t0
            return res
        self.discharge(res)
        res.inlined = sorted(self.inlined)
        res.contracts_used = sorted(self.contracts_used)
        res.externals_used = sorted(self.externals_used)
        res.time = time.time() - t0
        return res

    def generate(self, fi, spec, res):
        st = self.build_initial_state(fi, spec)
        self.axiom_list = self.axioms()
        for _, ax in self.axiom_list:
            st.assume(ax)
        ss = st.fork()
        ss.spec = True
        self.eval_lets(spec, ss)
        st.env.update({k: v for k, v in ss.env.items() if k in spec.lets})
        for r in spec.requires:
            st.assume(self.spec_eval_bool(r, st))
        # vacuity guard: the precondition must be satisfiable
        s = z3.Solver()
        s.set('timeout', 10000)
        s.add(st.pc)
        rq = s.check()
        res.vacuity['requires_sat'] = str(rq)
        if rq == z3.unsat:
            raise SpecError('precondition of %s is unsatisfiable (vacuous contract)' % fi.qual)
        old = (dict(st.env), dict(st.store))
        st.old = old
        for g in spec.ghost_entry:
            self.run_ghost(g, st)
        self.fn_spec_stack.append(spec)
        self.loop_ordinals_stack.append(loop_ordinals(fi.node))
        self.hint_dict_type = None
        try:
            outs = list(self.ex_block(fi.node.body, st))
        finally:
            self.fn_spec_stack.pop()
            self.loop_ordinals_stack.pop()
        outs = self.pending_raises[0] + outs
        self.pending_raises[0] = []
        res.paths = len(outs)
        n_normal = 0
        for o in outs:
            e = o.st
            e.old = old
            if o.kind in ('return', 'normal'):
                n_normal += 1
                val = o.val if o.kind == 'return' else NONEV
                self.check_exit(fi, spec, e, val)
            elif o.kind == 'raise':
                self.check_raise(fi, spec, e, o.val)
            else:
                raise OutOfSubset('break/continue outside loop')
        res.vacuity['normal_exits'] = n_normal

    def exit_env(self, spec, e, val):
        ps = e.fork()
        ps.spec = True
        # parameters keep their entry binding in postconditions (Python rebinding of a parameter is local)
        for k, v in e.old[0].items():
            ps.env[k] = v
        for k, v in e.env.items():
            if k not in ps.env:
                ps.env[k] = v
        if spec.returns is not None:
            val = self.coerce_to(ps, val, spec.returns)
        ps.env['result'] = val
        ps.store = e.store
        return ps

    def check_exit(self, fi, spec, e, val):
        # ghost code at exit runs on the exit state with parameters visible
        if spec.ghost_exit:
            keep = dict(e.env)
            for k, v in e.old[0].items():
                e.env[k] = v
            e.env['result'] = val
            for g in spec.ghost_exit:
                self.run_ghost(g, e)
            e.env = keep
        ps = self.exit_env(spec, e, val)
        self.eval_lets_post(spec, ps)
        # a declared exception condition must not hold on a normal exit (raises is an iff)
        os_ = ps.fork()
        os_.env, os_.store = dict(e.old[0]), e.old[1]
        os_.spec = True
        self.eval_lets(spec, os_)
        for exc, cond in spec.raises.items():
            c = self.truth(self.ev1(cond, os_), os_)
            self.oblige(e, z3.Not(c), 'raises', 'raises:%s-must-raise' % exc, fi.node)
        if spec.returns is not None and spec.returns.kind != 'opt' and isinstance(self.lift(val), (NoneV, OptV)):
            v = self.lift(val)
            self.oblige(e, z3.BoolVal(False) if isinstance(v, NoneV) else z3.Not(v.none), 'ensures', 'result-not-None', fi.node)
        for j, en in enumerate(spec.ensures):
            g = self.truth(self.ev1(en, ps), ps)
            self.oblige(e, g, 'ensures', 'ensures[%d]' % j, fi.node)
        self.check_frame(fi, spec, e)

    def eval_lets_post(self, spec, ps):
        pass

    def check_raise(self, fi, spec, e, exc):
        if exc not in spec.raises:
            self.oblige(e, z3.BoolVal(False), 'raises', 'raises:unexpected-%s' % exc, fi.node)
            return
        os_ = e.fork()
        os_.env, os_.store = dict(e.old[0]), e.old[1]
        os_.spec = True
        self.eval_lets(spec, os_)
        c = self.truth(self.ev1(spec.raises[exc], os_), os_)
        self.oblige(e, c, 'raises', 'raises:%s-only-if' % exc, fi.node)
        ps = self.exit_env(spec, e, NONEV)
        for j, en in enumerate(spec.on_raise):
            self.oblige(e, self.truth(self.ev1(en, ps), ps), 'ensures', 'on_raise[%d]' % j, fi.node)

    def check_frame(self, fi, spec, e):
        """everything reachable from the parameters that is not listed in `modifies` is unchanged"""
        old_env, old_store = e.old
        mod = set(spec.modifies)
        for pname, pv in old_env.items():
            if not isinstance(pv, Ref):
                continue
            oc = old_store.get(pv.id)
            if isinstance(oc, ObjC):
                if fi.node.name == '__init__' and pname == 'self':
                    continue
                if pname + '.*' in mod:
                    continue
                nc = e.store[pv.id]
                for f, ov in oc.fields.items():
                    path = '%s.%s' % (pname, f)
                    if path in mod:
                        continue
                    nv = nc.fields.get(f)
                    self.frame_eq(e, ov, nv, old_store, 'frame:%s' % path, fi)
                for f in nc.fields:
                    if f not in oc.fields and ('%s.%s' % (pname, f)) not in mod:
                        self.oblige(e, z3.BoolVal(False), 'frame', 'frame:%s.%s-created' % (pname, f), fi.node)
            elif oc is not None and pname not in mod:
                self.frame_eq(e, pv, pv, old_store, 'frame:%s' % pname, fi)

    def frame_eq(self, e, ov, nv, old_store, label, fi):
        if ov is nv and not isinstance(ov, Ref):
            return
        so = e.fork()
        so.store = dict(old_store)
        so.spec = True
        sn = e.fork()
        sn.spec = True
        ov, nv = self.lift(ov), self.lift(nv)
        if isinstance(ov, Ref) and isinstance(nv, Ref):
            if ov.id != nv.id:
                self.oblige(e, z3.BoolVal(False), 'frame', label + '-rebound', fi.node)
                return
            oc, nc = old_store[ov.id], e.store[nv.id]
            if oc is nc:
                return
            if isinstance(oc, ObjC):
                return     # nested objects: not part of the frame unless listed (checked through their own params)
            # structural equality between old and new cell contents
            tmp_o = Ref(so.alloc(oc), ov.t)
            so.store[tmp_o.id] = oc
            merged = e.fork()
            merged.spec = True
            merged.store = dict(e.store)
            merged.store[tmp_o.id] = oc
            g = self.eq(tmp_o, nv, merged)
            self.oblige(e, g, 'frame', label, fi.node)
            return
        if isinstance(ov, OptV) and isinstance(nv, OptV):
            if isinstance(ov.val, Ref) or isinstance(nv.val, Ref):
                self.oblige(e, ov.none == nv.none, 'frame', label + '-noneness', fi.node)
                if isinstance(ov.val, Ref) and isinstance(nv.val, Ref):
                    sub = e.fork()
                    sub.pc.append(z3.Not(ov.none))
                    self.frame_eq(sub, ov.val, nv.val, old_store, label, fi)
                return
        try:
            g = self.eq(ov, nv, sn)
        except OutOfSubset:
            return
        self.oblige(e, g, 'frame', label, fi.node)

    # ------------------------------------------------------------------ solving
    def discharge(self, res):
        groups = {}
        for ob in self.obligations:
            groups.setdefault(ob.name, []).append(ob)
        all_ok = True
        any_fail = False
        for name, obs in groups.items():
            rec = {'name': name, 'kind': obs[0].kind, 'instances': len(obs), 'status': 'discharged', 'time': 0.0,
                   'backend': 'z3', 'where': obs[0].where}
            for ob in obs:
                t0 = time.time()
                status, model = self.solve(ob)
                rec['time'] += time.time() - t0
                if status == 'unsat':
                    continue
                if status == 'sat':
                    rec['status'] = 'failed'
                    rec['model'] = model
                    rec['path'] = list(ob.path)
                    any_fail = True
                    break
                rec['status'] = 'unknown'
                rec['path'] = list(ob.path)
                all_ok = False
            res.obligations.append(rec)
        if any_fail:
            res.status = 'failed'
        elif not all_ok:
            res.status = 'undecided'
        else:
            res.status = 'proved'
        if not res.obligations:
            res.status = 'undecided'
            res.reason = 'no obligations generated (vacuity guard)'

    def solve(self, ob):
        g = z3.simplify(ob.goal) if not z3.is_quantifier(ob.goal) else ob.goal
        if z3.is_true(g):
            return 'unsat', None
        # 1st attempt: E-matching only (Boogie-style; stable on verification conditions)
        s = z3.Solver()
        s.set('timeout', max(2000, self.timeout_ms // 2))
        s.set('auto_config', False)
        s.set('smt.mbqi', False)
        s.add(ob.pc)
        s.add(z3.Not(ob.goal))
        r = s.check()
        if r == z3.unsat:
            return 'unsat', None
        # 2nd attempt: default configuration (MBQI on): can also produce counter-models
        s = z3.Solver()
        s.set('timeout', self.timeout_ms)
        s.add(ob.pc)
        s.add(z3.Not(ob.goal))
        r = s.check()
        if r == z3.unsat:
            return 'unsat', None
        if r == z3.sat:
            m = s.model()
            return 'sat', self.model_summary(m)
        return 'unknown', None

    def model_summary(self, m):
        out = {}
        for d in m.decls():
            try:
                v = m[d]
                s = str(v)
                if len(s) < 200:
                    out[d.name()] = s
            except Exception:
                pass
        return out
