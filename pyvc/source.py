"""pyvc.source -- index of the real source under /repo/mouette (parsed on every run)."""
import ast, os, hashlib

REPO = os.environ.get('PYVC_REPO', '/repo')


class FnInfo:
    def __init__(self, qual, node, module, cls, path):
        self.qual, self.node, self.module, self.cls, self.path = qual, node, module, cls, path
        self.is_property = any(isinstance(d, ast.Name) and d.id == 'property' for d in node.decorator_list)
        self.is_static = any(isinstance(d, ast.Name) and d.id == 'staticmethod' for d in node.decorator_list)
        self.is_classmethod = any(isinstance(d, ast.Name) and d.id == 'classmethod' for d in node.decorator_list)
        self.is_setter = any(isinstance(d, ast.Attribute) and d.attr == 'setter' for d in node.decorator_list)

    def sha(self):
        return hashlib.sha256(ast.dump(self.node).encode()).hexdigest()[:16]


class ClassInfo:
    def __init__(self, qual, node, module, path):
        self.qual, self.node, self.module, self.path = qual, node, module, path
        self.methods = {}
        self.bases = []     # names as written
        self.nested = {}


class Index:
    def __init__(self, root=None):
        self.root = root or REPO
        self.fns = {}        # qual -> FnInfo
        self.classes = {}    # qual -> ClassInfo
        self.by_name = {}    # bare name -> [qual]
        self.modules = {}    # module name -> ast.Module
        self.module_names = {}   # module -> {local name -> ('fn'|'class'|'import', target)}
        self.files = {}
        self._load()

    def _load(self):
        base = os.path.join(self.root, 'mouette')
        for dp, dn, fnames in os.walk(base):
            for f in fnames:
                if not f.endswith('.py'):
                    continue
                path = os.path.join(dp, f)
                rel = os.path.relpath(path, self.root)
                mod = rel[:-3].replace(os.sep, '.')
                if mod.endswith('.__init__'):
                    mod = mod[:-9]
                src = open(path, encoding='utf-8').read()
                try:
                    import warnings
                    with warnings.catch_warnings():
                        warnings.simplefilter('ignore')
                        tree = ast.parse(src)
                except SyntaxError:
                    continue
                self.modules[mod] = tree
                self.files[mod] = (path, hashlib.sha256(src.encode()).hexdigest())
                self._scan(tree.body, mod, None, path, mod)

    def _scan(self, body, prefix, cls, path, module):
        for node in body:
            if isinstance(node, (ast.FunctionDef,)):
                q = prefix + '.' + node.name
                fi = FnInfo(q, node, module, cls, path)
                if fi.is_setter:
                    q = q + '.setter'
                    fi.qual = q
                self.fns[q] = fi
                self.by_name.setdefault(node.name, []).append(q)
                if cls is not None:
                    key = node.name + ('.setter' if fi.is_setter else '')
                    cls.methods[key] = fi
            elif isinstance(node, ast.ClassDef):
                q = prefix + '.' + node.name
                ci = ClassInfo(q, node, module, path)
                ci.bases = [ast.unparse(b) for b in node.bases]
                self.classes[q] = ci
                self.by_name.setdefault(node.name, []).append(q)
                if cls is not None:
                    cls.nested[node.name] = ci
                self._scan(node.body, q, ci, path, module)

    # ------------------------------------------------------------------ lookups
    def resolve_class(self, name, module=None, within=None):
        """bare or dotted class name -> ClassInfo"""
        if name in self.classes:
            return self.classes[name]
        if within is not None and name in within.nested:
            return within.nested[name]
        if module:
            q = module + '.' + name
            if q in self.classes:
                return self.classes[q]
        last = name.split('.')[-1]
        cands = [q for q in self.by_name.get(last, []) if q in self.classes and q.endswith(name)]
        if module:
            loc = [q for q in cands if q.startswith(module + '.')]
            if len(loc) == 1:
                return self.classes[loc[0]]
        # prefer top-level classes
        top = [q for q in cands if q.count('.') == self.classes[q].module.count('.') + 1]
        if len(top) == 1:
            return self.classes[top[0]]
        if len(cands) == 1:
            return self.classes[cands[0]]
        return None

    def mro(self, ci):
        out, seen = [], set()

        def rec(c):
            if c.qual in seen:
                return
            seen.add(c.qual)
            out.append(c)
            for b in c.bases:
                bc = self.resolve_class(b, c.module)
                if bc is None and '.' in b:
                    bc = self.resolve_class(b.split('.')[-1], c.module)
                if bc is not None:
                    rec(bc)
        rec(ci)
        return out

    def find_method(self, ci, name):
        for c in self.mro(ci):
            if name in c.methods:
                return c.methods[name]
        return None

    def resolve_fn(self, name, module=None):
        if name in self.fns:
            return self.fns[name]
        if module and (module + '.' + name) in self.fns:
            return self.fns[module + '.' + name]
        cands = [q for q in self.by_name.get(name.split('.')[-1], []) if q in self.fns and self.fns[q].cls is None]
        if len(cands) == 1:
            return self.fns[cands[0]]
        if module:
            pk = module.rsplit('.', 1)[0]
            loc = [q for q in cands if q.startswith(pk)]
            if len(loc) == 1:
                return self.fns[loc[0]]
        return None
