"""pyvc.calls -- attribute access, call dispatch, contracts at call sites, inlining, builtins."""
import ast
import z3
from .ty import *
from .state import *
from .spec import REG
from .evalx import PathEnd, EnumV, ZipV, ItemsV, ValuesV, z3and
from .execs import Outcome

MAX_INLINE_DEPTH = 8


class CallMixin:

    # ------------------------------------------------------------------ classes / fields
    def class_info(self, qual):
        cs = REG.cls(qual)
        if cs is not None and getattr(cs, 'real', qual) != qual:
            qual = cs.real
        return self.index.classes.get(qual) or self.index.resolve_class(qual)

    def find_method_for(self, cls_qual, name):
        ci = self.class_info(cls_qual)
        if ci is None:
            return None
        return self.index.find_method(ci, name)

    def field_type(self, cls_qual, f):
        cs = REG.cls(cls_qual)
        if cs is None:
            return None
        seen = set()
        while cs is not None and cs.qual not in seen:
            seen.add(cs.qual)
            t = cs.all_fields().get(f)
            if t is not None:
                return t
            nxt = None
            for b in cs.bases:
                nxt = REG.cls(b)
                if nxt:
                    break
            cs = nxt
        return None

    def var_type_hint(self, name):
        fs = self.fn_spec_stack[-1] if self.fn_spec_stack else None
        if fs is not None:
            return fs.locals.get(name)
        return None


    def coerce_to(self, st, v, t):
        """make value v conform to declared type t (e.g. None / T -> opt[T])"""
        v = self.lift(v)
        if t is None:
            if isinstance(v, EmptyV):
                raise OutOfSubset('empty %s literal bound to a name without declared type (declare it in `locals`)' % v.kind)
            return v
        if isinstance(v, EmptyV):
            if t.kind == 'opt':
                return OptV(z3.BoolVal(False), self.coerce_to(st, v, t.args[0]), t)
            if t.kind != v.kind:
                raise OutOfSubset('empty %s literal where %r declared' % (v.kind, t))
            if t.kind == 'list':
                return new_list(st, t, z3.K(z3.IntSort(), fresh_const('d', sort_of(t.args[0]))), z3.IntVal(0))
            if t.kind == 'dict':
                return new_dict(st, t, empty=True)
            return new_set(st, t, empty=True)
        if t.kind == 'opt':
            if isinstance(v, NoneV):
                return OptV(z3.BoolVal(True), self.dummy(st, t.args[0]), t)
            if isinstance(v, OptV):
                return OptV(v.none, v.val, t)
            return OptV(z3.BoolVal(False), self.coerce_to(st, v, t.args[0]), t)
        if t.kind == 'sort' and isinstance(v, SV) and v.t.kind == 'int':
            return self.embed_int(st, v.e, t)
        if t.kind == 'list' and t.args[0].kind == 'sort' and isinstance(v, RangeV):
            # range(a, b) passed where a collection of abstract elements is expected: element j is the embedding of a + j
            lo, hi, step = self.num(v.start, st)[0], self.num(v.stop, st)[0], z3.simplify(self.num(v.step, st)[0])
            if not (z3.is_int_value(step) and step.as_long() == 1):
                raise OutOfSubset('range with a step where %r declared' % (t,))
            n = fresh_const('emb_n', z3.IntSort())
            st.assume(n == z3.If(hi >= lo, hi - lo, 0))
            arr = fresh_const('emb_arr', z3.ArraySort(z3.IntSort(), sort_of(t.args[0])))
            j = fresh_const('q', z3.IntSort())
            st.assume(z3.ForAll([j], z3.Implies(z3.And(0 <= j, j < n), z3.Select(arr, j) == self.embed_int(st, lo + j, t.args[0]).e)))
            return new_list(st, t, arr, n)
        if t.kind == 'real' and isinstance(v, SV) and v.t.kind in ('int', 'bool'):
            return SV(REAL, pack(st, v, REAL))
        if t.kind == 'int' and isinstance(v, SV) and v.t.kind == 'bool':
            return SV(INT, pack(st, v, INT))
        if t.kind == 'tuple' and isinstance(v, TupV) and len(t.args) == len(v.items):
            return TupV([self.coerce_to(st, x, a) for x, a in zip(v.items, t.args)], v.cls)
        if t.kind in ('list', 'dict', 'set') and isinstance(v, Ref):
            c = st.store[v.id]
            if c.t != t:
                if isinstance(c, ListC):
                    if z3.is_int_value(z3.simplify(c.n)) and z3.simplify(c.n).as_long() == 0:
                        st.store[v.id] = ListC(t, z3.K(z3.IntSort(), fresh_const('d', sort_of(t.args[0]))), c.n, c.parent)
                        return Ref(v.id, t)
                    e = pack(st, v, t)
                    S = sort_of(t)
                    st.store[v.id] = ListC(t, S.arr(e), S.n(e), c.parent)
                    return Ref(v.id, t)
                raise OutOfSubset('container of type %r where %r declared' % (c.t, t))
        return v

    def embed_int(self, st, e, t):
        """An integer used where the abstract element sort `t` is declared (contracts proved for an uninterpreted element
        sort hold for every element type, in particular for integers): the injective embedding inj_t : Int -> t."""
        S = sort_of(t)
        inj = z3.Function('inj_%s' % t.name, z3.IntSort(), S)
        uninj = z3.Function('uninj_%s' % t.name, S, z3.IntSort())
        i = fresh_const('q', z3.IntSort())
        ax = z3.ForAll([i], uninj(inj(i)) == i, patterns=[inj(i)])
        st.assume(ax)
        self.externals_used.add('integers embedded into the abstract element sort %s by an injective function (contracts over %s are parametric in the element type)' % (t.name, t.name))
        return SV(t, inj(e))

    def dummy(self, st, t):
        sub = State()
        sub.store = st.store
        return fresh_value(sub, t, 'dummy') if t.kind not in ('list', 'dict', 'set', 'obj') else NONEV

    # ------------------------------------------------------------------ attribute access
    def getattr(self, v, attr, st, node):
        v = self.lift(v)
        v = self.deopt(v, st, getattr(node, 'value', node))
        if isinstance(v, ModuleV):
            r = self.module_attr(v, attr, st)
            if r is None:
                raise OutOfSubset('%s.%s' % (v.name, attr))
            yield r, st
            return
        if isinstance(v, Ref):
            c = st.store[v.id]
            if isinstance(c, ObjC):
                if attr in c.fields:
                    yield c.fields[attr], st
                    return
                fi = self.find_method_for(c.cls, attr)
                if fi is not None:
                    if fi.is_property:
                        yield from self.call_fn(fi, [v], {}, st, node)
                    else:
                        yield FunV('qual', qual=fi.qual, self_=v), st
                    return
                cs = REG.cls(c.cls)
                if not st.spec:
                    self.safety(st, z3.BoolVal(False), 'attribute-exists:%s' % attr, node)
                    raise PathEnd()
                raise SpecError('no field %s on %s' % (attr, c.cls))
            # bound container methods
            yield FunV('cmeth', self_=v, qual=attr), st
            return
        if isinstance(v, ClassV):
            ci = self.class_info(v.qual)
            if ci is not None:
                for c_ in self.index.mro(ci):
                    if attr in c_.nested:
                        yield ClassV(c_.nested[attr].qual), st
                        return
                if attr in ci.nested:
                    yield ClassV(ci.nested[attr].qual), st
                    return
                fi = self.index.find_method(ci, attr)
                if fi is not None:
                    yield FunV('qual', qual=fi.qual), st
                    return
                # enum-like class constants
                for n in ci.node.body:
                    if isinstance(n, ast.Assign) and any(isinstance(t, ast.Name) and t.id == attr for t in n.targets):
                        yield self.lift(EnumConst(v.qual, attr)), st
                        return
            raise OutOfSubset('class attribute %s.%s' % (v.qual, attr))
        if isinstance(v, SV) and v.t.kind == 'tuple' and v.t.name:
            v = unpack(st, v.e, v.t)
        if isinstance(v, TupV) and v.cls == 'Complex' and attr in ('real', 'imag'):
            yield v.items[0 if attr == 'real' else 1], st
            return
        if isinstance(v, TupV) and v.cls == 'BVec' and attr in ('all', 'any'):
            conds = [self.truth(x, st) for x in v.items]
            val = SV(BOOL, z3.And(conds) if attr == 'all' else z3.Or(conds))
            yield FunV('lambda', ast.parse('lambda: __v', mode='eval').body, {'__v': val}), st
            return
        if isinstance(v, TupV) and v.cls in ('Vec', 'Mat'):
            if attr == 'size':
                yield mk_int(len(v.items)), st
                return
            if attr == 'shape':
                yield TupV([mk_int(len(v.items))] + ([mk_int(len(v.items[0].items))] if v.cls == 'Mat' else [])), st
                return
            if attr == 'flatten' and v.cls == 'Vec':
                yield FunV('lambda', ast.parse('lambda: __v', mode='eval').body, {'__v': v}), st
                return
            fi = self.find_method_for('mouette.geometry.vector.Vec', attr)
            if fi is not None and v.cls == 'Vec':
                if fi.is_property:
                    yield from self.call_fn(fi, [v], {}, st, node)
                else:
                    yield FunV('qual', qual=fi.qual, self_=(None if fi.is_static else v)), st
                return
            raise OutOfSubset('Vec.%s' % attr)
        if isinstance(v, TupV) and v.cls is not None:
            names = VALUE_FIELDS[v.cls]
            if attr in names:
                yield v.items[names.index(attr)], st
                return
            cs = REG.cls(v.cls)
            fi = self.find_method_for(cs.qual, attr)
            if fi is not None:
                if fi.is_property:
                    yield from self.call_fn(fi, [v], {}, st, node)
                else:
                    yield FunV('qual', qual=fi.qual, self_=v), st
                return
            self.safety(st, z3.BoolVal(False), 'attribute-exists:%s' % attr, node)
            raise PathEnd()
        if isinstance(v, TupV) or isinstance(v, SV):
            yield FunV('cmeth', self_=v, qual=attr), st
            return
        raise OutOfSubset('attribute %s of %r' % (attr, v))

    def setattr(self, o, attr, v, st, node):
        o = self.deopt(self.lift(o), st, node)
        if isinstance(o, Ref) and isinstance(st.store[o.id], ObjC):
            c = st.store[o.id]
            t = self.field_type(c.cls, attr)
            if attr not in c.fields and t is None:
                fi = self.find_method_for(c.cls, attr + '.setter')
                if fi is not None:
                    for _, st1 in self.call_fn(fi, [o, v], {}, st, node):
                        yield Outcome('normal', st1)
                    return
                if not st.in_init(c.cls):
                    raise OutOfSubset('assignment to undeclared field %s.%s' % (c.cls, attr))
            nf = dict(c.fields)
            nf[attr] = self.coerce_to(st, v, t)
            st.store[o.id] = ObjC(c.cls, nf)
            st.record_write(('field', o.id, attr))
            yield Outcome('normal', st)
            return
        raise OutOfSubset('setattr on %r' % (o,))

    # ------------------------------------------------------------------ globals
    EXTERNAL_MODULES = {'cmath': 'cmath', 'np': 'numpy', 'numpy': 'numpy', 'math': 'math', 'hq': 'heapq', 'heapq': 'heapq', 'cmath': 'cmath',
                        'sp': 'scipy', 'scipy': 'scipy', 'deque': None}

    def resolve_global(self, name, st):
        if name in REG.sorts:
            return SortV(name)
        from .ty import _VALUE_CLASSES
        if name in _VALUE_CLASSES and st.spec:
            return SortV(name, _VALUE_CLASSES[name])
        if name == 'Int' and st.spec:
            return SortV('Int', INT)
        if name in ('True', 'False'):
            return mk_bool(name == 'True')
        if name == 'pi':
            from .numeric import PI as _PI
            st.assume(z3.And(_PI > z3.RealVal('3.14159'), _PI < z3.RealVal('3.1416')))
            return SV(REAL, _PI)
        if name in self.EXTERNAL_MODULES and self.EXTERNAL_MODULES[name]:
            return ModuleV(self.EXTERNAL_MODULES[name])
        if name in BUILTIN_NAMES or name in REG.predicates or name in REG.ufuncs:
            return FunV('builtin', qual=name)
        if name in self.external_names:
            return FunV('builtin', qual=name)
        if name == 'utils':
            return ModuleV('mouette.utils')
        if name in ('geom', 'geometry') and st.module and st.module.startswith('mouette.'):
            return ModuleV('mouette.geometry')       # `from .. import geometry as geom`
        # module-local, then unique global
        ci = self.index.resolve_class(name, st.module)
        if ci is not None:
            return ClassV(ci.qual)
        fi = self.index.resolve_fn(name, st.module)
        if fi is not None:
            return FunV('qual', qual=fi.qual)
        if name in ('config',):
            return ModuleV('mouette.config')
        # module-level constants
        mod = self.index.modules.get(st.module)
        if mod is not None:
            for n in mod.body:
                if isinstance(n, ast.Assign) and any(isinstance(t, ast.Name) and t.id == name for t in n.targets):
                    if isinstance(n.value, ast.Constant):
                        return self.lift(n.value.value)
        if name in self.external_names:
            return FunV('builtin', qual=name)
        return None

    def module_attr(self, m, attr, st):
        key = m.name + '.' + attr
        if key in self.external_fns:
            return FunV('builtin', qual=key)
        if m.name == 'mouette.geometry':
            fi = self.index.resolve_fn(attr, 'mouette.geometry.geometry')
            if fi is not None:
                return FunV('qual', qual=fi.qual)
        if m.name == 'scipy':
            # `import scipy.sparse as sp`: library constructors with a *trusted* contract in the specs (assumption A-scipy)
            q = 'scipy.sparse.' + attr
            spec = REG.fns.get(q)
            if spec is not None and spec.trusted:
                if q not in self.index.fns:
                    from .source import FnInfo
                    src = 'def %s(%s): pass' % (attr, ', '.join(n if i == 0 else n + '=None' for i, n in enumerate(spec.params)))
                    self.index.fns[q] = FnInfo(q, ast.parse(src).body[0], 'scipy.sparse', None, '<external>')
                self.externals_used.add('%s (trusted contract in specs: %s)' % (q, spec.note or ''))
                return FunV('qual', qual=q)
        if m.name == 'mouette.config':
            return self.config_flag(attr, st)
        if m.name == 'mouette.utils' and attr in self.external_names:
            return FunV('builtin', qual=attr)
        if m.name == 'math' and attr == 'pi' or m.name == 'numpy' and attr == 'pi':
            from .numeric import PI as _PI
            st.assume(z3.And(_PI > z3.RealVal('3.14159'), _PI < z3.RealVal('3.1416')))
            return SV(REAL, _PI)
        if m.name in ('math', 'numpy') and attr == 'inf':
            return SV(REAL, INF)
        return None

    def config_flag(self, attr, st):
        if attr not in self.config_flags:
            self.config_flags[attr] = z3.Bool('config.' + attr)
        return SV(BOOL, self.config_flags[attr])

    # ------------------------------------------------------------------ calls
    def ev_Call(self, e, st):
        if any(isinstance(a, ast.Starred) for a in e.args) or any(k.arg is None for k in e.keywords):
            # f(a, *seq): supported when the starred argument is last, the callee is a repository function of known
            # positional arity, and seq is a tuple / list; a list of symbolic length gets the obligation len(seq) == missing arity
            if any(k.arg is None for k in e.keywords) or any(isinstance(a, ast.Starred) for a in e.args[:-1]):
                raise OutOfSubset('*args / **kwargs call')
            star = e.args[-1]
            for fv, st1 in self.ev(e.func, st):
                fv = self.lift(fv)
                if not (isinstance(fv, FunV) and fv.kind == 'qual'):
                    raise OutOfSubset('*args call of %r' % (fv,))
                fi = self.index.fns[fv.qual]
                if fi.node.args.vararg is not None:
                    raise OutOfSubset('*args call of a variadic function')
                k = len(fi.node.args.args) - (1 if fv.self is not None else 0) - (len(e.args) - 1)
                for v, st2 in self.ev(star.value, st1):
                    v = self.lift(v)
                    if isinstance(v, SV) and v.t.kind in ('tuple', 'list'):
                        v = unpack(st2, v.e, v.t)
                    if isinstance(v, TupV):
                        if len(v.items) != k:
                            self.safety(st2, z3.BoolVal(False), 'star-arity', e)
                            continue
                        items = list(v.items)
                    elif isinstance(v, Ref) and isinstance(st2.store[v.id], ListC):
                        c = st2.store[v.id]
                        self.safety(st2, c.n == k, 'star-arity', e)
                        items = [unpack(st2, z3.Select(c.arr, i), c.t.args[0], parent=(v, z3.IntVal(i))) for i in range(k)]
                    else:
                        raise OutOfSubset('*args of %r' % (v,))
                    names = []
                    for i, it in enumerate(items):
                        nm = '__star%d_%d' % (getattr(e, 'lineno', 0), i)
                        st2.env[nm] = it
                        names.append(ast.copy_location(ast.Name(id=nm, ctx=ast.Load()), e))
                    e2 = ast.copy_location(ast.Call(func=e.func, args=list(e.args[:-1]) + names, keywords=e.keywords), e)
                    yield from self.ev_Call(e2, st2)
            return
        # spec-only / special forms evaluated on syntax
        if isinstance(e.func, ast.Name):
            n = e.func.id
            if n == 'old':
                if st.old is None:
                    raise SpecError('old() outside a two-state context')
                sub = st.fork()
                sub.env, sub.store = dict(st.old[0]), st.old[1]
                for k2, v2 in st.env.items():     # bound variables of quantifiers / lets stay visible
                    if k2 not in sub.env:
                        sub.env[k2] = v2
                sub.spec = True
                yield self.ev1(e.args[0], sub), st
                return
            if n in ('all', 'any') and len(e.args) == 1 and isinstance(e.args[0], (ast.GeneratorExp, ast.ListComp)):
                yield self.quantifier(n, e.args[0], st), st
                return
            if n == 'sum' and len(e.args) == 1 and isinstance(e.args[0], (ast.GeneratorExp, ast.ListComp)):
                g = e.args[0]
                # sum(len(x) for x in E): the total length of a list of rows, an uninterpreted function of E
                # characterised in contracts through prefix sums (A6: builtin sum)
                if (len(g.generators) == 1 and not g.generators[0].ifs and isinstance(g.generators[0].target, ast.Name)
                        and isinstance(g.elt, ast.Call) and isinstance(g.elt.func, ast.Name) and g.elt.func.id == 'len'
                        and len(g.elt.args) == 1 and isinstance(g.elt.args[0], ast.Name) and g.elt.args[0].id == g.generators[0].target.id):
                    for seq, st1 in self.ev(g.generators[0].iter, st):
                        seq = self.lift(seq)
                        if isinstance(seq, Ref) and isinstance(st1.store[seq.id], ObjC):
                            outs = list(self.getattr(seq, '_data', st1, e))
                            seq = outs[0][0]
                        if not (isinstance(seq, Ref) and isinstance(st1.store[seq.id], ListC)):
                            raise OutOfSubset('sum(len ..) over %r' % (seq,))
                        c = st1.store[seq.id]
                        f = z3.Function('total_len', sort_of(c.t), z3.IntSort())
                        self.externals_used.add('builtin sum (A6) as total_len(rows), characterised by prefix sums in the contract')
                        yield SV(INT, f(pack(st1, seq, c.t))), st1
                    return
                raise OutOfSubset('sum over generator')
            if n == 'total_len' and st.spec and len(e.args) == 1:
                seq = self.lift(self.ev1(e.args[0], st))
                c = st.store[seq.id]
                f = z3.Function('total_len', sort_of(c.t), z3.IntSort())
                yield SV(INT, f(pack(st, seq, c.t))), st
                return
            if n in REG.predicates and n not in st.env:
                params, body, _ = REG.predicates[n]
                for vs, st1 in self.ev_list(e.args, st):
                    sub = st1.fork()
                    sub.spec = True
                    sub.env = dict(st1.env)
                    for p, v in zip(params, vs):
                        sub.env[p] = v
                    yield self.ev1(body, sub), st1
                return
            if n == 'lam':
                # lam(lambda i: expr, 'int') -> ghost total map
                lamb = e.args[0]
                kt = parse_type(e.args[1].value) if len(e.args) > 1 else INT
                x = fresh_const('lx', sort_of(kt))
                sub = st.fork()
                sub.spec = True
                sub.env[lamb.args.args[0].arg] = unpack(sub, x, kt)
                body = self.lift(self.ev1(lamb.body, sub))
                vt = type_of(body)
                yield SV(Ty('map', [kt, vt]), z3.Lambda([x], pack(sub, body, vt))), st
                return
        for f, st1 in self.ev(e.func, st):
            for args, st2 in self.ev_list(e.args, st1):
                for kwv, st3 in self.ev_list([k.value for k in e.keywords], st2):
                    kwargs = {k.arg: v for k, v in zip(e.keywords, kwv)}
                    yield from self.call(f, args, kwargs, st3, e)

    def quantifier(self, kind, g, st):
        if len(g.generators) != 1:
            # nested generators: all(... for a in A for b in B) -> nest
            inner = ast.GeneratorExp(elt=g.elt, generators=g.generators[1:])
            call = ast.Call(func=ast.Name(id=kind, ctx=ast.Load()), args=[inner], keywords=[])
            g = ast.GeneratorExp(elt=call, generators=g.generators[:1])
        gen = g.generators[0]
        sub = st.fork()
        sub.spec = True
        dom = self.ev1(gen.iter, sub)
        bvars = []
        if isinstance(dom, SortV):
            t = dom.ty
            uni = finite_universe_of(t) if FINITE['K'] is not None else None
            if uni is not None:
                res = []
                for c in uni:
                    s2 = sub.fork()
                    self.bind_target(gen.target, unpack(s2, c, t), s2)
                    conds = [self.truth(self.ev1(c2, s2), s2) for c2 in gen.ifs]
                    body = self.truth(self.ev1(g.elt, s2), s2)
                    res.append(z3.Implies(z3and(conds), body) if kind == 'all' else z3.And(z3and(conds), body))
                return SV(BOOL, z3.And(res) if kind == 'all' else z3.Or(res))
            x = fresh_const('q', sort_of(t))
            bvars = [x]
            self.bind_target(gen.target, unpack(sub, x, t), sub)
            guard = z3.BoolVal(True)
        else:
            n, el = self.iter_domain(dom, sub, gen.iter)
            K = FINITE['K']
            if K is not None:
                # finite scope: expand (lengths are bounded by K in this mode; integer ranges are
                # restricted to [0, K+1) through a side constraint added to every finite check)
                res = []
                ld = self.lift(dom)
                is_range = isinstance(ld, RangeV)
                if is_range:
                    lo, hi = self.num(ld.start, sub)[0], self.num(ld.stop, sub)[0]
                    self.finite_side.append(z3.Or(hi <= lo, z3.And(lo >= 0, hi <= K + 1)))
                for c in range(K + 1 if is_range else K):
                    s2 = sub.fork()
                    ci = z3.IntVal(c)
                    if is_range:
                        self.bind_target(gen.target, SV(INT, ci), s2)
                        conds = [lo <= ci, ci < hi]
                    else:
                        self.bind_target(gen.target, el(ci), s2)
                        conds = [ci < n]
                    conds += [self.truth(self.ev1(c2, s2), s2) for c2 in gen.ifs]
                    body = self.truth(self.ev1(g.elt, s2), s2)
                    res.append(z3.Implies(z3and(conds), body) if kind == 'all' else z3.And(z3and(conds), body))
                return SV(BOOL, z3.And(res) if kind == 'all' else z3.Or(res))
            ld = self.lift(dom)
            if isinstance(ld, RangeV):
                lo_, hi_, st_ = (z3.simplify(self.num(x, sub)[0]) for x in (ld.start, ld.stop, ld.step))
                if z3.is_int_value(lo_) and z3.is_int_value(hi_) and z3.is_int_value(st_) and st_.as_long() == 1 \
                        and 0 <= hi_.as_long() - lo_.as_long() <= 12:
                    # a literal small range: expanded (ground instances instead of a quantifier)
                    res = []
                    for c in range(lo_.as_long(), hi_.as_long()):
                        s2 = sub.fork()
                        self.bind_target(gen.target, SV(INT, z3.IntVal(c)), s2)
                        conds = [self.truth(self.ev1(c2, s2), s2) for c2 in gen.ifs]
                        body = self.truth(self.ev1(g.elt, s2), s2)
                        res.append(z3.Implies(z3and(conds), body) if kind == 'all' else z3.And(z3and(conds), body))
                    return SV(BOOL, (z3.And(res) if kind == 'all' else z3.Or(res)) if res else z3.BoolVal(kind == 'all'))
            i = fresh_const('q', z3.IntSort())
            bvars = [i]
            if isinstance(ld, RangeV) and z3.is_int_value(z3.simplify(self.num(ld.step, sub)[0])) \
                    and z3.simplify(self.num(ld.step, sub)[0]).as_long() == 1:
                # direct form  lo <= i < hi  (no index arithmetic in the quantifier body)
                self.bind_target(gen.target, SV(INT, i), sub)
                guard = z3.And(self.num(ld.start, sub)[0] <= i, i < self.num(ld.stop, sub)[0])
            else:
                self.bind_target(gen.target, el(i), sub)
                guard = z3.And(0 <= i, i < n)
        conds = [self.truth(self.ev1(c, sub), sub) for c in gen.ifs]
        body = self.truth(self.ev1(g.elt, sub), sub)
        g2 = z3and([guard] + conds)
        if kind == 'all':
            return SV(BOOL, z3.ForAll(bvars, z3.Implies(g2, body)))
        return SV(BOOL, z3.Exists(bvars, z3.And(g2, body)))

    def call(self, f, args, kwargs, st, node):
        f = self.lift(f)
        if isinstance(f, FunV):
            if f.kind == 'builtin':
                yield from self.call_builtin(f.qual, args, kwargs, st, node)
                return
            if f.kind == 'cmeth':
                yield from self.call_container_method(f.self, f.qual, args, kwargs, st, node)
                return
            if f.kind == 'qual':
                fi = self.index.fns[f.qual]
                a = ([f.self] if f.self is not None else []) + list(args)
                yield from self.call_fn(fi, a, kwargs, st, node)
                return
            if f.kind in ('lambda', 'def'):
                yield from self.inline_closure(f, args, kwargs, st, node)
                return
        if isinstance(f, ClassV):
            yield from self.construct(f, args, kwargs, st, node)
            return
        if isinstance(f, SortV) and f.ty.kind == 'sort' and len(args) == 1:
            yield self.coerce_to(st, args[0], f.ty), st      # spec: Elt(i) -- the embedding of an integer
            return
        raise OutOfSubset('call of %r' % (f,))

    def call_method(self, recv, name, args, kwargs, st, node):
        c = st.store[recv.id]
        fi = self.find_method_for(c.cls, name)
        if fi is None:
            if not st.spec:
                self.safety(st, z3.BoolVal(False), 'method-exists:%s' % name, node)
                raise PathEnd()
            raise SpecError('no method %s' % name)
        yield from self.call_fn(fi, [recv] + list(args), kwargs, st, node)

    def record_lt(self, a, b, st, node):
        """a < b for records through the class's real __lt__ (inlined) -> z3 Bool"""
        cs = REG.cls(a.cls)
        fi = self.find_method_for(cs.qual, '__lt__')
        if fi is None:
            raise OutOfSubset('no __lt__ on %s' % a.cls)
        sub = st.fork()
        outs = list(self.inline_fn(fi, [a, b], {}, sub, node))
        if len(outs) != 1:
            raise OutOfSubset('__lt__ forks')
        return self.truth(outs[0][0], outs[0][1])

    def compare_obj(self, op, l, r, st, node):
        l, r = self.lift(l), self.lift(r)
        if (isinstance(l, TupV) and l.cls == 'Vec') or (isinstance(r, TupV) and r.cls == 'Vec'):
            from .numeric import as_vec
            n = len(l.items) if isinstance(l, TupV) and l.cls == 'Vec' else len(r.items)
            ls = l.items if isinstance(l, TupV) and l.cls == 'Vec' else [l] * n
            rs = r.items if isinstance(r, TupV) and r.cls == 'Vec' else [r] * n
            if len(ls) != len(rs):
                self.safety(st, z3.BoolVal(False), 'vector-shape', node)
                raise PathEnd()
            yield TupV([SV(BOOL, self.compare(op, a, b, st, node)) for a, b in zip(ls, rs)], 'BVec'), st
            return
        if isinstance(l, TupV) and l.cls is not None and isinstance(op, (ast.Lt, ast.Gt)):
            a, b = (l, r) if isinstance(op, ast.Lt) else (r, l)
            yield SV(BOOL, self.record_lt(a, b, st, node)), st
            return
        if isinstance(op, (ast.In, ast.NotIn)):
            for v, st1 in self.call_method(r, '__contains__', [l], {}, st, node):
                c = self.truth(v, st1)
                yield SV(BOOL, c if isinstance(op, ast.In) else z3.Not(c)), st1
            return
        name = {ast.Lt: '__lt__', ast.Gt: '__gt__', ast.LtE: '__le__', ast.GtE: '__ge__', ast.Eq: '__eq__', ast.NotEq: '__ne__'}[type(op)]
        for v, st1 in self.call_method(l, name, [r], {}, st, node):
            yield v, st1

    def bind_params(self, fnode, args, kwargs, st, defaults_env_state=None):
        """-> dict name -> value following Python's binding rules (positional, keyword, defaults)"""
        a = fnode.args
        if a.kwarg:
            raise OutOfSubset('**kwargs in signature')
        names = [x.arg for x in a.posonlyargs + a.args]
        env = {}
        if a.vararg:
            env[a.vararg.arg] = TupV(list(args[len(names):]))
            args = args[:len(names)]
        if len(args) > len(names):
            self.safety(st, z3.BoolVal(False), 'call-arity', fnode)
            raise PathEnd()
        for n, v in zip(names, args):
            env[n] = v
        for k, v in kwargs.items():
            if k in env or (k not in names and k not in [x.arg for x in a.kwonlyargs]):
                self.safety(st, z3.BoolVal(False), 'call-keyword:%s' % k, fnode)
                raise PathEnd()
            env[k] = v
        defaults = dict(zip(names[len(names) - len(a.defaults):], a.defaults))
        for x, d in zip(a.kwonlyargs, a.kw_defaults):
            if d is not None:
                defaults[x.arg] = d
        for n in names + [x.arg for x in a.kwonlyargs]:
            if n not in env:
                if n in defaults:
                    sub = st.fork()
                    sub.env = {}
                    env[n] = self.ev1(defaults[n], sub)
                else:
                    self.safety(st, z3.BoolVal(False), 'call-arity(missing %s)' % n, fnode)
                    raise PathEnd()
        return env

    def call_fn(self, fi, args, kwargs, st, node):
        """call of a repository function: contract if it has one (modular), else inline"""
        spec = REG.fns.get(fi.qual)
        if fi.is_setter:
            spec = REG.fns.get(fi.qual)
        if spec is not None and not spec.inline and not spec.call_inline:
            yield from self.apply_contract(fi, spec, args, kwargs, st, node)
            return
        yield from self.inline_fn(fi, args, kwargs, st, node)

    def inline_fn(self, fi, args, kwargs, st, node):
        if st.depth >= MAX_INLINE_DEPTH:
            raise OutOfSubset('inline depth exceeded at %s' % fi.qual)
        for d in fi.node.decorator_list:
            dn = ast.unparse(d)
            if not (dn in ('property', 'staticmethod', 'classmethod') or dn.endswith('.setter')
                    or dn.startswith('allowed_mesh_types') or dn.startswith('forbidden_mesh_types')):
                raise OutOfSubset('decorator %s on %s' % (dn, fi.qual))
        self.inlined.add(fi.qual)
        penv = self.bind_params(fi.node, args, kwargs, st)
        sub = st.fork()
        sub.env = penv
        if 'np_errstate' in st.env:
            sub.env['np_errstate'] = st.env['np_errstate']
        sub.depth = st.depth + 1
        sub.module = fi.module
        sub.cls = fi.cls.qual if fi.cls else None
        sub.fnqual = fi.qual
        self.fn_spec_stack.append(REG.fns.get(fi.qual))
        self.loop_ordinals_stack.append(loop_ordinals(fi.node))
        try:
            outs = list(self.ex_block(fi.node.body, sub))
        finally:
            self.fn_spec_stack.pop()
            self.loop_ordinals_stack.pop()
        for o in outs:
            back = o.st
            errst = back.env.get('np_errstate')
            back.env = dict(st.env)
            if errst is not None:
                back.env['np_errstate'] = errst
            back.depth = st.depth
            back.module, back.cls, back.fnqual = st.module, st.cls, st.fnqual
            if o.kind == 'raise':
                self.pending_raises[-1].append(Outcome('raise', back, o.val))
            elif o.kind == 'return':
                yield o.val, back
            elif o.kind == 'normal':
                yield NONEV, back
            else:
                raise OutOfSubset('break/continue escaping function')

    def inline_closure(self, f, args, kwargs, st, node):
        if st.depth >= MAX_INLINE_DEPTH:
            raise OutOfSubset('inline depth exceeded (closure)')
        fnode = f.node
        penv = self.bind_params(fnode, args, kwargs, st)
        sub = st.fork()
        env = dict(f.env)
        env.update(penv)
        sub.env = env
        sub.depth = st.depth + 1
        if f.kind == 'lambda':
            for v, st1 in self.ev(fnode.body, sub):
                st1.env = dict(st.env)
                st1.depth = st.depth
                yield v, st1
            return
        self.loop_ordinals_stack.append(loop_ordinals(fnode))
        self.fn_spec_stack.append(None)
        try:
            outs = list(self.ex_block(fnode.body, sub))
        finally:
            self.loop_ordinals_stack.pop()
            self.fn_spec_stack.pop()
        for o in outs:
            back = o.st
            back.env = dict(st.env)
            back.depth = st.depth
            if o.kind == 'raise':
                self.pending_raises[-1].append(Outcome('raise', back, o.val))
            elif o.kind == 'return':
                yield o.val, back
            else:
                yield NONEV, back

    def construct(self, cv, args, kwargs, st, node):
        if cv.qual == 'mouette.geometry.vector.Vec':
            from .numeric import construct_vec
            yield from construct_vec(self, args, kwargs, st, node)
            return
        ctor = REG.fns.get(cv.qual)
        if ctor is not None:
            # constructor contract (trusted or proved elsewhere): parameters in declared order
            names = list(ctor.params)
            penv = {}
            for n_, v_ in zip(names, args):
                penv[n_] = self.coerce_to(st, v_, ctor.params[n_])
            for k_, v_ in kwargs.items():
                penv[k_] = self.coerce_to(st, v_, ctor.params.get(k_))
            for n_ in names:
                if n_ not in penv:
                    penv[n_] = NONEV
            self.contracts_used.add(cv.qual)
            cs_ = st.fork()
            cs_.env = dict(penv)
            cs_.spec = True
            for j, r_ in enumerate(ctor.requires):
                g_ = self.spec_eval_bool(r_, cs_)
                self.oblige(st, g_, 'precondition', 'call:%s:requires[%d]' % (cv.qual.split('.')[-1], j), node)
                st.assume(g_)
            res = fresh_value(st, ctor.returns, 'new_%s' % cv.qual.split('.')[-1])
            ps = st.fork()
            ps.env = dict(penv)
            ps.env['result'] = res
            ps.spec = True
            ps.old = (dict(penv), dict(st.store))
            ps.store = st.store
            for en in ctor.ensures:
                st.assume(self.spec_eval_bool(en, ps))
            yield res, st
            return
        cs = REG.cls(cv.qual)
        ci = self.class_info(cv.qual)
        if ci is None:
            raise OutOfSubset('constructor of %s' % cv.qual)
        # value classes (dataclass-like): positional fields
        if cs is not None and cs.value:
            names = list(cs.fields)
            fields = {}
            for n, v in zip(names, args):
                fields[n] = self.coerce_to(st, v, cs.fields[n])
            for k, v in kwargs.items():
                fields[k] = self.coerce_to(st, v, cs.fields[k])
            if set(fields) != set(names):
                self.safety(st, z3.BoolVal(False), 'call-arity', node)
                raise PathEnd()
            yield TupV([fields[n] for n in names], cs.name), st
            return
        init = self.index.find_method(ci, '__init__')
        obj = Ref(st.alloc(ObjC(ci.qual, {})), Ty('obj', (), ci.qual.split('.')[-1]))
        if init is None:
            yield obj, st
            return
        for _, st1 in self.call_fn(init, [obj] + list(args), kwargs, st, node):
            yield obj, st1

    # ------------------------------------------------------------------ contracts at call sites
    def apply_contract(self, fi, spec, args, kwargs, st, node):
        self.contracts_used.add(fi.qual)
        penv = self.bind_params(fi.node, args, kwargs, st)
        for n, t in spec.params.items():
            if n in penv:
                penv[n] = self.coerce_to(st, penv[n], t)
        # logical parameters of the callee: its contract holds for *every* value of them, so the caller may pick one.
        # The instance is the caller's variable of the same name (ghost parameter or local), if any.
        for gname in spec.ghost_params:
            if gname in st.env:
                penv[gname] = st.env[gname]
            else:
                raise OutOfSubset('call of %s: no instance for its logical parameter %s in the caller' % (fi.qual, gname))
        cs = st.fork()
        cs.env = dict(penv)
        cs.spec = True
        cs.old = None
        callid = 'call:%s' % fi.qual.split('.', 1)[-1]
        self.eval_lets(spec, cs)
        # preconditions
        for j, r in enumerate(spec.requires):
            g = self.spec_eval_bool(r, cs)
            self.oblige(st, g, 'precondition', '%s:requires[%d]' % (callid, j), node)
            st.assume(g)
        old = (dict(cs.env), dict(st.store))
        # exceptional exits
        normal_guard = []
        for exc, cond in spec.raises.items():
            c = self.spec_eval_bool(cond, cs)
            rs = st.fork()
            rs.pc.append(c)
            rs.path.append('raise:%s' % exc)
            if self.feasible(rs):
                self.pending_raises[-1].append(Outcome('raise', rs, exc))
            normal_guard.append(z3.Not(c))
        for g in normal_guard:
            st.assume(g)
        if not self.feasible(st):
            return
        # frame
        post = st
        penv2 = dict(penv)
        self.havoc_modifies(spec, penv2, post)
        ps = post.fork()
        ps.env = dict(penv2)
        ps.spec = True
        ps.old = old
        skip = None
        res = None
        if spec.returns is not None:
            # `result is <expr>` : the call returns an existing object (no fresh result)
            for en in spec.ensures:
                if isinstance(en, ast.Compare) and len(en.ops) == 1 and isinstance(en.ops[0], ast.Is) \
                        and isinstance(en.left, ast.Name) and en.left.id == 'result':
                    ps.store = post.store
                    v = self.lift(self.ev1(en.comparators[0], ps))
                    if isinstance(v, OptV) and isinstance(v.val, Ref):
                        post.assume(z3.Not(v.none))
                        v = v.val
                    if isinstance(v, Ref):
                        res, skip = v, en
                    break
            if res is None and spec.trusted:
                # `result == <expr>` in a trusted contract: the result *is* that value (no fresh constant standing between the
                # code's terms and the specification's: congruence over nonlinear monomials is expensive for the solver)
                for en in spec.ensures:
                    if isinstance(en, ast.Compare) and len(en.ops) == 1 and isinstance(en.ops[0], ast.Eq) \
                            and isinstance(en.left, ast.Name) and en.left.id == 'result' \
                            and not any(isinstance(n, ast.Name) and n.id == 'result' for n in ast.walk(en.comparators[0])):
                        ps.store = post.store
                        try:
                            v = self.coerce_to(post, self.lift(self.ev1(en.comparators[0], ps)), spec.returns)
                        except (OutOfSubset, SpecError, KeyError):
                            break
                        if isinstance(v, (SV, TupV, OptV)):
                            res, skip = v, en
                        break
            if res is None:
                res = fresh_value(post, spec.returns, 'res_%s' % fi.node.name)
            ps.store = post.store
        else:
            res = NONEV
        ps.store = post.store
        ps.env['result'] = res
        self.eval_lets(spec, ps)
        for en in spec.ensures:
            if en is skip:
                continue
            post.assume(self.spec_eval_bool(en, ps))
        post.assumed.extend(ps.assumed)
        yield res, post

    def eval_lets(self, spec, s):
        for name, src in spec.lets.items():
            from .spec import parse_expr
            s.env[name] = self.ev1(parse_expr(src) if isinstance(src, str) else src, s)

    def havoc_modifies(self, spec, penv, st):
        for path in spec.modifies:
            parts = path.split('.')
            base = penv.get(parts[0])
            if base is None:
                raise SpecError('modifies %s: no such parameter' % path)
            cur = base
            for p in parts[1:-1]:
                cur = self.deopt_quiet(st.store[cur.id].fields[p])
            if len(parts) == 1:
                # whole container parameter
                self.havoc(st, {('cell', root_of(st, cur).id)}, 'call')
                continue
            last = parts[-1]
            cur = self.deopt_quiet(cur)
            c = st.store[cur.id]
            if last == '*':
                cs_ = REG.cls(c.cls)
                names = list(c.fields)
                if cs_ is not None:
                    for f in cs_.all_fields():
                        if f not in c.fields:
                            names.append(f)
                for f in names:
                    self.havoc_field(st, cur, f)
            else:
                self.havoc_field(st, cur, last)

    def deopt_quiet(self, v):
        return v.val if isinstance(v, OptV) else v

    def havoc_field(self, st, oref, f):
        c = st.store[oref.id]
        v = c.fields.get(f)
        if isinstance(v, Ref) and not isinstance(st.store[v.id], ObjC):
            self.havoc(st, {('cell', v.id)}, 'call')
            st.record_write(('cell', v.id))
        else:
            self.havoc(st, {('field', oref.id, f)}, 'call')
            st.record_write(('field', oref.id, f))

    # ------------------------------------------------------------------ spec evaluation
    def spec_eval(self, e, st):
        sub = st.fork()
        sub.spec = True
        v = self.ev1(e, sub)
        st.assumed.extend(x for x in sub.assumed if x is not None and False)
        return v

    def spec_eval_bool(self, e, st):
        sub = st.fork()
        sub.spec = True
        sub.store = st.store
        return self.truth(self.ev1(e, sub), sub)

    def run_ghost(self, stmts, st):
        """ghost statements: executed on the real state but may only write ghost fields / ghost locals"""
        sp = st.spec
        sup = self.suppress_obligations
        self.suppress_obligations = True
        try:
            outs = [o for o in self.ex_block(stmts, st)]
        finally:
            self.suppress_obligations = sup
        if len(outs) != 1 or outs[0].kind != 'normal':
            # ghost code with branches: merge is not supported -> require single path via ite expressions
            if len(outs) > 1:
                raise SpecError('ghost code forks; use conditional expressions')
        if outs and outs[0].st is not st:
            st.env, st.store, st.pc = outs[0].st.env, outs[0].st.store, outs[0].st.pc

    def feasible(self, st):
        """quick feasibility test of a path condition (unknown counts as feasible)"""
        self.feas_calls += 1
        if not st.pc:
            return True
        last = st.pc[-1]
        if z3.is_false(z3.simplify(last)):
            return False
        if self.feas_budget_ms <= 0:
            return True
        s = z3.Solver()
        s.set('timeout', self.feas_budget_ms)
        s.add(st.pc)
        r = s.check()
        return r != z3.unsat


class SortV:
    def __init__(self, name, ty=None):
        self.name = name
        self.ty = ty or Ty('sort', (), name)
    t = Ty('sortv')


class EnumConst:
    def __init__(self, cls, name):
        self.cls, self.name = cls, name
    t = Ty('enumconst')


PI = z3.Real('pi')
INF = z3.Real('inf')

BUILTIN_NAMES = {'len', 'range', 'min', 'max', 'abs', 'int', 'float', 'bool', 'tuple', 'list', 'set', 'dict', 'sorted',
                 'enumerate', 'zip', 'sum', 'isinstance', 'implies', 'iff', 'ite', 'mapset', 'key_at', 'round', 'type', 'str', 'isinf',
                 'reversed', 'map', 'filter', 'deque', 'iter', 'next', 'hasattr', 'getattr', 'id', 'print', 'complex'}


def loop_ordinals(fnode):
    """loops of a function in source order -> ordinal: for / while loops are numbered 0, 1, ...;
    comprehensions separately 'c0', 'c1', ... (only those with effects need a contract), so that adding or
    removing a pure comprehension does not renumber the loops (nested defs / lambdas excluded)"""
    out = {}
    cnt = [0, 0]

    def rec(n):
        for c in ast.iter_child_nodes(n):
            if isinstance(c, (ast.FunctionDef, ast.Lambda, ast.ClassDef)):
                continue
            if isinstance(c, (ast.For, ast.While)):
                out[id(c)] = cnt[0]
                cnt[0] += 1
            elif isinstance(c, (ast.ListComp, ast.SetComp, ast.GeneratorExp, ast.DictComp)):
                out[id(c)] = 'c%d' % cnt[1]
                cnt[1] += 1
            rec(c)
    rec(fnode)
    return out
