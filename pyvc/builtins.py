"""pyvc.builtins -- models of Python builtins and container methods (trusted base A6),
and the registry of external (numpy / heapq / math ...) contracts (A7-A10)."""
import ast
import z3
from .ty import *
from .state import *
from .spec import REG
from .evalx import PathEnd, EnumV, ZipV, ItemsV, ValuesV, z3and
from .execs import Outcome

EXTERNALS = {}      # 'numpy.linspace' -> handler(engine, args, kwargs, st, node) -> generator of (val, st)


def external(name):
    def deco(f):
        EXTERNALS[name] = f
        return f
    return deco


class BuiltinMixin:

    @property
    def external_fns(self):
        return EXTERNALS

    @property
    def external_names(self):
        return {k for k in EXTERNALS if '.' not in k}

    def call_builtin(self, name, args, kwargs, st, node):
        if name in EXTERNALS:
            self.externals_used.add(name)
            yield from EXTERNALS[name](self, args, kwargs, st, node)
            return
        if name in REG.defs and self.expand_defs:
            params, body, _ = REG.defs[name]
            sub = st.fork()
            sub.spec = True
            sub.env = dict(st.env)
            for p_, v_ in zip(params, args):
                sub.env[p_] = v_
            yield self.ev1(body, sub), st
            return
        if name in REG.ufuncs:
            self.ufuncs_used.add(name)
            argt, rett = REG.ufuncs[name]
            f = z3.Function(name, *([sort_of(t) for t in argt] + [sort_of(rett)]))
            yield unpack(st, f(*[pack(st, self.lift(a), t) for a, t in zip(args, argt)]), rett), st
            return
        m = getattr(self, 'bi_' + name, None)
        if m is None:
            raise OutOfSubset('builtin %s' % name)
        r = m(args, kwargs, st, node)
        if hasattr(r, '__next__'):
            yield from r
        else:
            yield r, st

    # ---- spec helpers
    def bi_implies(self, a, kw, st, node):
        return SV(BOOL, z3.Implies(self.truth(a[0], st), self.truth(a[1], st)))

    def bi_iff(self, a, kw, st, node):
        return SV(BOOL, self.truth(a[0], st) == self.truth(a[1], st))

    def bi_ite(self, a, kw, st, node):
        c = self.truth(a[0], st)
        m = self.merge_values(st, c, self.lift(a[1]), self.lift(a[2]))
        if m is None:
            raise OutOfSubset('ite on %r / %r' % (a[1], a[2]))
        return m

    def bi_key_at(self, a, kw, st, node):
        """spec: key_at(d, j) -- the j-th key of a dict / set in iteration order"""
        v = self.lift(a[0])
        if isinstance(v, SV) and v.t.kind in ('dict', 'set'):
            v = unpack(st, v.e, v.t)
        c = st.store[v.id]
        if not isinstance(c, (DictC, SetC)):
            raise SpecError('key_at on %r' % (v,))
        return unpack(st, z3.Select(c.keys, self.num(a[1], st, node)[0]), c.t.args[0])

    def bi_mapset(self, a, kw, st, node):
        m = a[0]
        return SV(m.t, z3.Store(m.e, pack(st, self.lift(a[1]), m.t.args[0]), pack(st, self.lift(a[2]), m.t.args[1])))

    # ---- python builtins
    def bi_isinf(self, a, kw, st, node):
        """math.isinf: the extended real `inf` is a distinguished constant (A2: floats are reals plus +-inf)"""
        from .calls import INF
        x = self.num(a[0], st, node)[0]
        if x.sort().kind() == z3.Z3_INT_SORT:
            x = z3.ToReal(x)
        return SV(BOOL, z3.Or(x == INF, x == -INF))

    def bi_print(self, a, kw, st, node):
        return NONEV

    def bi_len(self, a, kw, st, node):
        v = self.deopt(self.lift(a[0]), st, node)
        if isinstance(v, SV) and v.t.kind in ('list', 'dict', 'set', 'tuple'):
            v = unpack(st, v.e, v.t)
        if isinstance(v, TupV):
            return mk_int(len(v.items))
        if isinstance(v, RangeV) or isinstance(v, (EnumV, ZipV, ItemsV, ValuesV)):
            n, _ = self.iter_domain(v, st, node)
            return SV(INT, n)
        if isinstance(v, Ref):
            c = st.store[v.id]
            if isinstance(c, (ListC, DictC, SetC)):
                return SV(INT, c.n)
            if isinstance(c, ObjC):
                return self.call_method(v, '__len__', [], {}, st, node)
        if isinstance(v, StrConst):
            return mk_int(len(v.s))
        raise OutOfSubset('len of %r' % (v,))

    def bi_range(self, a, kw, st, node):
        a = [self.lift(x) for x in a]
        for x in a:
            if not (isinstance(x, SV) and x.t.kind in ('int', 'bool')):
                raise OutOfSubset('range of non-int %r' % (x,))
        if len(a) == 1:
            return RangeV(mk_int(0), a[0], mk_int(1))
        if len(a) == 2:
            return RangeV(a[0], a[1], mk_int(1))
        return RangeV(a[0], a[1], a[2])

    def _minmax(self, a, kw, st, node, is_min):
        if len(a) == 1:
            v = self.lift(a[0])
            if isinstance(v, SV) and v.t.kind == 'tuple':
                v = unpack(st, v.e, v.t)
            if isinstance(v, TupV):
                a = v.items
            else:
                raise OutOfSubset('min/max over a sequence')
        if 'key' in kw:
            raise OutOfSubset('min/max key')
        cur = self.lift(a[0])
        for x in a[1:]:
            x = self.lift(x)
            c = self.compare(ast.Lt() if is_min else ast.Gt(), x, cur, st, node)
            cur = self.merge_values(st, c, x, cur)
            if cur is None:
                raise OutOfSubset('min/max merge')
        return cur

    def bi_min(self, a, kw, st, node):
        return self._minmax(a, kw, st, node, True)

    def bi_max(self, a, kw, st, node):
        return self._minmax(a, kw, st, node, False)

    def bi_abs(self, a, kw, st, node):
        x, k = self.num(a[0], st, node)
        return SV(INT if k == 'int' else REAL, z3.If(x >= 0, x, -x))

    def bi_int(self, a, kw, st, node):
        if not a:
            return mk_int(0)
        x, k = self.num(a[0], st, node)
        if k == 'int':
            return SV(INT, x)
        # truncation toward zero
        return SV(INT, z3.If(x >= 0, z3.ToInt(x), -z3.ToInt(-x)))

    def bi_float(self, a, kw, st, node):
        v = self.lift(a[0])
        if isinstance(v, StrConst):
            if v.s in ('inf', '+inf'):
                from .calls import INF
                return SV(REAL, INF)
            raise OutOfSubset('float(%r)' % v.s)
        x, k = self.num(v, st, node)
        return SV(REAL, z3.ToReal(x) if k == 'int' else x)

    def bi_bool(self, a, kw, st, node):
        return SV(BOOL, self.truth(a[0], st))

    def bi_round(self, a, kw, st, node):
        raise OutOfSubset('round')

    def bi_str(self, a, kw, st, node):
        return SV(STR, fresh_const('str', z3.StringSort()))

    def bi_id(self, a, kw, st, node):
        raise OutOfSubset('id')

    def bi_isinstance(self, a, kw, st, node):
        v = self.lift(a[0])
        c = a[1]
        names = []
        if isinstance(c, TupV):
            cs = c.items
        else:
            cs = [c]
        res = []
        for c in cs:
            if isinstance(c, ClassV):
                if isinstance(v, Ref) and isinstance(st.store[v.id], ObjC):
                    ci = self.class_info(st.store[v.id].cls)
                    res.append(any(x.qual == c.qual for x in self.index.mro(ci)))
                else:
                    res.append(False)
            elif isinstance(c, FunV) and c.kind == 'builtin':
                k = type_of(v).kind
                res.append({'complex': False, 'int': k in ('int', 'bool'), 'float': k == 'real', 'bool': k == 'bool', 'tuple': k == 'tuple',
                            'list': k == 'list', 'set': k == 'set', 'dict': k == 'dict', 'str': k == 'str'}.get(c.qual, None))
                if res[-1] is None:
                    raise OutOfSubset('isinstance(%s)' % c.qual)
            else:
                raise OutOfSubset('isinstance on %r' % (c,))
        return mk_bool(any(res))

    def bi_tuple(self, a, kw, st, node):
        if not a:
            return TupV([])
        v = self.deopt(self.lift(a[0]), st, node)
        if isinstance(v, SV) and v.t.kind in ('tuple', 'list'):
            v = unpack(st, v.e, v.t)
        if isinstance(v, TupV):
            return v
        if isinstance(v, Ref) and isinstance(st.store[v.id], ListC):
            c = st.store[v.id]
            n = z3.simplify(c.n)
            if z3.is_int_value(n):
                return TupV([unpack(st, z3.Select(c.arr, i), c.t.args[0]) for i in range(n.as_long())])
        raise OutOfSubset('tuple() of symbolic-length sequence')

    def bi_list(self, a, kw, st, node):
        if not a:
            return EmptyV('list')
        v = self.deopt(self.lift(a[0]), st, node)
        if isinstance(v, SV) and v.t.kind in ('tuple', 'list', 'set', 'dict'):
            v = unpack(st, v.e, v.t)
        if isinstance(v, TupV):
            return self.make_list(st, v.items)
        n, el = self.iter_domain(v, st, node)
        i = fresh_const('li', z3.IntSort())
        sample = self.lift(el(i))
        t = type_of(sample)
        return new_list(st, Ty('list', [t]), z3.Lambda([i], pack(st, sample, t)), n)

    def bi_set(self, a, kw, st, node):
        if not a:
            return EmptyV('set')
        v = self.deopt(self.lift(a[0]), st, node)
        if isinstance(v, SV) and v.t.kind in ('tuple', 'list', 'set'):
            v = unpack(st, v.e, v.t)
        if isinstance(v, TupV):
            et = None
            for x in v.items:
                et = join_types(et, type_of(self.lift(x)))
            r = new_set(st, Ty('set', [et]), empty=True)
            for x in v.items:
                self.set_add(st, r, x)
            return r
        # set(sequence): membership <-> occurs in the sequence
        n, el = self.iter_domain(v, st, node)
        i = fresh_const('si', z3.IntSort())
        sample = self.lift(el(i))
        t = type_of(sample)
        r = new_set(st, Ty('set', [t]), name='setof')
        c = st.store[r.id]
        k = fresh_const('sk', sort_of(t))
        st.assume(z3.ForAll([i], z3.Implies(z3.And(0 <= i, i < n), z3.Select(c.dom, pack(st, sample, t)))))
        j = fresh_const('sj', z3.IntSort())
        wit = z3.Function(fresh_name('setwit'), sort_of(t), z3.IntSort())
        elj = pack(st, self.lift(el(wit(k))), t)
        st.assume(z3.ForAll([k], z3.Implies(z3.Select(c.dom, k), z3.And(0 <= wit(k), wit(k) < n, elj == k))))
        return r

    def bi_dict(self, a, kw, st, node):
        if not a and not kw:
            return EmptyV('dict')
        raise OutOfSubset('dict(...)')

    def bi_enumerate(self, a, kw, st, node):
        start = z3.IntVal(0)
        if len(a) > 1:
            start = self.num(a[1], st)[0]
        if 'start' in kw:
            start = self.num(kw['start'], st)[0]
        return EnumV(self.lift(a[0]), start)

    def bi_zip(self, a, kw, st, node):
        return ZipV([self.lift(x) for x in a])

    def bi_sorted(self, a, kw, st, node):
        raise OutOfSubset('sorted')

    def bi_sum(self, a, kw, st, node):
        raise OutOfSubset('sum')

    def bi_type(self, a, kw, st, node):
        v = self.lift(a[0])
        if isinstance(v, Ref) and isinstance(st.store[v.id], ObjC):
            return ClassV(st.store[v.id].cls)
        raise OutOfSubset('type()')

    def bi_hasattr(self, a, kw, st, node):
        v = self.lift(a[0])
        n = a[1]
        if isinstance(v, Ref) and isinstance(st.store[v.id], ObjC) and isinstance(n, StrConst):
            c = st.store[v.id]
            return mk_bool(n.s in c.fields or self.find_method_for(c.cls, n.s) is not None)
        raise OutOfSubset('hasattr')

    # ------------------------------------------------------------------ container methods
    def call_container_method(self, recv, name, args, kwargs, st, node):
        recv = self.lift(recv)
        if isinstance(recv, SV) and recv.t.kind in ('list', 'dict', 'set', 'tuple'):
            recv = unpack(st, recv.e, recv.t)
        if isinstance(recv, Ref):
            c = st.store[recv.id]
            if isinstance(c, ListC):
                yield from self.list_method(recv, c, name, args, kwargs, st, node)
                return
            if isinstance(c, DictC):
                yield from self.dict_method(recv, c, name, args, kwargs, st, node)
                return
            if isinstance(c, SetC):
                yield from self.set_method(recv, c, name, args, kwargs, st, node)
                return
        if isinstance(recv, SV) and recv.t.kind == 'str' or isinstance(recv, StrConst):
            if name == 'format':
                yield SV(STR, fresh_const('fmt', z3.StringSort())), st
                return
        raise OutOfSubset('method %s on %r' % (name, recv))

    def list_method(self, recv, c, name, args, kwargs, st, node):
        if name in ('__iter__', 'keys') and not args:
            yield recv, st
        elif name == '__len__' and not args:
            yield SV(INT, c.n), st
        elif name == 'append':
            self.list_append(st, recv, args[0])
            yield NONEV, st
        elif name == 'extend':
            self.list_extend(st, recv, args[0], node)
            yield NONEV, st
        elif name == 'pop':
            if args:
                raise OutOfSubset('list.pop(i)')
            self.safety(st, c.n > 0, 'pop-from-empty', node)
            v = unpack(st, z3.Select(c.arr, c.n - 1), c.t.args[0])
            st.store[recv.id] = ListC(c.t, c.arr, c.n - 1, c.parent)
            st.record_write(('cell', root_of(st, recv).id))
            write_through(st, recv)
            yield v, st
        elif name == 'copy':
            yield new_list(st, c.t, c.arr, c.n), st
        elif name == 'index':
            x = pack(st, self.lift(args[0]), c.t.args[0])
            r = fresh_const('idx', z3.IntSort())
            i = fresh_const('ii', z3.IntSort())
            self.safety(st, z3.Exists([i], z3.And(0 <= i, i < c.n, z3.Select(c.arr, i) == x)), 'list.index-present', node)
            st.assume(z3.And(0 <= r, r < c.n, z3.Select(c.arr, r) == x,
                             z3.ForAll([i], z3.Implies(z3.And(0 <= i, i < r), z3.Select(c.arr, i) != x))))
            yield SV(INT, r), st
        elif name == 'reverse':
            i = fresh_const('rv', z3.IntSort())
            if z3.is_int_value(z3.simplify(c.n)):
                narr = z3.Lambda([i], z3.Select(c.arr, c.n - 1 - i))
            else:
                # symbolic length: a fresh array with its defining property (triggered on reads of the new array);
                # lambdas under quantified invariants make the solver give up
                narr = fresh_const('rev', c.arr.sort())
                st.assume(z3.ForAll([i], z3.Implies(z3.And(0 <= i, i < c.n), z3.Select(narr, i) == z3.Select(c.arr, c.n - 1 - i)),
                                    patterns=[z3.Select(narr, i)]))
            st.store[recv.id] = ListC(c.t, narr, c.n, c.parent)
            st.record_write(('cell', root_of(st, recv).id))
            write_through(st, recv)
            yield NONEV, st
        elif name == 'clear':
            st.store[recv.id] = ListC(c.t, c.arr, z3.IntVal(0), c.parent)
            st.record_write(('cell', root_of(st, recv).id))
            write_through(st, recv)
            yield NONEV, st
        elif name == 'sort':
            yield from self.list_sort(recv, c, kwargs, st, node)
        else:
            raise OutOfSubset('list.%s' % name)

    def list_sort(self, recv, c, kwargs, st, node):
        """A6: sort(key) yields a permutation, non-decreasing in key (stability not modelled)"""
        key = kwargs.get('key')
        res = new_list(st, c.t, name='sorted')
        rc = st.store.pop(res.id)
        perm = z3.Function(fresh_name('perm'), z3.IntSort(), z3.IntSort())
        inv = z3.Function(fresh_name('perminv'), z3.IntSort(), z3.IntSort())
        i = fresh_const('si', z3.IntSort())
        st.assume(rc.n == c.n)
        st.assume(z3.ForAll([i], z3.Implies(z3.And(0 <= i, i < c.n),
                                            z3.And(0 <= perm(i), perm(i) < c.n, inv(perm(i)) == i,
                                                   z3.Select(rc.arr, i) == z3.Select(c.arr, perm(i))))))
        st.assume(z3.ForAll([i], z3.Implies(z3.And(0 <= i, i < c.n), z3.And(0 <= inv(i), inv(i) < c.n, perm(inv(i)) == i))))
        # ordering
        a, b = fresh_const('sa', z3.IntSort()), fresh_const('sb', z3.IntSort())

        def keyof(idx):
            el = unpack(st, z3.Select(rc.arr, idx), c.t.args[0])
            if key is None:
                return el
            sub = st.fork()
            outs = list(self.call(key, [el], {}, sub, node))
            if len(outs) != 1:
                raise OutOfSubset('sort key forks')
            return outs[0][0]
        if kwargs.get('reverse') is not None:
            raise OutOfSubset('sort(reverse=)')
        ka, kb = keyof(a), keyof(b)
        le = self.compare(ast.LtE(), ka, kb, st, node)
        st.assume(z3.ForAll([a, b], z3.Implies(z3.And(0 <= a, a <= b, b < c.n), le)))
        st.store[recv.id] = ListC(c.t, rc.arr, rc.n, c.parent)
        st.record_write(('cell', root_of(st, recv).id))
        write_through(st, recv)
        yield NONEV, st

    def dict_method(self, recv, c, name, args, kwargs, st, node):
        if name == '__iter__' and not args:
            yield recv, st
        elif name in ('tocsc', 'tocsr', 'tocoo') and not args and c.t.args[0].kind == 'tuple':
            # entry map of a scipy sparse matrix (externals.sp_lil_matrix): format conversion keeps the entries
            yield recv, st
        elif name == '__len__' and not args:
            yield SV(INT, c.n), st
        elif name == 'get':
            k = self.key_pack(st, c, self.lift(args[0]))
            isin = z3.Select(c.dom, k)
            v = unpack(st, z3.Select(c.val, k), c.t.args[1], parent=(recv, k))
            dflt = self.lift(args[1]) if len(args) > 1 else NONEV
            if isinstance(dflt, NoneV):
                yield OptV(z3.Not(isin), v, Ty('opt', [c.t.args[1]])), st
            else:
                m = self.merge_values(st, isin, v, dflt)
                if m is None:
                    raise OutOfSubset('dict.get merge')
                yield m, st
        elif name == 'items':
            yield ItemsV(recv), st
        elif name == 'keys':
            yield recv, st
        elif name == 'values':
            yield ValuesV(recv), st
        elif name == 'update':
            raise OutOfSubset('dict.update')
        elif name == 'pop':
            raise OutOfSubset('dict.pop')
        elif name == 'clear':
            raise OutOfSubset('dict.clear')
        else:
            raise OutOfSubset('dict.%s' % name)

    def set_method(self, recv, c, name, args, kwargs, st, node):
        if name == 'add':
            self.set_add(st, recv, args[0])
            yield NONEV, st
        elif name == 'copy':
            yield new_set(st, c.t, parts=(c.dom, c.keys, c.pos, c.n)), st
        else:
            raise OutOfSubset('set.%s' % name)
